# Prototype of C01.R3: writes to verdict fields must be control-dependent on a condition whose slice reaches Retries.left
import json, os, sys
d=json.load(open(os.environ.get('FACTS','/tmp/proto/facts/cucumber.json')))
B={b['def']:b for b in d['bodies']}

def succs(blk):
    t=blk['term']; k=t['k']
    if k in('goto','drop','assert'): return [t['t']]
    if k=='switch': return [x[1] for x in t['targets']]+[t['otherwise']]
    if k=='call': return [t['t']] if t['t']>=0 else []
    if k=='yield': return [t['resume']]
    return []

def cfg(b):
    blocks={x['i']:x for x in b['blocks']}
    normal={i for i,x in blocks.items() if not x['cleanup']}
    S={i:[s for s in succs(blocks[i]) if s in normal] for i in normal}
    return blocks,normal,S

def postdom(normal,S):
    EXIT=-1
    succ={i:(S[i] if S[i] else [EXIT]) for i in normal}; succ[EXIT]=[]
    nodes=list(normal)+[EXIT]
    pd={n:set(nodes) for n in nodes}; pd[EXIT]={EXIT}
    ch=True
    while ch:
        ch=False
        for n in nodes:
            if n==EXIT: continue
            new=set.intersection(*[pd[s] for s in succ[n]])|{n}
            if new!=pd[n]: pd[n]=new; ch=True
    return pd

def control_deps(normal,S):
    pd=postdom(normal,S)
    cd={n:set() for n in normal}
    for a in normal:
        if len(set(S[a]))<2: continue
        for s in S[a]:
            for n in normal:
                if n in pd[s] and not (n in pd[a] and n!=a):
                    cd[n].add((a,s))
    return cd

def place_str(p):
    out='_%d'%p['local']
    for e in p['proj']:
        if e['k']=='deref': out='(*%s)'%out
        elif e['k']=='field': out='%s.%s'%(out,e['name'])
        elif e['k']=='downcast': out='(%s as %s)'%(out,e['variant'])
        else: out+='[?]'
    return out

def defs_of(b):
    D={}
    for blk in b['blocks']:
        for st in blk['stmts']:
            D.setdefault(st['place']['local'],[]).append(('rv',st['rv'],st['place']))
        t=blk['term']
        if t['k']=='call':
            D.setdefault(t['dest']['local'],[]).append(('call',t,t['dest']))
    return D

def operands_of_rv(rv):
    k=rv['k']
    if k=='use': return [rv['op']]
    if k in('ref','discr'): return [{'k':'copy','place':rv['place']}]
    if k=='bin': return [rv['a'],rv['b']]
    if k=='un': return [rv['a']]
    if k=='cast': return [rv['op']]
    if k=='aggregate': return rv['ops']
    return []

def closure_reads(cname,depth):
    b=B.get(cname)
    if not b: return set()
    reads=set()
    for blk in b['blocks']:
        for st in blk['stmts']:
            for op in operands_of_rv(st['rv']):
                if op['k'] in('copy','move'):
                    for e in op['place']['proj']:
                        if e['k']=='field' and e['owner']: reads.add('%s.%s'%(e['owner'],e['name']))
            if st['rv']['k']=='aggregate' and st['rv']['kind'].get('agg')=='closure' and depth<3:
                reads|=closure_reads(st['rv']['kind']['def'],depth+1)
    return reads

def slice_reads(bname, start_locals, depth=0):
    b=B[bname]; D=defs_of(b)
    reads=set(); work=list(start_locals); done=set()
    while work:
        l=work.pop()
        if l in done: continue
        done.add(l)
        for kind,x,dest in D.get(l,[]):
            ops = operands_of_rv(x) if kind=='rv' else x['args']
            for op in ops:
                if op['k'] in('copy','move'):
                    p=op['place']
                    for e in p['proj']:
                        if e['k']=='field' and e['owner']: reads.add('%s.%s'%(e['owner'],e['name']))
                    work.append(p['local'])
            if kind=='rv' and x['k']=='aggregate' and x['kind'].get('agg')=='closure' and depth<3:
                reads|=closure_reads(x['kind']['def'],depth+1)
    return reads

def field_writes(b):
    out=[]
    for blk in b['blocks']:
        if blk['cleanup']: continue
        for st in blk['stmts']:
            p=st['place']
            fs=[e for e in p['proj'] if e['k']=='field']
            if fs and p['proj'][0]['k']=='deref':
                out.append((blk['i'],place_str(p),st['span']))
    return out

for name in sys.argv[1:]:
    b=B[name]; blocks,normal,S=cfg(b); cd=control_deps(normal,S)
    print("==",name)
    for (bi,ps,span) in field_writes(b):
        conds=set(); work=[bi]
        while work:
            n=work.pop()
            for (a,s) in cd.get(n,()):
                if (a,s) not in conds:
                    conds.add((a,s)); work.append(a)
        reads=set()
        for (a,s) in conds:
            t=blocks[a]['term']
            if t['k']=='switch' and t['discr']['k'] in('copy','move'):
                reads|=slice_reads(name,[t['discr']['place']['local']])
        dep = any(r.endswith('Retries.left') for r in reads)
        print("  write %-34s @%-28s ctrl-conds=%d  depends_on_Retries.left=%s"%(ps,span.split('/')[-1],len(conds),dep))
