import json, sys, re
import os
d=json.load(open(os.environ.get('FACTS','/tmp/proto/facts/cucumber.json')))
B={b['def']:b for b in d['bodies']}

def succs(blk):
    t=blk['term']; k=t['k']
    if k in('goto','drop','assert'): return [(t['t'],k)]
    if k=='switch': return [(x[1],'sw%d'%x[0]) for x in t['targets']]+[(t['otherwise'],'swo')]
    if k=='call': return [(t['t'],'call')] if t['t']>=0 else []
    if k=='yield': return [(t['resume'],'yield')]
    return []

def callee(t):
    f=t['func']
    if f['k']=='fn': return f['path'], f['full']
    return None, t['fty']

MUST_PEND=re.compile(r'YieldThenReturn|YieldNow')
def analyse(name):
    b=B[name]
    blocks={x['i']:x for x in b['blocks']}
    normal={i for i,x in blocks.items() if not x['cleanup']}
    # local def map: local -> (block, rvalue/call)
    ltys={l['i']:l['ty'] for l in b['locals']}
    edges={}
    # find polls: call to Future::poll ; awaited type from fty 'full'
    cut=set()
    info={}
    for i in normal:
        t=blocks[i]['term']
        for (s,lab) in succs(blocks[i]):
            if s in normal: edges.setdefault(i,[]).append((s,lab))
        if t['k']=='yield':
            cut.add((i,t['resume']))
    # classify polls
    for i in normal:
        t=blocks[i]['term']
        if t['k']=='call':
            p,full=callee(t)
            if p and p.endswith('Future::poll'):
                # result local
                dest=t['dest']['local']
                # find switch on discriminant of dest following
                nxt=t['t']
                # follow to the switch
                seen=0; cur=nxt
                while blocks[cur]['term']['k']!='switch' and seen<5:
                    cur=succs(blocks[cur])[0][0]; seen+=1
                sw=blocks[cur]['term']
                # Poll::Ready = 0, Pending = 1
                ready=[x[1] for x in sw['targets'] if x[0]==0]
                info[i]=(full,cur,ready)
    return b,blocks,normal,edges,cut,info

name=sys.argv[1]
b,blocks,normal,edges,cut,info=analyse(name)
print("body",name,"blocks",len(blocks),"polls",len(info))
for i,(full,sw,ready) in sorted(info.items()):
    m=re.match(r'<(.*) as (std::future::Future|futures::Future)>::poll',full)
    print(" poll bb%d awaited=%s  switch=bb%d ready->%s"%(i,(m.group(1) if m else full)[:150],sw,ready))
# drivers: productive edges
DRIVERS=('Iterator>::next','::try_next','and_then')
removed=set(cut)
for i,(full,sw,ready) in info.items():
    m=re.match(r'<(.*) as (std::future::Future|futures::Future)>::poll',full)
    aw=m.group(1) if m else full
    kind=None
    if MUST_PEND.search(aw) and 'SelectWithBiasedFirst' not in aw: kind='must_pend'
    elif 'oneshot::Receiver' in aw: kind='blocking'
    elif 'SelectWithBiasedFirst' in aw: kind='blocking(select)'
    elif 'stream::Next<' in aw: kind='driver(stream next)'
    if kind:
        for r in ready: removed.add((sw,r))
        print("  cut Ready edge of bb%d [%s]"%(i,kind))
for i in normal:
    t=blocks[i]['term']
    if t['k']=='call':
        p,full=callee(t)
        if p and (p.endswith('Iterator::next') or p.endswith('::try_next')):
            # find switch(es) on dest: remove Some edge(s): conservatively: find first switch downstream and remove non-None(0) edges... variants from discr rvalue
            cur=t['t']; seen=0
            while blocks[cur]['term']['k']!='switch' and seen<6:
                ss=succs(blocks[cur])
                if not ss: break
                cur=ss[0][0]; seen+=1
            sw=blocks[cur]['term']
            if sw['k']=='switch':
                # find discr stmt to get variants
                var=None
                for st in blocks[cur]['stmts']:
                    if st['rv']['k']=='discr': var=dict((v[0],v[1]) for v in st['rv']['variants'])
                for val,tgt in sw['targets']:
                    vn=var.get(val) if var else None
                    if vn in('Some','Ok'):
                        # for Ok: look one more switch for Some
                        if vn=='Ok':
                            c2=tgt; s2=0
                            while blocks[c2]['term']['k']!='switch' and s2<6:
                                c2=succs(blocks[c2])[0][0]; s2+=1
                            sw2=blocks[c2]['term']; var2=None
                            for st in blocks[c2]['stmts']:
                                if st['rv']['k']=='discr': var2=dict((v[0],v[1]) for v in st['rv']['variants'])
                            for v2,t2 in sw2['targets']:
                                if var2 and var2.get(v2)=='Some': removed.add((c2,t2)); print("  cut productive edge bb%d->bb%d after %s"%(c2,t2,p))
                        else:
                            removed.add((cur,tgt)); print("  cut productive edge bb%d->bb%d after %s"%(cur,tgt,p))
# acyclicity
g={i:[s for (s,l) in edges.get(i,[]) if (i,s) not in removed] for i in normal}
# find cycles via Tarjan SCC
import sys as _s
_s.setrecursionlimit(10000)
idx={};low={};st=[];on=set();res=[];c=[0]
def sc(v):
    idx[v]=low[v]=c[0];c[0]+=1;st.append(v);on.add(v)
    for w in g[v]:
        if w not in idx: sc(w);low[v]=min(low[v],low[w])
        elif w in on: low[v]=min(low[v],idx[w])
    if low[v]==idx[v]:
        comp=[]
        while True:
            w=st.pop();on.discard(w);comp.append(w)
            if w==v:break
        if len(comp)>1 or v in g[v]: res.append(comp)
for v in g:
    if v not in idx: sc(v)
print("remaining cycles (SCCs):",len(res))
for comp in res:
    comp=sorted(comp)
    print(" SCC size",len(comp))
    for i in comp:
        t=blocks[i]['term']
        if t['k']=='call':
            p,full=callee(t); print("   bb%d call %s @%s"%(i,(p or full)[:110],t['span']))
