#![feature(rustc_private)]
extern crate rustc_driver;
extern crate rustc_hir;
extern crate rustc_interface;
extern crate rustc_middle;
extern crate rustc_span;
extern crate rustc_abi;

use rustc_driver::Compilation;
use rustc_middle::mir::*;
use rustc_middle::ty::{self, Ty, TyCtxt, TyKind};
use std::fmt::Write as _;

fn js(s: &str) -> String {
    let mut o = String::with_capacity(s.len() + 2);
    o.push('"');
    for c in s.chars() {
        match c {
            '"' => o.push_str("\\\""),
            '\\' => o.push_str("\\\\"),
            '\n' => o.push_str("\\n"),
            '\t' => o.push_str("\\t"),
            c if (c as u32) < 0x20 => { let _ = write!(o, "\\u{:04x}", c as u32); }
            c => o.push(c),
        }
    }
    o.push('"');
    o
}

struct Cx<'tcx> { tcx: TyCtxt<'tcx> }

impl<'tcx> Cx<'tcx> {
    fn span(&self, sp: rustc_span::Span) -> String {
        let sm = self.tcx.sess.source_map();
        let lo = sm.lookup_char_pos(sp.lo());
        format!("{}:{}:{}", lo.file.name.prefer_local_unconditionally(), lo.line, lo.col.0 + 1)
    }
    fn place(&self, body: &Body<'tcx>, p: &Place<'tcx>) -> String {
        // walk projections, tracking type for field names
        let mut out = format!("{{\"local\":{},\"proj\":[", p.local.as_usize());
        let mut pty = PlaceTy::from_ty(body.local_decls[p.local].ty);
        let mut first = true;
        for elem in p.projection.iter() {
            if !first { out.push(','); }
            first = false;
            match elem {
                ProjectionElem::Deref => out.push_str("{\"k\":\"deref\"}"),
                ProjectionElem::Field(f, _) => {
                    let mut name = format!("{}", f.as_usize());
                    let mut owner = String::new();
                    if let TyKind::Adt(adt, _) = pty.ty.kind() {
                        let v = match pty.variant_index { Some(v) => v, None => rustc_abi::FIRST_VARIANT };
                        if adt.is_enum() || adt.is_struct() || adt.is_union() {
                            if let Some(vd) = adt.variants().get(v) {
                                if let Some(fd) = vd.fields.get(f) { name = fd.name.to_string(); }
                            }
                        }
                        owner = self.tcx.def_path_str(adt.did());
                    }
                    let _ = write!(out, "{{\"k\":\"field\",\"i\":{},\"name\":{},\"owner\":{}}}", f.as_usize(), js(&name), js(&owner));
                }
                ProjectionElem::Downcast(sym, v) => {
                    let n = sym.map(|s| s.to_string()).unwrap_or_default();
                    let _ = write!(out, "{{\"k\":\"downcast\",\"variant\":{},\"i\":{}}}", js(&n), v.as_usize());
                }
                ProjectionElem::Index(l) => { let _ = write!(out, "{{\"k\":\"index\",\"local\":{}}}", l.as_usize()); }
                _ => out.push_str("{\"k\":\"other\"}"),
            }
            pty = pty.projection_ty(self.tcx, elem);
        }
        out.push_str("]}");
        out
    }
    fn konst(&self, c: &ConstOperand<'tcx>) -> String {
        let ty = c.const_.ty();
        if let TyKind::FnDef(did, args) = ty.kind() {
            let path = self.tcx.def_path_str_with_args(*did, args);
            let plain = self.tcx.def_path_str(*did);
            return format!("{{\"k\":\"fn\",\"path\":{},\"full\":{}}}", js(&plain), js(&path));
        }
        let mut val = String::new();
        if let Some(si) = c.const_.try_eval_scalar_int(self.tcx, ty::TypingEnv::fully_monomorphized()) {
            val = format!("{}", si);
        }
        format!("{{\"k\":\"const\",\"ty\":{},\"val\":{},\"text\":{}}}", js(&ty.to_string()), js(&val), js(&format!("{}", c.const_)))
    }
    fn operand(&self, body: &Body<'tcx>, o: &Operand<'tcx>) -> String {
        match o {
            Operand::Copy(p) => format!("{{\"k\":\"copy\",\"place\":{}}}", self.place(body, p)),
            Operand::Move(p) => format!("{{\"k\":\"move\",\"place\":{}}}", self.place(body, p)),
            Operand::Constant(c) => self.konst(c),
            _ => "{\"k\":\"other\"}".to_string(),
        }
    }
    fn rvalue(&self, body: &Body<'tcx>, r: &Rvalue<'tcx>) -> String {
        match r {
            Rvalue::Use(o, ..) => format!("{{\"k\":\"use\",\"op\":{}}}", self.operand(body, o)),
            Rvalue::Ref(_, bk, p) => format!("{{\"k\":\"ref\",\"mut\":{},\"place\":{}}}", matches!(bk, BorrowKind::Mut{..}), self.place(body, p)),
            Rvalue::BinaryOp(op, ab) => format!("{{\"k\":\"bin\",\"op\":{},\"a\":{},\"b\":{}}}", js(&format!("{:?}", op)), self.operand(body, &ab.0), self.operand(body, &ab.1)),
            Rvalue::UnaryOp(op, a) => format!("{{\"k\":\"un\",\"op\":{},\"a\":{}}}", js(&format!("{:?}", op)), self.operand(body, a)),
            Rvalue::Discriminant(p) => {
                let ty = p.ty(body, self.tcx).ty;
                format!("{{\"k\":\"discr\",\"place\":{},\"ty\":{},\"variants\":{}}}", self.place(body, p), js(&ty.to_string()), self.variants(ty))
            }
            Rvalue::Cast(kind, o, ty) => format!("{{\"k\":\"cast\",\"kind\":{},\"op\":{},\"ty\":{}}}", js(&format!("{:?}", kind)), self.operand(body, o), js(&ty.to_string())),
            Rvalue::CopyForDeref(p) => format!("{{\"k\":\"use\",\"op\":{{\"k\":\"copy\",\"place\":{}}}}}", self.place(body, p)),
            Rvalue::Aggregate(kind, ops) => {
                let ops: Vec<String> = ops.iter().map(|o| self.operand(body, o)).collect();
                let k = match &**kind {
                    AggregateKind::Tuple => "{\"agg\":\"tuple\"}".to_string(),
                    AggregateKind::Array(_) => "{\"agg\":\"array\"}".to_string(),
                    AggregateKind::Adt(did, v, ..) => {
                        let adt = self.tcx.adt_def(*did);
                        let vd = adt.variant(*v);
                        let fields: Vec<String> = vd.fields.iter().map(|f| js(&f.name.to_string())).collect();
                        format!("{{\"agg\":\"adt\",\"adt\":{},\"variant\":{},\"fields\":[{}]}}", js(&self.tcx.def_path_str(*did)), js(&vd.name.to_string()), fields.join(","))
                    }
                    AggregateKind::Closure(did, _) => format!("{{\"agg\":\"closure\",\"def\":{}}}", js(&self.tcx.def_path_str(*did))),
                    AggregateKind::Coroutine(did, _) => format!("{{\"agg\":\"coroutine\",\"def\":{}}}", js(&self.tcx.def_path_str(*did))),
                    AggregateKind::CoroutineClosure(did, _) => format!("{{\"agg\":\"coroutine_closure\",\"def\":{}}}", js(&self.tcx.def_path_str(*did))),
                    _ => "{\"agg\":\"other\"}".to_string(),
                };
                format!("{{\"k\":\"aggregate\",\"kind\":{},\"ops\":[{}]}}", k, ops.join(","))
            }
            other => format!("{{\"k\":\"other\",\"text\":{}}}", js(&format!("{:?}", other))),
        }
    }
    fn variants(&self, ty: Ty<'tcx>) -> String {
        if let TyKind::Adt(adt, _) = ty.kind() {
            if adt.is_enum() {
                let v: Vec<String> = adt.discriminants(self.tcx).map(|(i, d)| format!("[{},{}]", d.val, js(&adt.variant(i).name.to_string()))).collect();
                return format!("[{}]", v.join(","));
            }
        }
        "[]".to_string()
    }
    fn body(&self, def: rustc_hir::def_id::LocalDefId, body: &Body<'tcx>) -> String {
        let tcx = self.tcx;
        let mut out = String::new();
        let _ = write!(out, "{{\"def\":{},\"kind\":{},\"span\":{},\"coroutine\":{},\"arg_count\":{},",
            js(&tcx.def_path_str(def.to_def_id())), js(&format!("{:?}", tcx.def_kind(def))), js(&self.span(body.span)), body.coroutine.is_some(), body.arg_count);
        // parent
        let parent = tcx.opt_local_parent(def).map(|p| tcx.def_path_str(p.to_def_id())).unwrap_or_default();
        let _ = write!(out, "\"parent\":{},", js(&parent));
        // locals
        out.push_str("\"locals\":[");
        for (i, (l, d)) in body.local_decls.iter_enumerated().enumerate() {
            if i > 0 { out.push(','); }
            let _ = write!(out, "{{\"i\":{},\"ty\":{}}}", l.as_usize(), js(&d.ty.to_string()));
        }
        out.push_str("],\"debug\":[");
        let mut first = true;
        for v in &body.var_debug_info {
            if let VarDebugInfoContents::Place(p) = &v.value {
                if !first { out.push(','); }
                first = false;
                let _ = write!(out, "{{\"name\":{},\"place\":{}}}", js(&v.name.to_string()), self.place(body, p));
            }
        }
        out.push_str("],\"blocks\":[");
        for (bi, (bb, data)) in body.basic_blocks.iter_enumerated().enumerate() {
            if bi > 0 { out.push(','); }
            let _ = write!(out, "{{\"i\":{},\"cleanup\":{},\"stmts\":[", bb.as_usize(), data.is_cleanup);
            let mut firsts = true;
            for st in &data.statements {
                if let StatementKind::Assign(b) = &st.kind {
                    if !firsts { out.push(','); }
                    firsts = false;
                    let _ = write!(out, "{{\"k\":\"assign\",\"place\":{},\"rv\":{},\"span\":{}}}", self.place(body, &b.0), self.rvalue(body, &b.1), js(&self.span(st.source_info.span)));
                }
            }
            out.push_str("],\"term\":");
            let t = data.terminator();
            let sp = js(&self.span(t.source_info.span));
            match &t.kind {
                TerminatorKind::Goto { target } => { let _ = write!(out, "{{\"k\":\"goto\",\"t\":{}}}", target.as_usize()); }
                TerminatorKind::SwitchInt { discr, targets } => {
                    let ts: Vec<String> = targets.iter().map(|(v, t)| format!("[{},{}]", v, t.as_usize())).collect();
                    let _ = write!(out, "{{\"k\":\"switch\",\"discr\":{},\"targets\":[{}],\"otherwise\":{},\"span\":{}}}", self.operand(body, discr), ts.join(","), targets.otherwise().as_usize(), sp);
                }
                TerminatorKind::Call { func, args, destination, target, .. } => {
                    let a: Vec<String> = args.iter().map(|a| self.operand(body, &a.node)).collect();
                    let fty = func.ty(body, tcx);
                    let _ = write!(out, "{{\"k\":\"call\",\"func\":{},\"fty\":{},\"args\":[{}],\"dest\":{},\"t\":{},\"span\":{}}}",
                        self.operand(body, func), js(&fty.to_string()), a.join(","), self.place(body, destination), target.map(|t| t.as_usize() as i64).unwrap_or(-1), sp);
                }
                TerminatorKind::Yield { resume, drop, .. } => { let _ = write!(out, "{{\"k\":\"yield\",\"resume\":{},\"drop\":{}}}", resume.as_usize(), drop.map(|t| t.as_usize() as i64).unwrap_or(-1)); }
                TerminatorKind::Drop { target, .. } => { let _ = write!(out, "{{\"k\":\"drop\",\"t\":{}}}", target.as_usize()); }
                TerminatorKind::Assert { target, .. } => { let _ = write!(out, "{{\"k\":\"assert\",\"t\":{}}}", target.as_usize()); }
                TerminatorKind::FalseEdge { real_target, .. } => { let _ = write!(out, "{{\"k\":\"goto\",\"t\":{}}}", real_target.as_usize()); }
                TerminatorKind::FalseUnwind { real_target, .. } => { let _ = write!(out, "{{\"k\":\"goto\",\"t\":{}}}", real_target.as_usize()); }
                TerminatorKind::Return => out.push_str("{\"k\":\"return\"}"),
                TerminatorKind::Unreachable => out.push_str("{\"k\":\"unreachable\"}"),
                other => { let _ = write!(out, "{{\"k\":\"other\",\"text\":{}}}", js(&format!("{:?}", other).chars().take(60).collect::<String>())); }
            }
            out.push('}');
        }
        out.push_str("]}");
        out
    }
}

struct Cb;
impl rustc_driver::Callbacks for Cb {
    fn after_expansion<'tcx>(&mut self, _c: &rustc_interface::interface::Compiler, tcx: TyCtxt<'tcx>) -> Compilation {
        let krate = tcx.crate_name(rustc_hir::def_id::LOCAL_CRATE).to_string();
        let cx = Cx { tcx };
        let mut parts = Vec::new();
        for def in tcx.hir_body_owners() {
            let steal = tcx.mir_built(def);
            if steal.is_stolen() { continue; }
            let body = steal.borrow();
            parts.push(cx.body(def, &body));
        }
        let out = format!("{{\"crate\":{},\"bodies\":[\n{}\n]}}\n", js(&krate), parts.join(",\n"));
        let dir = std::env::var("FACTS_DIR").unwrap();
        std::fs::write(format!("{}/{}.json", dir, krate), out).unwrap();
        Compilation::Continue
    }
}

fn main() {
    let mut args: Vec<String> = std::env::args().collect();
    args.remove(1);
    rustc_driver::run_compiler(&args, &mut Cb);
}
