#!/usr/bin/env python3
"""controls/import_equiv.py <worktree> <NAME> : store the refactorings an agent left in <worktree>/OUT/<k>/ as
controls/equiv_agent_<NAME><k>.patch (+ equiv_meta/agent_<NAME><k>.json).  Each must apply on /repo HEAD."""
import json, os, subprocess, sys
wt, name = sys.argv[1], sys.argv[2]
here = os.path.dirname(os.path.abspath(__file__))
for k in sorted(os.listdir(os.path.join(wt, "OUT"))):
    o = os.path.join(wt, "OUT", k)
    pf, mf = os.path.join(o, "patch.diff"), os.path.join(o, "meta.json")
    if not (os.path.isfile(pf) and os.path.isfile(mf)):
        continue
    r = subprocess.run(["git", "-C", "/repo", "apply", "--check", pf], capture_output=True, text=True)
    if r.returncode:
        print(f"{name}{k}: does not apply: {r.stderr[:200]}")
        continue
    meta = json.load(open(mf))
    what = " ".join(str(meta.get("summary", "")).split())[:300]
    with open(os.path.join(here, f"equiv_agent_{name}{k}.patch"), "w") as f:
        f.write("# expect-silent: ALL\n# control: behaviour-preserving refactoring written by an independent sub-agent (suite 60/60 and 63/63 with all features); every check must stay silent\n")
        f.write(f"# what: {what}\n")
        f.write(open(pf).read())
    json.dump(meta, open(os.path.join(here, "equiv_meta", f"agent_{name}{k}.json"), "w"), indent=1)
    print(f"equiv_agent_{name}{k}")
