#!/usr/bin/env python3
"""Regenerates controls/*.patch from the table below: each entry is one small source edit that must make exactly the
named rule fire while the crate still compiles.  Run: controls/make.py  (uses a scratch worktree of /repo)."""
import os
import subprocess
import sys
import tempfile
import shutil

HERE = os.path.dirname(os.path.abspath(__file__))
B = "src/runner/basic.rs"
SUMM = "src/writer/summarize.rs"

# (name, expect "Cxx/Ry", file, old, new)
T = [
    # ---- C01
    ("c01_drop_hook_errors_from_verdict", "C01/R1", "src/writer/mod.rs",
     "            || self.parsing_errors() > 0\n            || self.hook_errors() > 0", "            || self.parsing_errors() > 0"),
    ("c01_normalize_failed_returns_skipped", "C01/R4", "src/writer/normalize.rs",
     "    fn failed_steps(&self) -> usize {\n        self.writer.failed_steps()", "    fn failed_steps(&self) -> usize {\n        self.writer.skipped_steps()"),
    ("c01_tee_min", "C01/R4", "src/writer/tee.rs",
     "cmp::max(self.left.failed_steps(), self.right.failed_steps())", "cmp::min(self.left.failed_steps(), self.right.failed_steps())"),
    ("c01_exit_tests_failed_steps_only", "C01/R2", "src/cucumber.rs",
     "        if writer.execution_has_failed() {\n            let mut msg", "        if writer.failed_steps() > 0 {\n            let mut msg"),
    ("c01_libtest_verdict_ignores_hooks", "C01/R5", "src/writer/libtest.rs",
     "                    self.failed + self.parsing_errors + self.hook_errors;", "                    self.failed + self.parsing_errors;"),
    ("c01_summarize_left_gt_1", "C01/R3", SUMM,
     "                        r.left > 0 && !matches!(err, event::StepError::NotFound)", "                        r.left > 1 && !matches!(err, event::StepError::NotFound)"),
    ("c01_summarize_failed_on_retry_edge", "C01/R3", SUMM,
     "                    self.steps.retried += 1;\n", "                    self.steps.failed += 1;\n"),
    ("c01_or_failed_only_left", "C01/R4", "src/writer/or.rs",
     "        self.left.failed_steps() + self.right.failed_steps()", "        self.left.failed_steps()"),
    # ---- C04
    ("c04_skip_first_scenario", "C04/R1", B,
     "        let local = feature\n            .scenarios\n            .iter()\n            .map(|s| (None, s))", "        let local = feature\n            .scenarios\n            .iter()\n            .skip(1)\n            .map(|s| (None, s))"),
    ("c04_undo_idle_yield", "C04/R5", B,
     "            } else {\n                // Nothing to run, nothing to wait for, but the `Parser` hasn't\n                // finished yet: yield, so it can be polled to make progress.\n                yield_now().await;\n            }", "            }"),
    ("c04_yieldnow_ready_at_once", "C04/R6", "src/future.rs",
     "        if self.0 {\n            task::Poll::Ready(())", "        if !self.0 {\n            task::Poll::Ready(())"),
    ("c04_yieldnow_lost_wake", "C04/R6", "src/future.rs",
     "            cx.waker().wake_by_ref();\n", "            let _ = cx;\n"),
    ("c04_ytr_ignores_yield", "C04/R6", "src/future.rs",
     "        task::ready!(this.r#yield.poll_unpin(cx));", "        let _ = this.r#yield.poll_unpin(cx);"),
    ("c04_yieldnow_pending_forever", "C04/R6", "src/future.rs",
     "        if self.0 {\n            task::Poll::Ready(())\n        } else {", "        if self.0 && cx.waker().will_wake(cx.waker()) {\n            task::Poll::Pending\n        } else if self.0 {\n            task::Poll::Ready(())\n        } else {"),
    ("c04_is_finished_ignores_queues", "C04/R2", B,
     "                || self.scenarios.lock().await.values().all(Vec::is_empty))", "                || self.scenarios.lock().await.is_empty())"),
    ("c04_enqueue_drops_rules", "C04/R1", B,
     "            .chain(feature.rules.iter().flat_map(|r| {", "            .chain(feature.rules.iter().take(1).flat_map(|r| {"),
    # ---- C05
    ("c05_retry_without_failure", "C05/R1", B,
     "            retries.filter(|_| is_failed).and_then(RetryOptions::next_try);", "            retries.and_then(RetryOptions::next_try);"),
    ("c05_retried_without_deadline", "C05/R4", B,
     "                        let ret = ret.with_deadline(now);", "                        let ret = ret.without_deadline();"),
    ("c05_ignore_after_hook_error", "C05/R2", B,
     "            let is_failed = scenario_failed || after_hook_error.is_some();", "            let is_failed = scenario_failed;\n            let _ = &after_hook_error;"),
    ("c05_skipped_counts_failed", "C05/R2", B,
     "                Ok(_) | Err(ExecutionFailure::StepSkipped(_)) => false,\n                Err(\n                    ExecutionFailure::BeforeHookPanicked { .. }\n                    | ExecutionFailure::StepPanicked { .. },\n                ) => true,",
     "                Ok(_) => false,\n                Err(\n                    ExecutionFailure::BeforeHookPanicked { .. }\n                    | ExecutionFailure::StepPanicked { .. }\n                    | ExecutionFailure::StepSkipped(_),\n                ) => true,"),
    ("c05_next_try_keeps_left", "C05/R3", "src/event.rs",
     "            .map(|left| Self { left, current: self.current + 1 })", "            .map(|_| Self { left: self.left, current: self.current + 1 })"),
    ("c05_ready_when_time_left", "C05/R4", B,
     "                                |left| {\n                                    min_dur = min_dur\n                                        .map(|min| cmp::min(min, left))\n                                        .or(Some(left));\n                                    false\n                                },",
     "                                |left| {\n                                    min_dur = min_dur\n                                        .map(|min| cmp::min(min, left))\n                                        .or(Some(left));\n                                    true\n                                },"),
    # ---- C06
    ("c06_builder_over_cli", "C06/R1", B,
     "        let concurrency = cli.concurrency.or(max_concurrent_scenarios);", "        let concurrency = max_concurrent_scenarios.or(cli.concurrency);"),
    ("c06_no_acquire", "C06/R2", B,
     "            if let ControlFlow::Continue(Some(sc)) = &mut started_scenarios {\n                *sc -= runnable.len();\n            }\n", ""),
    ("c06_drain_guard_gt", "C06/R3", B,
     "                        if count.filter(|c| i >= *c).is_some() {", "                        if count.filter(|c| i > *c).is_some() {"),
    ("c06_release_two", "C06/R2", B,
     "                    *sc += 1;", "                    *sc += 2;"),
    # ---- C07
    ("c07_serial_drain_unbounded", "C07/R2", B,
     "                drain(storage, Serial, Some(usize::from(nothing_in_flight)))", "                drain(storage, Serial, max_concurrent_scenarios.filter(|_| nothing_in_flight))"),
    ("c07_classifier_ignores_rule_tags", "C07/R1", B,
     "                .chain(rule.iter().flat_map(|r| &r.tags))\n                .chain(&feature.tags)\n                .find(|tag| *tag == \"serial\")", "                .chain(&feature.tags)\n                .find(|tag| *tag == \"serial\")"),
    ("c07_undo_in_flight_guard", "C07/R3", B,
     "                drain(storage, Serial, Some(usize::from(nothing_in_flight)))", "                drain(storage, Serial, Some(1))"),
    ("c07_concurrent_before_serial", "C07/R2", B,
     "            .get_mut(&Serial)\n            .and_then(|storage| {\n                drain(storage, Serial, Some(usize::from(nothing_in_flight)))\n            })\n            .or_else(|| {\n                guard.get_mut(&Concurrent).and_then(|storage| {\n                    drain(storage, Concurrent, max_concurrent_scenarios)\n                })\n            })",
     "            .get_mut(&Concurrent)\n            .and_then(|storage| {\n                drain(storage, Concurrent, max_concurrent_scenarios)\n            })\n            .or_else(|| {\n                guard.get_mut(&Serial).and_then(|storage| {\n                    drain(storage, Serial, Some(usize::from(nothing_in_flight)))\n                })\n            })"),
    # ---- C08
    ("c08_trip_on_retried", "C08/R1", B,
     "            if fail_fast && scenario_failed && !retried {", "            if fail_fast && scenario_failed {\n                let _ = retried;"),
    ("c08_swap_failed_retried", "C08/R1", B,
     "            is_failed,\n            next_try.is_some(),\n        );", "            next_try.is_some(),\n            is_failed,\n        );"),
    ("c08_ingest_continues_after_error", "C08/R5", B,
     "                if sender.unbounded_send(Err(e)).is_err() || fail_fast {", "                if sender.unbounded_send(Err(e)).is_err() {"),
    ("c08_builder_flag_ignored", "C08/R2", B,
     "        let fail_fast = cli.fail_fast || fail_fast;", "        let fail_fast = cli.fail_fast && fail_fast;"),
    ("c08_finished_before_leftovers", "C08/R4", B,
     "    executor.send_all_events(storage.finish_all_rules_and_features());\n\n    executor.send_event(event::Cucumber::Finished);", "    executor.send_event(event::Cucumber::Finished);\n\n    executor.send_all_events(storage.finish_all_rules_and_features());"),
    # ---- C03
    ("c03_retried_counts_for_feature", "C03/R3", B,
     "        is_retried: bool,\n    ) -> Option<event::Cucumber<W>> {\n        if is_retried {\n            return None;\n        }\n\n        let finished_scenarios = self\n            .features_scenarios_count",
     "        is_retried: bool,\n    ) -> Option<event::Cucumber<W>> {\n        let _ = is_retried;\n\n        let finished_scenarios = self\n            .features_scenarios_count"),
    ("c03_parsing_finished_swapped_fields", "C03/R4", B,
     "                rules += f.rules.len();\n                scenarios += f.count_scenarios();", "                scenarios += f.rules.len();\n                rules += f.count_scenarios();"),
    ("c03_parsing_finished_in_loop", "C03/R4", B,
     "            Err(e) => {\n                parser_errors += 1;\n", "            Err(e) => {\n                parser_errors += 1;\n                drop(sender.unbounded_send(Ok(Event::new(\n                    event::Cucumber::ParsingFinished {\n                        features,\n                        rules,\n                        scenarios,\n                        steps,\n                        parser_errors,\n                    },\n                ))));\n"),
    ("c03_feature_closed_before_rule", "C03/R3", B,
     "            if let Some(rule) = rule {\n                if let Some(f) =\n                    storage.rule_scenario_finished(feat.clone(), rule, retried)\n                {\n                    executor.send_event(f);\n                }\n            }\n            if let Some(f) = storage.feature_scenario_finished(feat, retried) {\n                executor.send_event(f);\n            }",
     "            if let Some(f) =\n                storage.feature_scenario_finished(feat.clone(), retried)\n            {\n                executor.send_event(f);\n            }\n            if let Some(rule) = rule {\n                if let Some(f) =\n                    storage.rule_scenario_finished(feat, rule, retried)\n                {\n                    executor.send_event(f);\n                }\n            }"),
    ("c03_feature_started_every_batch", "C03/R3", B,
     "        for feature in runnable.iter().map(|(_, f, ..)| f.clone()).dedup() {\n            _ = self\n                .features_scenarios_count\n                .entry(feature.clone())\n                .or_insert_with(|| {\n                    started_features.push(feature);\n                    0\n                });\n        }",
     "        for feature in runnable.iter().map(|(_, f, ..)| f.clone()).dedup() {\n            _ = self\n                .features_scenarios_count\n                .entry(feature.clone())\n                .or_insert(0);\n            started_features.push(feature);\n        }"),
    ("c03_finish_flag_before_summary", "C03/R4", B,
     "    drop(sender.unbounded_send(Ok(Event::new(\n        event::Cucumber::ParsingFinished {\n            features,\n            rules,\n            scenarios,\n            steps,\n            parser_errors,\n        },\n    ))));\n\n    into.finish();",
     "    into.finish();\n\n    drop(sender.unbounded_send(Ok(Event::new(\n        event::Cucumber::ParsingFinished {\n            features,\n            rules,\n            scenarios,\n            steps,\n            parser_errors,\n        },\n    ))));"),
    # ---- C09
    ("c09_skipped_reported_as_passed_to_after_hook", "C09/R4", B,
     "            Self::StepSkipped(_) => StepSkipped,", "            Self::StepSkipped(_) => event::ScenarioFinished::StepPassed,"),
    ("c09_fresh_world_for_every_step", "C09/R2", B,
     "            let mut world = if let Some(w) = world_opt {\n                w\n            } else {", "            drop(world_opt);\n            let mut world = {"),
    ("c09_world_kept_in_executor", "C09/R1", B,
     "    /// [`Scenario`]s storage.\n    ///\n    /// [`Scenario`]: gherkin::Scenario\n    storage: Features,\n}", "    /// [`Scenario`]s storage.\n    ///\n    /// [`Scenario`]: gherkin::Scenario\n    storage: Features,\n\n    /// Last used `World`.\n    #[allow(dead_code)]\n    last_world: Option<W>,\n}\n//+\n            storage,\n        }\n    }\n//=\n            storage,\n            last_world: None,\n        }\n    }"),
    ("c09_take_world_loses_skipped_world", "C09/R3", B,
     "            Self::BeforeHookPanicked { world, .. }\n            | Self::StepSkipped(world)\n            | Self::StepPanicked { world, .. } => world.take(),",
     "            Self::BeforeHookPanicked { world, .. }\n            | Self::StepPanicked { world, .. } => world.take(),\n            Self::StepSkipped(_) => None,"),
    ("c09_after_hook_without_world", "C09/R5", B,
     "                    &ev,\n                    world.as_mut(),", "                    &ev,\n                    None,"),
    # ---- C13
    ("c13_feature_bg_skipped_uses_step_mapper", "C13/R1", "src/writer/fail_on_skipped.rs",
     "                ) => map_failed_bg(f, None, sc, st, retries),", "                ) => map_failed_step(f, None, sc, st, retries),"),
    ("c13_rule_level_loses_rule", "C13/R1", "src/writer/fail_on_skipped.rs",
     "                ) => map_failed_step(f, Some(r), sc, st, retries),", "                ) => {\n                    drop(r);\n                    map_failed_step(f, None, sc, st, retries)\n                }"),
    ("c13_default_predicate_ignores_feature_tags", "C13/R1", "src/writer/fail_on_skipped.rs",
     "                    .chain(rule.iter().flat_map(|r| &r.tags))\n                    .chain(&feat.tags)\n                    .any(|t| t == \"allow.skipped\")", "                    .chain(rule.iter().flat_map(|r| &r.tags))\n                    .any(|t| t == \"allow.skipped\")"),
    ("c13_repeat_failed_without_parser_errors", "C13/R2", "src/writer/repeat.rs",
     "                    )) | Err(_),\n                )", "                    )),\n                )"),
    ("c13_repeat_replays_reversed", "C13/R2", "src/writer/repeat.rs",
     "            for ev in mem::take(&mut self.events) {", "            for ev in mem::take(&mut self.events).into_iter().rev() {"),
    ("c13_repeat_buffers_everything_after_failure", "C13/R2", "src/writer/repeat.rs",
     "        if (self.filter)(&event) {\n            self.events.push(event.clone());\n        }", "        if (self.filter)(&event) || !self.events.is_empty() {\n            self.events.push(event.clone());\n        }"),
    ("c13_or_sends_to_both", "C13/R3", "src/writer/or.rs",
     "        if (self.predicate)(&event, cli) {\n            self.left.handle_event(event, &cli.left).await;\n        } else {", "        if (self.predicate)(&event, cli) {\n            self.left.handle_event(event.clone(), &cli.left).await;\n        }\n        {"),
    ("c13_tee_write_left_only", "C13/R3", "src/writer/tee.rs",
     "        future::join(self.left.write(val.clone()), self.right.write(val)).await;", "        self.left.write(val.clone()).await;\n        drop(val);"),
    ("c13_fail_on_skipped_declared_non_transforming", "C13/R4", "src/writer/fail_on_skipped.rs",
     "#[warn(clippy::missing_trait_methods)]\nimpl<Wr: writer::Normalized, F> writer::Normalized for FailOnSkipped<Wr, F> {}",
     "#[warn(clippy::missing_trait_methods)]\nimpl<Wr: writer::Normalized, F> writer::Normalized for FailOnSkipped<Wr, F> {}\n\nimpl<Wr: writer::NonTransforming, F> writer::NonTransforming\n    for FailOnSkipped<Wr, F>\n{\n}"),
    ("c13_tee_non_transforming_unconditionally", "C13/R4", "src/writer/tee.rs",
     "impl<L, R> writer::NonTransforming for Tee<L, R>\nwhere\n    L: writer::NonTransforming,\n    R: writer::NonTransforming,\n{\n}", "impl<L, R> writer::NonTransforming for Tee<L, R>\nwhere\n    L: writer::NonTransforming,\n{\n}"),
    # ---- C15
    ("c15_tags_over_scenario_tags_only", "C15/R1", "src/cucumber.rs",
     "                                feat.tags\n                                    .iter()\n                                    .chain(rule.iter().flat_map(|r| &r.tags))\n                                    .chain(scenario.tags.iter()),", "                                scenario.tags.iter(),"),
    ("c15_and_uses_or", "C15/R2", "src/tag.rs",
     "            Self::And(l, r) => l.eval(tags.clone()) & r.eval(tags),", "            Self::And(l, r) => l.eval(tags.clone()) | r.eval(tags),"),
    ("c15_filtered_scenarios_reversed", "C15/R3", "src/cucumber.rs",
     "            feature.scenarios = feat_scenarios\n                .into_iter()\n                .filter(|s| filter(&feature, None, s))\n                .collect();", "            feature.scenarios = feat_scenarios\n                .into_iter()\n                .rev()\n                .filter(|s| filter(&feature, None, s))\n                .collect();"),
    ("c15_name_filter_after_tags", "C15/R1", "src/cucumber.rs",
     "            re_filter.as_ref().map_or_else(\n                || {\n                    tags_filter.as_ref().map_or_else(\n                        || filter(feat, rule, scenario),",
     "            re_filter.as_ref().filter(|_| tags_filter.is_none()).map_or_else(\n                || {\n                    tags_filter.as_ref().map_or_else(\n                        || filter(feat, rule, scenario),"),
    ("c15_rule_scenarios_filtered_without_rule", "C15/R3", "src/cucumber.rs",
     "                    .filter(|s| filter(&feature, Some(r), s))", "                    .filter(|s| {\n                        let _ = &r;\n                        filter(&feature, None, s)\n                    })"),
    ("c15_name_regex_on_feature_name", "C15/R1", "src/cucumber.rs",
     "                |re| re.is_match(&scenario.name),", "                |re| re.is_match(&feat.name),"),
    ("c15_not_ignored", "C15/R2", "src/tag.rs",
     "            Self::Not(t) => !t.eval(tags),", "            Self::Not(t) => t.eval(tags),"),
    # ---- C17
    ("c17_when_looks_in_then", "C17/R1", "src/step.rs",
     "            StepType::When => &self.when,", "            StepType::When => &self.then,"),
    ("c17_unsorted_candidates", "C17/R3", "src/step.rs",
     "                            .map(|(re, loc, ..)| (re.clone(), *loc))\n                            .sorted()\n                            .collect(),", "                            .map(|(re, loc, ..)| (re.clone(), *loc))\n                            .collect(),"),
    ("c17_groups_from_zero", "C17/R4", "src/step.rs",
     "                (1..captures.len()).map(|group_id| {", "                (0..captures.len()).map(|group_id| {"),
    ("c17_first_match_wins", "C17/R2", "src/step.rs",
     "                0 => return Ok(None),\n                // Instead of `.unwrap()` to avoid documenting `# Panics`.\n                1 => captures.pop().unwrap_or_else(|| unreachable!()),\n                _ => {",
     "                0 => return Ok(None),\n                // Instead of `.unwrap()` to avoid documenting `# Panics`.\n                1 | 2 => captures.pop().unwrap_or_else(|| unreachable!()),\n                _ => {"),
    ("c17_then_builder_inserts_into_when", "C17/R1", "src/step.rs",
     "        _ = self.then.insert((regex.into(), loc), step);", "        _ = self.when.insert((regex.into(), loc), step);"),
    ("c17_ord_ignores_pattern", "C17/R3", "src/step.rs",
     "        self.0.as_str().cmp(other.0.as_str())", "        self.0.as_str().len().cmp(&other.0.as_str().len())"),
    # ---- C18
    ("c18_feature_tag_before_scenario_tag", "C18/R1", B,
     "            parse_tags(&scenario.tags)\n                .or_else(|| rule.and_then(|r| parse_tags(&r.tags)))\n                .or_else(|| parse_tags(&feature.tags)),",
     "            parse_tags(&feature.tags)\n                .or_else(|| rule.and_then(|r| parse_tags(&r.tags)))\n                .or_else(|| parse_tags(&scenario.tags)),"),
    ("c18_builder_retries_over_cli", "C18/R3", B,
     "        cli.retry = cli.retry.or(retries);", "        cli.retry = retries.or(cli.retry);"),
    ("c18_cli_count_over_tag", "C18/R2", B,
     "                    options.and_then(|(r, _)| r).or(cli.retry).unwrap_or(1),", "                    cli.retry.or(options.and_then(|(r, _)| r)).unwrap_or(1),"),
    ("c18_default_zero_retries", "C18/R2", B,
     "                    options.and_then(|(r, _)| r).or(cli.retry).unwrap_or(1),", "                    options.and_then(|(r, _)| r).or(cli.retry).unwrap_or(0),"),
    ("c18_filter_ignores_feature_tags", "C18/R4", B,
     "                    op.eval(scenario.tags.iter().chain(\n                        rule.iter().flat_map(|r| &r.tags).chain(&feature.tags),\n                    ))", "                    op.eval(\n                        scenario\n                            .tags\n                            .iter()\n                            .chain(rule.iter().flat_map(|r| &r.tags)),\n                    )"),
    ("c18_untagged_always_retried_with_after", "C18/R4", B,
     "                || cli.retry.is_some() || cli.retry_after.is_some(),", "                || cli.retry.is_some(),"),
    ("c18_retry_filter_builder_over_cli", "C18/R3", B,
     "        cli.retry_tag_filter = cli.retry_tag_filter.or(retry_filter);", "        cli.retry_tag_filter = retry_filter.or(cli.retry_tag_filter);"),
    ("c18_delay_swapped_with_count_component", "C18/R2", B,
     "                after: options.and_then(|(_, a)| a).or(cli.retry_after),", "                after: cli.retry_after.or(options.and_then(|(_, a)| a)),"),
    # ---- C16
    ("c16_docstrings_not_substituted", "C16/R1", "src/feature.rs",
     "                for value in iter::once(&mut s.value)\n                    .chain(s.docstring.iter_mut())\n                    .chain(s.table.iter_mut().flat_map(|t| {", "                for value in iter::once(&mut s.value)\n                    .chain(s.table.iter_mut().flat_map(|t| {"),
    ("c16_name_not_substituted", "C16/R1", "src/feature.rs",
     "            expanded.name =\n                replace_templates(&expanded.name, expanded.position)?;\n", "            drop(replace_templates(&expanded.name, expanded.position)?);\n"),
    ("c16_table_tags_replace_outline_tags", "C16/R4", "src/feature.rs",
     "            expanded.tags.extend(tags.cloned());", "            expanded.tags = tags.cloned().collect();"),
    ("c16_rows_reversed", "C16/R4", "src/feature.rs",
     "            vals.iter()\n                .map(|v| header.iter().zip(v))", "            vals.iter()\n                .rev()\n                .map(|v| header.iter().zip(v))"),
    ("c16_unknown_placeholder_ignored", "C16/R3", "src/feature.rs",
     "                err.map_or_else(|| Ok(replaced), Err)", "                drop(err);\n                Ok(replaced)"),
    ("c16_position_without_row_offset", "C16/R4", "src/feature.rs",
     "            expanded.position.line += id + 2;", "            expanded.position.line += 2;\n            let _ = id;"),
    # ---- C19
    ("c19_literal_regex_unanchored_end", "C19/R2", "codegen/src/attribute.rs",
     "                    &format!(\"^{}$\", regex::escape(&l.value())),", "                    &format!(\"^{}\", regex::escape(&l.value())),"),
    ("c19_literal_not_escaped", "C19/R2", "codegen/src/attribute.rs",
     "                    &format!(\"^{}$\", regex::escape(&l.value())),", "                    &format!(\"^{}$\", l.value()),"),
    ("c19_collection_when_into_given", "C19/R1", "src/lib.rs",
     "            out = out.when(Some(loc), regex(), fun);", "            out = out.given(Some(loc), regex(), fun);"),
    ("c19_typed_args_include_whole_match", "C19/R2", "codegen/src/attribute.rs",
     "                    let mut __cucumber_iter = __cucumber_ctx\n                        .matches.iter()\n                        .skip(1);", "                    let mut __cucumber_iter = __cucumber_ctx\n                        .matches.iter()\n                        .skip(0);"),
    ("c19_result_errors_ignored", "C19/R2", "codegen/src/attribute.rs",
     "        let unwrapping = (!self.returns_unit())\n            .then(|| quote! { .unwrap_or_else(|e| panic!(\"{}\", e)) });", "        let unwrapping = (!self.returns_unit())\n            .then(|| quote! { .unwrap_or_default() });"),
    ("c19_then_registered_as_when", "C19/R2", "codegen/src/attribute.rs",
     "        format_ident!(\"{}\", to_pascal_case(self.attr_name))", "        format_ident!(\n            \"{}\",\n            to_pascal_case(if self.attr_name == \"then\" {\n                \"when\"\n            } else {\n                self.attr_name\n            })\n        )"),
    # ---- behaviour-preserving refactorings: the checks must stay SILENT on these (expect = "silent:<PIDs>")
    ("equiv_c15_filter_as_if_let", "silent:C15", "src/cucumber.rs",
     "            re_filter.as_ref().map_or_else(\n                || {\n                    tags_filter.as_ref().map_or_else(\n                        || filter(feat, rule, scenario),\n                        |tags| {\n                            // The order `Feature` -> `Rule` -> `Scenario`\n                            // matters here.\n                            tags.eval(\n                                feat.tags\n                                    .iter()\n                                    .chain(rule.iter().flat_map(|r| &r.tags))\n                                    .chain(scenario.tags.iter()),\n                            )\n                        },\n                    )\n                },\n                |re| re.is_match(&scenario.name),\n            )",
     "            if let Some(re) = re_filter.as_ref() {\n                re.is_match(&scenario.name)\n            } else if let Some(tags) = tags_filter.as_ref() {\n                tags.eval(\n                    feat.tags\n                        .iter()\n                        .chain(rule.iter().flat_map(|r| &r.tags))\n                        .chain(scenario.tags.iter()),\n                )\n            } else {\n                filter(feat, rule, scenario)\n            }"),
    ("equiv_c01_verdict_with_matches", "silent:C01,C12", SUMM,
     "                if retries\n                    .filter(|r| {\n                        r.left > 0 && !matches!(err, event::StepError::NotFound)\n                    })\n                    .is_some()\n                {",
     "                if retries.is_some_and(|r| {\n                    r.left > 0 && !matches!(err, event::StepError::NotFound)\n                }) {"),
    ("equiv_c04_idle_yield_first", "silent:C04,C07,C06,C08", B,
     "            if features.is_finished(started_scenarios.is_break()).await {\n                break;\n            }\n", "            let done =\n                features.is_finished(started_scenarios.is_break()).await;\n            if done {\n                break;\n            }\n"),
    ("equiv_c02_rename_helper", "silent:C02,C05,C09,C10", B,
     "    fn emit_failed_events(", "    fn emit_deferred_failure(\n//+\n                self.emit_failed_events(\n//=\n                self.emit_deferred_failure("),
    # ---- C20
    ("c20_step_result_before_span_closed", "C20/R2", B,
     "        let result = run.then_yield().await;\n\n        #[cfg(feature = \"tracing\")]\n        if let Some((waiter, id)) = waiter.zip(span_id) {",
     "        let result = run.then_yield().await;\n\n        #[cfg(feature = \"tracing\")]\n        if let Some((waiter, id)) = waiter.zip(span_id).filter(|_| is_background) {"),
    ("c20_step_waits_for_other_span", "C20/R2", B,
     "            let span = scenario_id.step_span(is_background);\n            let span_id = span.id();",
     "            let span = scenario_id.step_span(is_background);\n            let span_id = scenario_id.scenario_span().id();"),
    ("c20_after_hook_wait_not_awaited", "C20/R2", B,
     "                waiter.wait_for_span_close(id).then_yield().await;\n            }\n\n            let finished = event::Metadata::new(());",
     "                drop(waiter.wait_for_span_close(id));\n            }\n\n            let finished = event::Metadata::new(());"),
    ("c20_step_polled_uninstrumented", "C20/R1", B,
     "            let run = tracing::Instrument::instrument(run, span);\n            (run, span_id)",
     "            let run = tracing::Instrument::instrument(async {}, span).then(|()| run);\n            (run, span_id)"),
    ("c20_attempt_span_for_fresh_id", "C20/R1", B,
     "            let span = id.scenario_span();", "            let span = ScenarioId::new().scenario_span();"),
    ("c20_finish_wrong_scenario", "C20/R3", B,
     "                    coll.finish_scenario(id);", "                    coll.finish_scenario(ScenarioId::new());\n                    let _ = id;"),
    ("c20_forwarder_yields_between_logs", "C20/R3", B,
     "                        while let Some(logs) = logs_collector\n                            .as_mut()\n                            .and_then(TracingCollector::emitted_logs)\n                        {\n                            executor.send_all_events(logs);\n                        }\n                        future::ready(()).then_yield().await;",
     "                        if let Some(logs) = logs_collector\n                            .as_mut()\n                            .and_then(TracingCollector::emitted_logs)\n                        {\n                            executor.send_all_events(logs);\n                        }\n                        future::ready(()).then_yield().await;"),
    ("c20_after_hook_not_instrumented", "C20/R1", B,
     "                let span = scenario_id.hook_span(HookType::After);\n                let span_id = span.id();\n                let fut = tracing::Instrument::instrument(fut, span);\n                (fut, span_id)",
     "                let span = scenario_id.hook_span(HookType::After);\n                let span_id = span.id();\n                drop(span);\n                (fut, span_id)"),
    # ---- C10
    ("c10_world_new_outside_catch", "C10/R1", B,
     "                match AssertUnwindSafe(async { W::new().await })\n                    .catch_unwind()\n                    .then_yield()\n                    .await\n                {\n                    Ok(Ok(w)) => w,",
     "                match Ok::<_, Box<dyn Any + Send>>(W::new().then_yield().await) {\n                    Ok(Ok(w)) => w,"),
    ("c10_early_return_before_restore", "C10/R3", B,
     "    executor.send_event(event::Cucumber::Finished);\n\n    panic::set_hook(hook);", "    executor.send_event(event::Cucumber::Finished);\n\n    if fail_fast {\n        return;\n    }\n    panic::set_hook(hook);"),
    # ---- C12
    ("c12_skipped_counted_in_passed_arm", "C12/R1", SUMM,
     "                self.steps.passed += 1;", "                self.steps.passed += 1;\n                self.steps.skipped += 1;"),
    ("c12_summary_before_forward", "C12/R2", SUMM,
     "        self.writer.handle_event(event, cli).await;\n\n        if matches!(self.state, State::FinishedButNotOutput) {\n            self.state = State::FinishedAndOutput;\n\n            let mut styles = Styles::new();\n            styles.apply_coloring(cli.coloring());\n            self.writer.write(styles.summary(self)).await;\n        }",
     "        if matches!(self.state, State::FinishedButNotOutput) {\n            self.state = State::FinishedAndOutput;\n\n            let mut styles = Styles::new();\n            styles.apply_coloring(cli.coloring());\n            self.writer.write(styles.summary(self)).await;\n        }\n\n        self.writer.handle_event(event, cli).await;"),
    ("c12_count_after_finished", "C12/R2", SUMM,
     "        if matches!(self.state, State::InProgress) {\n            match event.as_deref() {", "        if !matches!(self.state, State::FinishedAndOutput) {\n            match event.as_deref() {"),
    ("c12_retried_counted_each_time", "C12/R4", SUMM,
     "                    if inserted_before.is_none() {\n                        self.scenarios.retried += 1;\n                    }", "                    let _ = inserted_before;\n                    self.scenarios.retried += 1;"),
    ("c12_rules_not_counted", "C12/R1", SUMM,
     "                    Feature::Rule(_, Rule::Started) => {\n                        self.rules += 1;\n                    }", "                    Feature::Rule(_, Rule::Started) => {}"),
    # ---- C14
    ("c14_name_fn_bumps_counter", "C14/R1", "src/writer/libtest.rs",
     "    fn test_case_name(\n        &self,\n        feature: &gherkin::Feature,\n        rule: Option<&gherkin::Rule>,\n        scenario: &gherkin::Scenario,\n        step: Either<event::HookType, (&gherkin::Step, IsBackground)>,\n        retries: Option<Retries>,\n    ) -> String {",
     "    fn test_case_name(\n        &mut self,\n        feature: &gherkin::Feature,\n        rule: Option<&gherkin::Rule>,\n        scenario: &gherkin::Scenario,\n        step: Either<event::HookType, (&gherkin::Step, IsBackground)>,\n        retries: Option<Retries>,\n    ) -> String {\n        if feature.path.is_none() && retries.is_none() {\n            self.features_without_path += 1;\n        }"),
    ("c14_ignored_counts_passed", "C14/R3", "src/writer/libtest.rs",
     "                self.ignored += 1;", "                self.passed += 1;"),
    ("c14_json_not_found_as_skipped", "C14/R7", "src/writer/json.rs",
     "                    event::StepError::NotFound => Status::Undefined,", "                    event::StepError::NotFound => Status::Skipped,"),
    ("c14_json_after_hook_in_before", "C14/R7", "src/writer/json.rs",
     "            HookType::After => el.after.push(res),", "            HookType::After => el.before.push(res),"),
    ("c14_json_background_step_in_scenario_element", "C14/R7", "src/writer/json.rs",
     "                    \"background\",\n                    &st,", "                    \"scenario\",\n                    &st,"),
    ("c14_json_failed_hook_without_message", "C14/R7", "src/writer/json.rs",
     "                    error_message: Some(coerce_error(&info).into_owned()),", "                    error_message: { let _ = &info; None },"),
    ("c14_json_step_name_from_keyword", "C14/R7", "src/writer/json.rs",
     "            name: step.value.clone(),", "            name: step.keyword.clone(),"),
    ("c14_json_rule_scenario_looked_up_without_rule", "C14/R7", "src/writer/json.rs",
     "        let el = self.mut_or_insert_element(feature, rule, scenario, ty);\n        el.steps.push(step);", "        let el = self.mut_or_insert_element(feature, None, scenario, ty);\n        let _ = rule;\n        el.steps.push(step);"),
    ("c14_junit_logs_not_buffered", "C14/R8", "src/writer/junit.rs",
     "            Scenario::Log(_)\n            | Scenario::Hook(..)\n            | Scenario::Background(..)\n            | Scenario::Step(..) => {\n                self.events.push(ev);\n            }",
     "            Scenario::Log(_) => {}\n            Scenario::Hook(..)\n            | Scenario::Background(..)\n            | Scenario::Step(..) => {\n                self.events.push(ev);\n            }"),
    ("c14_junit_events_not_taken", "C14/R8", "src/writer/junit.rs",
     "                let events = mem::take(&mut self.events);", "                let events = self.events.clone();"),
    ("c14_junit_rule_scenario_without_rule", "C14/R8", "src/writer/junit.rs",
     "                let case = self.test_case(feat, rule, sc, &events, dur);", "                let case = self.test_case(feat, None, sc, &events, dur);\n                let _ = rule;"),
    ("c14_junit_suite_not_added_to_report", "C14/R8", "src/writer/junit.rs",
     "                    self.report.add_testsuite(suite);", "                    let _ = suite;"),
    ("c14_terminal_skipped_in_ok_style", "C14/R9", "src/writer/basic.rs",
     "        self.clear_last_lines_if_term_present()?;\n        self.output.write_line(self.styles.skipped(format!(\n            \"{indent}?  {}{}{}{}\\n\\\n             {indent}   Step skipped: {}:{}:{}\",\n            step.keyword,\n            step.value,\n            step.docstring\n                .as_ref()\n                .and_then(|doc| self.verbosity.shows_docstring().then(|| {\n                    format_str_with_indent(\n                        doc,\n                        self.indent.saturating_sub(3) + 3,",
     "        self.clear_last_lines_if_term_present()?;\n        self.output.write_line(self.styles.ok(format!(\n            \"{indent}?  {}{}{}{}\\n\\\n             {indent}   Step skipped: {}:{}:{}\",\n            step.keyword,\n            step.value,\n            step.docstring\n                .as_ref()\n                .and_then(|doc| self.verbosity.shows_docstring().then(|| {\n                    format_str_with_indent(\n                        doc,\n                        self.indent.saturating_sub(3) + 3,"),
    ("c14_terminal_bg_skipped_prints_pending_line", "C14/R9", "src/writer/basic.rs",
     "                self.bg_step_skipped(feat, bg)?;", "                let _ = feat;\n                self.bg_step_started(bg)?;"),
    ("c14_terminal_hook_passed_prints_failure", "C14/R9", "src/writer/basic.rs",
     "            Scenario::Hook(_, Hook::Passed) => {\n                self.indent = self.indent.saturating_sub(4);",
     "            Scenario::Hook(_, Hook::Passed) => {\n                self.emit_log(\"hook passed\")?;\n                self.indent = self.indent.saturating_sub(4);"),
    ("c14_json_undo_pathless_feature_fix", "C14/R10", "src/writer/json.rs",
     "        self.uri.as_deref()\n            == other.path.as_ref().and_then(|p| p.to_str().map(trim_path))\n            && self.name == other.name",
     "        self.uri\n            .as_ref()\n            .and_then(|uri| {\n                other\n                    .path\n                    .as_ref()\n                    .and_then(|p| p.to_str().map(trim_path))\n                    .map(|path| uri == path)\n            })\n            .unwrap_or_default()\n            && self.name == other.name"),
    ("c14_json_feature_found_by_name_only_if_uri", "C14/R10", "src/writer/json.rs",
     "        self.uri.as_deref()\n            == other.path.as_ref().and_then(|p| p.to_str().map(trim_path))\n            && self.name == other.name",
     "        self.uri.is_some()\n            && self.uri.as_deref()\n                == other.path.as_ref().and_then(|p| p.to_str().map(trim_path))\n            && self.name == other.name"),
    # ---- C02
    ("c02_after_events_before_failed", "C02/R5", B,
     "            if let Some(exec_error) = result.err() {\n                self.emit_failed_events(\n                    feature.clone(),\n                    rule.clone(),\n                    scenario.clone(),\n                    world.clone(),\n                    exec_error,\n                    retry_num,\n                );\n            }\n\n            self.emit_after_hook_events(\n                feature.clone(),\n                rule.clone(),\n                scenario.clone(),\n                world,\n                after_hook_meta,\n                after_hook_error,\n                retry_num,\n            );",
     "            self.emit_after_hook_events(\n                feature.clone(),\n                rule.clone(),\n                scenario.clone(),\n                world.clone(),\n                after_hook_meta,\n                after_hook_error,\n                retry_num,\n            );\n\n            if let Some(exec_error) = result.err() {\n                self.emit_failed_events(\n                    feature.clone(),\n                    rule.clone(),\n                    scenario.clone(),\n                    world,\n                    exec_error,\n                    retry_num,\n                );\n            }"),
    ("c02_skipped_returns_ok", "C02/R2", B,
     "                self.send_event(skipped(step));\n                Err(ExecutionFailure::StepSkipped(world))", "                self.send_event(skipped(step));\n                world.map_or_else(|| Err(ExecutionFailure::StepSkipped(None)), Ok)"),
    ("c02_finished_without_retries", "C02/R6", B,
     "            event::Scenario::Finished.with_retries(retry_num),", "            event::Scenario::Finished.with_retries(None),"),
    ("c02_ambiguous_as_skipped", "C02/R7", B,
     "                    Err(e) => {\n                        let e = event::StepError::AmbiguousMatch(e);\n                        return Err((e, None, None, world_opt));\n                    }", "                    Err(_) => return Ok((None, None, world_opt)),"),
    ("c02_bg_failure_as_step_failure", "C02/R3", B,
     "                    event::Scenario::background_step_failed(\n                        step, captures, loc, world, error,\n                    )", "                    event::Scenario::step_failed(\n                        step, captures, loc, world, error,\n                    )"),
    ("c02_scenario_steps_marked_background", "C02/R4", B,
     "                        step,\n                        false,\n                        into_step_ev,", "                        step,\n                        true,\n                        into_step_ev,"),
    ("c02_before_passed_on_failure", "C02/R5", B,
     "            match result {\n                Ok(world) => {\n                    self.send_event(event::Cucumber::scenario(\n                        feature.clone(),\n                        rule.cloned(),\n                        scenario.clone(),\n                        event::Scenario::hook_passed(HookType::Before)\n                            .with_retries(retries),\n                    ));\n                    Ok(Some(world))\n                }",
     "            self.send_event(event::Cucumber::scenario(\n                feature.clone(),\n                rule.cloned(),\n                scenario.clone(),\n                event::Scenario::hook_passed(HookType::Before)\n                    .with_retries(retries),\n            ));\n            match result {\n                Ok(world) => Ok(Some(world)),"),
    # ---- C11
    ("c11_run_finished_not_recorded", "C11/R1", "src/writer/normalize.rs",
     "            Ok((Cucumber::Finished, meta)) => self.queue.finished(meta),", "            Ok((Cucumber::Finished, meta)) => drop(meta),"),
    ("c11_rule_scenario_queued_without_rule", "C11/R1", "src/writer/normalize.rs",
     "                            &f,\n                            Some(r),\n                            s,", "                            &f,\n                            { drop(r); None },\n                            s,"),
    ("c11_feature_finished_as_new_feature", "C11/R1", "src/writer/normalize.rs",
     "                Feature::Finished => self.queue.feature_finished(meta.wrap(&f)),", "                Feature::Finished => self.queue.new_feature(meta.wrap(f)),"),
    ("c11_passthrough_inverted", "C11/R2", "src/writer/normalize.rs",
     "        if self.queue.is_finished_and_emitted() {\n            self.writer.handle_event(event, cli).await;", "        if !self.queue.is_finished_and_emitted() {\n            self.writer.handle_event(event, cli).await;"),
    ("c11_passthrough_falls_through", "C11/R2", "src/writer/normalize.rs",
     "            self.writer.handle_event(event, cli).await;\n            return;\n        }\n\n        match event.map(Event::split) {", "            self.writer.handle_event(event.clone(), cli).await;\n        }\n\n        match event.map(Event::split) {"),
    ("c11_run_finished_before_drain", "C11/R3", "src/writer/normalize.rs",
     "        while let Some(feature_to_remove) =\n            self.queue.emit((), &mut self.writer, cli).await\n        {\n            self.queue.remove(&feature_to_remove);\n        }\n\n        if let Some(meta) = self.queue.state.take_to_emit() {\n            self.writer\n                .handle_event(Ok(meta.wrap(Cucumber::Finished)), cli)\n                .await;\n        }",
     "        if let Some(meta) = self.queue.state.take_to_emit() {\n            self.writer\n                .handle_event(Ok(meta.wrap(Cucumber::Finished)), cli)\n                .await;\n        }\n\n        while let Some(feature_to_remove) =\n            self.queue.emit((), &mut self.writer, cli).await\n        {\n            self.queue.remove(&feature_to_remove);\n        }"),
    ("c11_drain_once", "C11/R3", "src/writer/normalize.rs",
     "        while let Some(feature_to_remove) =\n            self.queue.emit((), &mut self.writer, cli).await\n        {", "        if let Some(feature_to_remove) =\n            self.queue.emit((), &mut self.writer, cli).await\n        {"),
    ("c11_take_to_emit_leaves_pending", "C11/R4", "src/writer/normalize.rs",
     "        if let Self::FinishedButNotEmitted(meta) = current {\n            Some(meta)", "        if let Self::FinishedButNotEmitted(meta) = current {\n            *self = current;\n            Some(meta)"),
    ("c11_finished_and_emitted_too_early", "C11/R4", "src/writer/normalize.rs",
     "        matches!(self.state, FinishedState::FinishedAndEmitted)", "        !matches!(self.state, FinishedState::NotFinished)"),
    ("c11_remove_resets_state", "C11/R4", "src/writer/normalize.rs",
     "        drop(self.fifo.remove(key));", "        drop(self.fifo.remove(key));\n        self.state = FinishedState::NotFinished;"),
    ("c11_features_taken_from_back", "C11/R5", "src/writer/normalize.rs",
     "        self.fifo.iter_mut().next().map(|(f, ev)| (f.clone(), ev))", "        self.fifo.iter_mut().next_back().map(|(f, ev)| (f.clone(), ev))"),
    ("c11_scenario_events_lifo", "C11/R5", "src/writer/normalize.rs",
     "        (!self.0.is_empty()).then(|| self.0.remove(0))", "        self.0.pop()"),
    ("c11_rule_finished_before_drain", "C11/R6", "src/writer/normalize.rs",
     "        while let Some((scenario, events)) = self.current_item() {\n            if let Some(should_be_removed) = events\n                .emit(\n                    (feature.clone(), Some(rule.clone()), scenario),\n                    writer,\n                    cli,\n                )\n                .await\n            {\n                self.remove(&should_be_removed);\n            } else {\n                break;\n            }\n        }\n\n        if let Some(meta) = self.state.take_to_emit() {\n            writer\n                .handle_event(\n                    Ok(meta.wrap(event::Cucumber::rule_finished(\n                        feature,\n                        rule.clone(),\n                    ))),\n                    cli,\n                )\n                .await;\n            return Some(rule);\n        }\n",
     "        if let Some(meta) = self.state.take_to_emit() {\n            writer\n                .handle_event(\n                    Ok(meta.wrap(event::Cucumber::rule_finished(\n                        feature.clone(),\n                        rule.clone(),\n                    ))),\n                    cli,\n                )\n                .await;\n            return Some(rule);\n        }\n\n        while let Some((scenario, events)) = self.current_item() {\n            if let Some(should_be_removed) = events\n                .emit(\n                    (feature.clone(), Some(rule.clone()), scenario),\n                    writer,\n                    cli,\n                )\n                .await\n            {\n                self.remove(&should_be_removed);\n            } else {\n                break;\n            }\n        }\n"),
    ("c11_scenario_removed_on_any_event", "C11/R6", "src/writer/normalize.rs",
     "                matches!(ev.event, event::Scenario::Finished)\n                    .then(|| ev.retries);", "                (!matches!(ev.event, event::Scenario::Started))\n                    .then(|| ev.retries);"),
    ("c11_feature_started_every_drain", "C11/R6", "src/writer/normalize.rs",
     "            if let Some(meta) = events.initial.take() {", "            if let Some(meta) = events.initial {"),
    ("c11_feature_removed_without_finished", "C11/R6", "src/writer/normalize.rs",
     "                    .await;\n                return Some(f.clone());\n            }\n        }\n        None", "                    .await;\n            }\n            return Some(f.clone());\n        }\n        None"),
    ("c20_before_hook_started_after_run", "C20/R5", B,
     "            self.send_event(event::Cucumber::scenario(\n                feature.clone(),\n                rule.cloned(),\n                scenario.clone(),\n                event::Scenario::hook_started(HookType::Before)\n                    .with_retries(retries),\n            ));\n\n            let fut = init_world.and_then(async |mut world| {",
     "            let fut = init_world.and_then(async |mut world| {\n//+\n            let result = fut.then_yield().await;\n//=\n            let result = fut.then_yield().await;\n            self.send_event(event::Cucumber::scenario(\n                feature.clone(),\n                rule.cloned(),\n                scenario.clone(),\n                event::Scenario::hook_started(HookType::Before)\n                    .with_retries(retries),\n            ));"),
]


def sh(cmd, cwd=None):
    return subprocess.run(cmd, cwd=cwd, stdout=subprocess.PIPE, stderr=subprocess.STDOUT, text=True)


def main():
    only = sys.argv[1] if len(sys.argv) > 1 else None
    base = tempfile.mkdtemp(prefix="verif-controls-")
    wt = os.path.join(base, "wt")
    sh(["git", "-C", "/repo", "worktree", "prune"])
    r = sh(["git", "-C", "/repo", "worktree", "add", "--detach", "-f", wt, "HEAD"])
    if r.returncode:
        raise SystemExit(r.stdout)
    n = 0
    try:
        for name, expect, path, old, new in T:
            if only and only not in name:
                continue
            sh(["git", "-C", wt, "checkout", "--", "."])
            p = os.path.join(wt, path)
            s = open(p).read()
            extra = []
            if "\n//+\n" in new:
                new, rest = new.split("\n//+\n", 1)
                o2, n2 = rest.split("\n//=\n", 1)
                extra.append((o2, n2))
            if s.count(old) != 1 or any(s.count(o2) != 1 for o2, _ in extra):
                print(f"!! {name}: anchor text occurs {s.count(old)} times in {path} (extra: {[s.count(o2) for o2, _ in extra]}) — not generated")
                continue
            s = s.replace(old, new)
            for o2, n2 in extra:
                s = s.replace(o2, n2)
            open(p, "w").write(s)
            d = sh(["git", "-C", wt, "diff"])
            with open(os.path.join(HERE, name + ".patch"), "w") as f:
                if expect.startswith("silent:"):
                    f.write(f"# expect-silent: {expect[7:]}\n# control: behaviour-preserving refactoring; the named checks must stay silent; generated by controls/make.py\n")
                else:
                    f.write(f"# expect: {expect}\n# control: one-instance breakage of rule {expect}; must compile; generated by controls/make.py\n")
                f.write(d.stdout)
            n += 1
    finally:
        sh(["git", "-C", "/repo", "worktree", "remove", "--force", wt])
        shutil.rmtree(base, ignore_errors=True)
    print(f"generated {n} control patches")


main()
