#!/usr/bin/env python3
"""Runs the type-level witnesses against a repo tree: `run.py [--repo DIR]`.  Prints one line per doctest; exit 0 iff all pass."""
import os, re, shutil, subprocess, sys
HERE = os.path.dirname(os.path.abspath(__file__))
VERIF = os.path.dirname(os.path.dirname(HERE))
repo = "/repo"
if "--repo" in sys.argv:
    repo = sys.argv[sys.argv.index("--repo") + 1]
tag = "witness" if repo == "/repo" else "witness-scratch"
d = os.path.join(VERIF, "build", tag)
os.makedirs(os.path.join(d, "src"), exist_ok=True)
open(os.path.join(d, "Cargo.toml"), "w").write(open(os.path.join(HERE, "Cargo.toml.in")).read().replace("@REPO@", repo))
shutil.copy(os.path.join(HERE, "src", "lib.rs"), os.path.join(d, "src", "lib.rs"))
if not os.path.exists(os.path.join(d, "Cargo.lock")):
    shutil.copy(os.path.join(repo, "Cargo.lock"), os.path.join(d, "Cargo.lock"))
env = dict(os.environ, CARGO_NET_OFFLINE="true", CARGO_TARGET_DIR=os.path.join(VERIF, "build", "witness-target"))
env.pop("RUSTC_WORKSPACE_WRAPPER", None)
r = subprocess.run(["cargo", "+nightly", "test", "--doc", "--offline"], cwd=d, env=env, stdout=subprocess.PIPE, stderr=subprocess.STDOUT, text=True)
lines = [l for l in r.stdout.splitlines() if l.startswith("test ") or l.startswith("test result")]
for l in lines:
    print(l)
if r.returncode != 0 and not lines:
    print(r.stdout[-3000:])
sys.exit(0 if r.returncode == 0 and any("test result: ok" in l for l in lines) else 1)
