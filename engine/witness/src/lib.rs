//! Type-level witnesses for the cucumber properties (run with `cargo +nightly test --doc`, so that the error codes of
//! `compile_fail` blocks are enforced).  Every `compile_fail` witness has a compiling twin that differs only in the
//! offending line(s), so that a witness cannot pass merely because a path or name is wrong.

/// **C09 — World linearity.**  A `World` that is neither `Clone` nor `Send` nor `Sync` (it owns an `Rc` and a raw-pointer
/// marker) drives the whole default pipeline — parser, concurrent runner with hooks, normalizing/summarizing writer wrapped in
/// `fail_on_skipped` and `repeat_failed`.  Since this type-checks, the library can neither duplicate a World nor move it
/// to another thread: a World value is owned by exactly one attempt.
///
/// ```no_run
/// use std::{cell::Cell, convert::Infallible, marker::PhantomData, rc::Rc};
///
/// use cucumber::{step::Context, writer::Stats as _};
/// use futures::future::LocalBoxFuture;
///
/// #[derive(Debug)]
/// struct Lin(Rc<Cell<u8>>, PhantomData<*const ()>);
///
/// impl cucumber::World for Lin {
///     type Error = Infallible;
///
///     async fn new() -> Result<Self, Infallible> {
///         Ok(Self(Rc::new(Cell::new(0)), PhantomData))
///     }
/// }
///
/// fn step(w: &mut Lin, _: Context) -> LocalBoxFuture<'_, ()> {
///     Box::pin(async move { w.0.set(w.0.get() + 1) })
/// }
///
/// async fn run() -> bool {
///     let writer = cucumber::Cucumber::<Lin, _, &str, _, _>::new()
///         .given(regex::Regex::new("a step").unwrap(), step)
///         .before(|_, _, _, w| Box::pin(async move { w.0.set(1) }))
///         .after(|_, _, _, _, w| Box::pin(async move { drop(w) }))
///         .max_concurrent_scenarios(8)
///         .repeat_failed()
///         .fail_on_skipped()
///         .run("tests/features")
///         .await;
///     writer.execution_has_failed()
/// }
/// # let _ = run;
/// ```
///
/// Twin: the very same World cannot be cloned (E0599: no method `clone`) …
///
/// ```compile_fail,E0599
/// use std::{cell::Cell, marker::PhantomData, rc::Rc};
///
/// #[derive(Debug)]
/// struct Lin(Rc<Cell<u8>>, PhantomData<*const ()>);
///
/// let a = Lin(Rc::new(Cell::new(0)), PhantomData);
/// let b = a.clone(); // <- offending line
/// # let _ = b;
/// ```
///
/// … nor sent to another thread (E0277: `Rc<Cell<u8>>` cannot be sent between threads safely):
///
/// ```compile_fail,E0277
/// use std::{cell::Cell, marker::PhantomData, rc::Rc};
///
/// #[derive(Debug)]
/// struct Lin(Rc<Cell<u8>>, PhantomData<*const ()>);
///
/// fn assert_send<T: Send>(_: &T) {}
/// let a = Lin(Rc::new(Cell::new(0)), PhantomData);
/// assert_send(&a); // <- offending line
/// ```
///
/// while the twin of both, without the offending lines, compiles:
///
/// ```
/// use std::{cell::Cell, marker::PhantomData, rc::Rc};
///
/// #[derive(Debug)]
/// struct Lin(Rc<Cell<u8>>, PhantomData<*const ()>);
///
/// fn assert_debug<T: std::fmt::Debug>(_: &T) {}
/// let a = Lin(Rc::new(Cell::new(0)), PhantomData);
/// assert_debug(&a);
/// ```
pub struct LinearWorld;

/// **C13 / C01 — a transforming writer cannot sit inside `Summarize` or `Repeat`.**
///
/// `FailOnSkipped` inside `Summarize` is rejected (E0277: `FailOnSkipped<_>: NonTransforming` is not satisfied), so the
/// summary always counts *after* skipped steps were turned into failures:
///
/// ```compile_fail,E0277
/// use cucumber::{writer, WriterExt as _};
///
/// #[derive(Debug, Default)]
/// struct W;
/// impl cucumber::World for W {
///     type Error = std::convert::Infallible;
///     async fn new() -> Result<Self, Self::Error> { Ok(Self) }
/// }
///
/// let wr = writer::Basic::stdout()
///     .fail_on_skipped() // <- offending order
///     .summarized();
/// let _ = cucumber::Cucumber::<W, _, &str, _, _>::new().with_writer(wr);
/// ```
///
/// `FailOnSkipped` inside `Repeat` is rejected as well:
///
/// ```compile_fail,E0277
/// use cucumber::{writer, WriterExt as _};
///
/// #[derive(Debug, Default)]
/// struct W;
/// impl cucumber::World for W {
///     type Error = std::convert::Infallible;
///     async fn new() -> Result<Self, Self::Error> { Ok(Self) }
/// }
///
/// let wr = writer::Basic::stdout()
///     .fail_on_skipped() // <- offending order
///     .repeat_failed();
/// let _ = cucumber::Cucumber::<W, _, &str, _, _>::new().with_writer(wr.summarized());
/// ```
///
/// Twin — the same wrappers in the right order compile:
///
/// ```
/// use cucumber::{writer, WriterExt as _};
///
/// #[derive(Debug, Default)]
/// struct W;
/// impl cucumber::World for W {
///     type Error = std::convert::Infallible;
///     async fn new() -> Result<Self, Self::Error> { Ok(Self) }
/// }
///
/// let wr = writer::Basic::stdout()
///     .repeat_failed()
///     .summarized()
///     .fail_on_skipped();
/// let _ = cucumber::Cucumber::<W, _, &str, _, _>::new().with_writer(wr);
/// ```
pub struct WriterOrder;
