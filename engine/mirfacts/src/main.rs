//! mirfacts — exports `mir_built` of every body of the crate being compiled as JSON facts.
//!
//! Used as `RUSTC_WORKSPACE_WRAPPER`: cargo calls `mirfacts <rustc> <args…>`; we drop argv[1] and run
//! the compiler in-process with a callback that, after macro expansion / name resolution, walks all
//! body owners, serialises their first MIR (before any pass touched it) and writes **one** file
//! `$FACTS_DIR/<crate>.json` in a single `write`. Compilation then continues normally, so the crate
//! is type- and borrow-checked by the real compiler as part of the same run.
#![feature(rustc_private)]
extern crate rustc_abi;
extern crate rustc_driver;
extern crate rustc_hir;
extern crate rustc_interface;
extern crate rustc_lint;
extern crate rustc_lint_defs;
extern crate rustc_middle;
extern crate rustc_session;
extern crate rustc_span;

use rustc_driver::Compilation;
use rustc_hir::def::DefKind;
use rustc_hir::def_id::{DefId, LocalDefId, LOCAL_CRATE};
use rustc_middle::mir::*;
use rustc_middle::ty::{self, Ty, TyCtxt, TyKind};
use std::fmt::Write as _;

fn js(s: &str) -> String {
    let mut o = String::with_capacity(s.len() + 2);
    o.push('"');
    for c in s.chars() {
        match c {
            '"' => o.push_str("\\\""),
            '\\' => o.push_str("\\\\"),
            '\n' => o.push_str("\\n"),
            '\r' => o.push_str("\\r"),
            '\t' => o.push_str("\\t"),
            c if (c as u32) < 0x20 => {
                let _ = write!(o, "\\u{:04x}", c as u32);
            }
            c => o.push(c),
        }
    }
    o.push('"');
    o
}

struct Cx<'tcx> {
    tcx: TyCtxt<'tcx>,
}

impl<'tcx> Cx<'tcx> {
    fn span(&self, sp: rustc_span::Span) -> String {
        let sm = self.tcx.sess.source_map();
        // Use the outermost call-site for macro-expanded code so that file:line points into the crate.
        let sp2 = sp.source_callsite();
        let lo = sm.lookup_char_pos(sp2.lo());
        let hi = sm.lookup_char_pos(sp2.hi());
        format!(
            "{}:{}:{}-{}:{}{}",
            lo.file.name.prefer_local_unconditionally(),
            lo.line,
            lo.col.0 + 1,
            hi.line,
            hi.col.0 + 1,
            if sp.from_expansion() { "!" } else { "" }
        )
    }

    fn place(&self, body: &Body<'tcx>, p: &Place<'tcx>) -> String {
        let mut out = format!("{{\"l\":{},\"p\":[", p.local.as_usize());
        let mut pty = PlaceTy::from_ty(body.local_decls[p.local].ty);
        let mut first = true;
        for elem in p.projection.iter() {
            if !first {
                out.push(',');
            }
            first = false;
            match elem {
                ProjectionElem::Deref => out.push_str("\"*\""),
                ProjectionElem::Field(f, fty) => {
                    let mut name = format!("{}", f.as_usize());
                    let mut owner = String::new();
                    match pty.ty.kind() {
                        TyKind::Adt(adt, _) => {
                            let v = pty.variant_index.unwrap_or(rustc_abi::FIRST_VARIANT);
                            if let Some(vd) = adt.variants().get(v) {
                                if let Some(fd) = vd.fields.get(f) {
                                    name = fd.name.to_string();
                                }
                                owner = self.tcx.def_path_str(adt.did());
                                if adt.is_enum() {
                                    owner.push_str("::");
                                    owner.push_str(vd.name.as_str());
                                }
                            }
                        }
                        TyKind::Closure(did, _) | TyKind::Coroutine(did, _) | TyKind::CoroutineClosure(did, _) => {
                            owner = format!("{{upvar}}{}", self.tcx.def_path_str(*did));
                        }
                        TyKind::Tuple(_) => owner = "{tuple}".to_string(),
                        _ => {}
                    }
                    let _ = write!(
                        out,
                        "{{\"f\":{},\"n\":{},\"o\":{},\"t\":{}}}",
                        f.as_usize(),
                        js(&name),
                        js(&owner),
                        js(&fty.to_string())
                    );
                }
                ProjectionElem::Downcast(sym, v) => {
                    let mut n = sym.map(|s| s.to_string()).unwrap_or_default();
                    if n.is_empty() {
                        if let TyKind::Adt(adt, _) = pty.ty.kind() {
                            if let Some(vd) = adt.variants().get(v) {
                                n = vd.name.to_string();
                            }
                        }
                    }
                    let owner = match pty.ty.kind() {
                        TyKind::Adt(adt, _) => self.tcx.def_path_str(adt.did()),
                        _ => String::new(),
                    };
                    let _ = write!(out, "{{\"v\":{},\"i\":{},\"o\":{}}}", js(&n), v.as_usize(), js(&owner));
                }
                ProjectionElem::Index(l) => {
                    let _ = write!(out, "{{\"idx\":{}}}", l.as_usize());
                }
                ProjectionElem::ConstantIndex { offset, from_end, .. } => {
                    let _ = write!(out, "{{\"cidx\":{},\"from_end\":{}}}", offset, from_end);
                }
                _ => out.push_str("\"?\""),
            }
            pty = pty.projection_ty(self.tcx, elem);
        }
        out.push_str("]}");
        out
    }

    fn fn_const(&self, did: DefId, args: ty::GenericArgsRef<'tcx>) -> String {
        let tcx = self.tcx;
        let plain = tcx.def_path_str(did);
        let full = tcx.def_path_str_with_args(did, args);
        let krate = tcx.crate_name(did.krate).to_string();
        // For trait items: the trait path and the Self type.
        let mut extra = String::new();
        if let Some(tr) = tcx.trait_of_assoc(did) {
            let selfty = if !args.is_empty() { args.type_at(0).to_string() } else { String::new() };
            let _ = write!(extra, ",\"trait\":{},\"self\":{}", js(&tcx.def_path_str(tr)), js(&selfty));
        } else if let Some(imp) = tcx.inherent_impl_of_assoc(did) {
            let selfty = tcx.type_of(imp).instantiate_identity().skip_norm_wip();
            let mut s = selfty.to_string();
            if let TyKind::Adt(adt, _) = selfty.kind() {
                s = tcx.def_path_str(adt.did());
            }
            let _ = write!(extra, ",\"impl_of\":{}", js(&s));
        }
        // try to resolve to a concrete instance (trait method on concrete receiver)
        let mut resolved = String::new();
        if tcx.trait_of_assoc(did).is_some() {
            let has_param = args.iter().any(|a| {
                use rustc_middle::ty::TypeVisitableExt;
                a.has_param() || a.has_infer() || a.has_escaping_bound_vars()
            });
            if !has_param {
                if let Ok(Some(inst)) =
                    ty::Instance::try_resolve(tcx, ty::TypingEnv::fully_monomorphized(), did, args)
                {
                    let rd = inst.def_id();
                    if rd != did {
                        resolved = tcx.def_path_str(rd);
                    }
                }
            }
        }
        // generic args (types only) as strings
        let targs: Vec<String> = args.iter().filter_map(|a| a.as_type()).map(|t| js(&t.to_string())).collect();
        format!(
            "{{\"k\":\"fn\",\"path\":{},\"full\":{},\"crate\":{},\"id\":{},\"local\":{},\"targs\":[{}],\"res\":{}{}}}",
            js(&plain),
            js(&full),
            js(&krate),
            did.as_local().map(|l| l.local_def_index.as_u32() as i64).unwrap_or(-1),
            did.is_local(),
            targs.join(","),
            js(&resolved),
            extra
        )
    }

    fn konst(&self, c: &ConstOperand<'tcx>) -> String {
        let ty = c.const_.ty();
        if let TyKind::FnDef(did, args) = ty.kind() {
            return self.fn_const(*did, args);
        }
        let mut val = String::new();
        if let Some(si) = c.const_.try_eval_scalar_int(self.tcx, ty::TypingEnv::fully_monomorphized()) {
            val = format!("{}", si);
            // ScalarInt prints hex like 0x01; normalise to decimal where it fits
            let bits = si.to_bits_unchecked();
            val = format!("{}", bits);
        }
        format!(
            "{{\"k\":\"const\",\"ty\":{},\"val\":{},\"text\":{}}}",
            js(&ty.to_string()),
            js(&val),
            js(&format!("{}", c.const_))
        )
    }

    fn operand(&self, body: &Body<'tcx>, o: &Operand<'tcx>) -> String {
        match o {
            Operand::Copy(p) => format!("{{\"k\":\"copy\",\"pl\":{}}}", self.place(body, p)),
            Operand::Move(p) => format!("{{\"k\":\"move\",\"pl\":{}}}", self.place(body, p)),
            Operand::Constant(c) => self.konst(c),
            _ => "{\"k\":\"other\"}".to_string(),
        }
    }

    fn variants(&self, ty: Ty<'tcx>) -> String {
        if let TyKind::Adt(adt, _) = ty.kind() {
            if adt.is_enum() {
                let v: Vec<String> = adt
                    .discriminants(self.tcx)
                    .map(|(i, d)| format!("[{},{}]", d.val, js(&adt.variant(i).name.to_string())))
                    .collect();
                return format!("[{}]", v.join(","));
            }
        }
        "[]".to_string()
    }

    fn adt_name(&self, ty: Ty<'tcx>) -> String {
        match ty.kind() {
            TyKind::Adt(adt, _) => self.tcx.def_path_str(adt.did()),
            _ => String::new(),
        }
    }

    fn rvalue(&self, body: &Body<'tcx>, r: &Rvalue<'tcx>) -> String {
        match r {
            Rvalue::Use(o, ..) => format!("{{\"k\":\"use\",\"op\":{}}}", self.operand(body, o)),
            Rvalue::Ref(_, bk, p) => format!(
                "{{\"k\":\"ref\",\"mut\":{},\"pl\":{}}}",
                matches!(bk, BorrowKind::Mut { .. }),
                self.place(body, p)
            ),
            Rvalue::RawPtr(_, p) => format!("{{\"k\":\"ref\",\"mut\":true,\"raw\":true,\"pl\":{}}}", self.place(body, p)),
            Rvalue::BinaryOp(op, ab) => format!(
                "{{\"k\":\"bin\",\"op\":{},\"a\":{},\"b\":{}}}",
                js(&format!("{:?}", op)),
                self.operand(body, &ab.0),
                self.operand(body, &ab.1)
            ),
            Rvalue::UnaryOp(op, a) => format!(
                "{{\"k\":\"un\",\"op\":{},\"a\":{}}}",
                js(&format!("{:?}", op)),
                self.operand(body, a)
            ),
            Rvalue::Discriminant(p) => {
                let ty = p.ty(body, self.tcx).ty;
                format!(
                    "{{\"k\":\"discr\",\"pl\":{},\"ty\":{},\"adt\":{},\"variants\":{}}}",
                    self.place(body, p),
                    js(&ty.to_string()),
                    js(&self.adt_name(ty)),
                    self.variants(ty)
                )
            }
            Rvalue::Cast(kind, o, ty) => format!(
                "{{\"k\":\"cast\",\"kind\":{},\"op\":{},\"ty\":{}}}",
                js(&format!("{:?}", kind)),
                self.operand(body, o),
                js(&ty.to_string())
            ),
            Rvalue::CopyForDeref(p) => {
                format!("{{\"k\":\"use\",\"op\":{{\"k\":\"copy\",\"pl\":{}}}}}", self.place(body, p))
            }
            Rvalue::Aggregate(kind, ops) => {
                let ops: Vec<String> = ops.iter().map(|o| self.operand(body, o)).collect();
                let k = match &**kind {
                    AggregateKind::Tuple => "\"agg\":\"tuple\"".to_string(),
                    AggregateKind::Array(_) => "\"agg\":\"array\"".to_string(),
                    AggregateKind::Adt(did, v, ..) => {
                        let adt = self.tcx.adt_def(*did);
                        let vd = adt.variant(*v);
                        let fields: Vec<String> = vd.fields.iter().map(|f| js(&f.name.to_string())).collect();
                        format!(
                            "\"agg\":\"adt\",\"adt\":{},\"variant\":{},\"is_enum\":{},\"fields\":[{}]",
                            js(&self.tcx.def_path_str(*did)),
                            js(&vd.name.to_string()),
                            adt.is_enum(),
                            fields.join(",")
                        )
                    }
                    AggregateKind::Closure(did, _) => {
                        format!("\"agg\":\"closure\",\"def\":{},\"def_id\":{}", js(&self.tcx.def_path_str(*did)), did.as_local().map(|l| l.local_def_index.as_u32() as i64).unwrap_or(-1))
                    }
                    AggregateKind::Coroutine(did, _) => {
                        format!("\"agg\":\"coroutine\",\"def\":{},\"def_id\":{}", js(&self.tcx.def_path_str(*did)), did.as_local().map(|l| l.local_def_index.as_u32() as i64).unwrap_or(-1))
                    }
                    AggregateKind::CoroutineClosure(did, _) => {
                        format!("\"agg\":\"coroutine_closure\",\"def\":{},\"def_id\":{}", js(&self.tcx.def_path_str(*did)), did.as_local().map(|l| l.local_def_index.as_u32() as i64).unwrap_or(-1))
                    }
                    _ => "\"agg\":\"other\"".to_string(),
                };
                format!("{{\"k\":\"agg\",{},\"ops\":[{}]}}", k, ops.join(","))
            }
            other => format!("{{\"k\":\"other\",\"text\":{}}}", js(&format!("{:?}", other))),
        }
    }

    fn body(&self, def: LocalDefId, body: &Body<'tcx>) -> String {
        let tcx = self.tcx;
        let mut out = String::new();
        let kind = tcx.def_kind(def);
        let cor_kind = match tcx.coroutine_kind(def) {
            Some(k) => format!("{:?}", k),
            None => String::new(),
        };
        let _ = write!(
            out,
            "{{\"id\":{},\"parent_id\":{},\"def\":{},\"kind\":{},\"span\":{},\"coroutine\":{},\"cor_kind\":{},\"arg_count\":{},",
            def.local_def_index.as_u32(),
            tcx.opt_local_parent(def).map(|p| p.local_def_index.as_u32() as i64).unwrap_or(-1),
            js(&tcx.def_path_str(def.to_def_id())),
            js(&format!("{:?}", kind)),
            js(&self.span(body.span)),
            body.coroutine.is_some(),
            js(&cor_kind),
            body.arg_count
        );
        let parent = tcx.opt_local_parent(def).map(|p| tcx.def_path_str(p.to_def_id())).unwrap_or_default();
        let _ = write!(out, "\"parent\":{},", js(&parent));
        // impl header for associated fns
        if matches!(kind, DefKind::AssocFn | DefKind::AssocConst { .. }) {
            if let Some(imp) = tcx.opt_local_parent(def) {
                if matches!(tcx.def_kind(imp), DefKind::Impl { .. }) {
                    let selfty = tcx.type_of(imp).instantiate_identity().skip_norm_wip();
                    let self_adt = self.adt_name(selfty);
                    let tr = tcx
                        .impl_opt_trait_ref(imp)
                        .map(|t| tcx.def_path_str(t.instantiate_identity().skip_norm_wip().def_id))
                        .unwrap_or_default();
                    let _ = write!(
                        out,
                        "\"impl\":{{\"self\":{},\"self_adt\":{},\"trait\":{}}},",
                        js(&selfty.to_string()),
                        js(&self_adt),
                        js(&tr)
                    );
                } else if matches!(tcx.def_kind(imp), DefKind::Trait) {
                    let _ = write!(
                        out,
                        "\"impl\":{{\"self\":\"Self\",\"self_adt\":\"\",\"trait\":{},\"provided\":true}},",
                        js(&tcx.def_path_str(imp.to_def_id()))
                    );
                }
            }
        }
        if matches!(kind, DefKind::Fn | DefKind::AssocFn) {
            let _ = write!(out, "\"vis\":{},", js(&format!("{:?}", tcx.visibility(def))));
        }
        out.push_str("\"locals\":[");
        for (i, (_l, d)) in body.local_decls.iter_enumerated().enumerate() {
            if i > 0 {
                out.push(',');
            }
            let _ = write!(out, "{}", js(&d.ty.to_string()));
        }
        out.push_str("],\"debug\":[");
        let mut first = true;
        for v in &body.var_debug_info {
            if let VarDebugInfoContents::Place(p) = &v.value {
                if !first {
                    out.push(',');
                }
                first = false;
                let _ = write!(out, "{{\"name\":{},\"pl\":{}}}", js(&v.name.to_string()), self.place(body, p));
            }
        }
        out.push_str("],\"blocks\":[");
        for (bi, (bb, data)) in body.basic_blocks.iter_enumerated().enumerate() {
            if bi > 0 {
                out.push(',');
            }
            let _ = write!(out, "{{\"i\":{},\"cleanup\":{},\"stmts\":[", bb.as_usize(), data.is_cleanup);
            let mut firsts = true;
            for st in &data.statements {
                match &st.kind {
                    StatementKind::Assign(b) => {
                        if !firsts {
                            out.push(',');
                        }
                        firsts = false;
                        let _ = write!(
                            out,
                            "{{\"pl\":{},\"rv\":{},\"sp\":{}}}",
                            self.place(body, &b.0),
                            self.rvalue(body, &b.1),
                            js(&self.span(st.source_info.span))
                        );
                    }
                    StatementKind::SetDiscriminant { place, variant_index } => {
                        if !firsts {
                            out.push(',');
                        }
                        firsts = false;
                        let _ = write!(
                            out,
                            "{{\"pl\":{},\"rv\":{{\"k\":\"setdiscr\",\"i\":{}}},\"sp\":{}}}",
                            self.place(body, place),
                            variant_index.as_usize(),
                            js(&self.span(st.source_info.span))
                        );
                    }
                    _ => {}
                }
            }
            out.push_str("],\"term\":");
            let t = data.terminator();
            let sp = js(&self.span(t.source_info.span));
            match &t.kind {
                TerminatorKind::Goto { target } => {
                    let _ = write!(out, "{{\"k\":\"goto\",\"t\":{}}}", target.as_usize());
                }
                TerminatorKind::SwitchInt { discr, targets } => {
                    let ts: Vec<String> = targets.iter().map(|(v, t)| format!("[{},{}]", v, t.as_usize())).collect();
                    let _ = write!(
                        out,
                        "{{\"k\":\"switch\",\"discr\":{},\"targets\":[{}],\"otherwise\":{},\"sp\":{}}}",
                        self.operand(body, discr),
                        ts.join(","),
                        targets.otherwise().as_usize(),
                        sp
                    );
                }
                TerminatorKind::Call { func, args, destination, target, .. } => {
                    let a: Vec<String> = args.iter().map(|a| self.operand(body, &a.node)).collect();
                    let fty = func.ty(body, tcx);
                    let _ = write!(
                        out,
                        "{{\"k\":\"call\",\"func\":{},\"fty\":{},\"args\":[{}],\"dest\":{},\"t\":{},\"sp\":{}}}",
                        self.operand(body, func),
                        js(&fty.to_string()),
                        a.join(","),
                        self.place(body, destination),
                        target.map(|t| t.as_usize() as i64).unwrap_or(-1),
                        sp
                    );
                }
                TerminatorKind::Yield { value, resume, resume_arg, drop } => {
                    let _ = write!(
                        out,
                        "{{\"k\":\"yield\",\"value\":{},\"resume\":{},\"resume_arg\":{},\"drop\":{},\"sp\":{}}}",
                        self.operand(body, value),
                        resume.as_usize(),
                        self.place(body, resume_arg),
                        drop.map(|t| t.as_usize() as i64).unwrap_or(-1),
                        sp
                    );
                }
                TerminatorKind::Drop { place, target, .. } => {
                    let _ = write!(
                        out,
                        "{{\"k\":\"drop\",\"pl\":{},\"t\":{},\"sp\":{}}}",
                        self.place(body, place),
                        target.as_usize(),
                        sp
                    );
                }
                TerminatorKind::Assert { target, cond, expected, .. } => {
                    let _ = write!(
                        out,
                        "{{\"k\":\"assert\",\"cond\":{},\"expected\":{},\"t\":{},\"sp\":{}}}",
                        self.operand(body, cond),
                        expected,
                        target.as_usize(),
                        sp
                    );
                }
                TerminatorKind::FalseEdge { real_target, .. } => {
                    let _ = write!(out, "{{\"k\":\"goto\",\"t\":{},\"false_edge\":true}}", real_target.as_usize());
                }
                TerminatorKind::FalseUnwind { real_target, .. } => {
                    let _ = write!(out, "{{\"k\":\"goto\",\"t\":{},\"false_unwind\":true}}", real_target.as_usize());
                }
                TerminatorKind::Return => {
                    let _ = write!(out, "{{\"k\":\"return\",\"sp\":{}}}", sp);
                }
                TerminatorKind::Unreachable => out.push_str("{\"k\":\"unreachable\"}"),
                TerminatorKind::UnwindResume => out.push_str("{\"k\":\"resume\"}"),
                TerminatorKind::CoroutineDrop => out.push_str("{\"k\":\"coroutine_drop\"}"),
                other => {
                    let _ = write!(
                        out,
                        "{{\"k\":\"other\",\"text\":{}}}",
                        js(&format!("{:?}", other).chars().take(80).collect::<String>())
                    );
                }
            }
            out.push('}');
        }
        out.push_str("]}");
        out
    }

    fn adts(&self) -> String {
        let tcx = self.tcx;
        let mut parts = Vec::new();
        for id in tcx.hir_crate_items(()).definitions() {
            let kind = tcx.def_kind(id);
            match kind {
                DefKind::Struct | DefKind::Enum | DefKind::Union => {
                    let adt = tcx.adt_def(id.to_def_id());
                    let mut vs = Vec::new();
                    for v in adt.variants() {
                        let fs: Vec<String> = v
                            .fields
                            .iter()
                            .map(|f| {
                                let fty = tcx.type_of(f.did).instantiate_identity().skip_norm_wip();
                                format!("{{\"name\":{},\"ty\":{}}}", js(&f.name.to_string()), js(&fty.to_string()))
                            })
                            .collect();
                        vs.push(format!("{{\"name\":{},\"fields\":[{}]}}", js(&v.name.to_string()), fs.join(",")));
                    }
                    let generics = tcx.generics_of(id.to_def_id());
                    let gp: Vec<String> = generics.own_params.iter().map(|p| js(&p.name.to_string())).collect();
                    parts.push(format!(
                        "{{\"path\":{},\"kind\":{},\"generics\":[{}],\"variants\":[{}]}}",
                        js(&tcx.def_path_str(id.to_def_id())),
                        js(&format!("{:?}", kind)),
                        gp.join(","),
                        vs.join(",")
                    ));
                }
                _ => {}
            }
        }
        format!("[{}]", parts.join(",\n"))
    }

    fn impls(&self) -> String {
        let tcx = self.tcx;
        let mut parts = Vec::new();
        for id in tcx.hir_crate_items(()).definitions() {
            if let DefKind::Impl { of_trait } = tcx.def_kind(id) {
                let selfty = tcx.type_of(id).instantiate_identity().skip_norm_wip();
                let tr = if of_trait {
                    tcx.impl_opt_trait_ref(id)
                        .map(|t| {
                            let t = t.instantiate_identity().skip_norm_wip();
                            (tcx.def_path_str(t.def_id), t.to_string())
                        })
                        .unwrap_or_default()
                } else {
                    (String::new(), String::new())
                };
                let items: Vec<String> = tcx
                    .associated_item_def_ids(id.to_def_id())
                    .iter()
                    .map(|d| js(&tcx.def_path_str(*d)))
                    .collect();
                let assoc: Vec<String> = tcx
                    .associated_items(id.to_def_id())
                    .in_definition_order()
                    .filter(|it| it.is_type() && it.opt_name().is_some())
                    .map(|it| {
                        let ty = tcx.type_of(it.def_id).instantiate_identity().skip_norm_wip();
                        format!("[{},{},{}]", js(&it.name().to_string()), js(&ty.to_string()), js(&self.adt_name(ty)))
                    })
                    .collect();
                let preds: Vec<String> = tcx
                    .predicates_of(id.to_def_id())
                    .predicates
                    .iter()
                    .map(|(p, _)| js(&p.to_string()))
                    .collect();
                parts.push(format!(
                    "{{\"self\":{},\"self_adt\":{},\"trait\":{},\"trait_ref\":{},\"items\":[{}],\"assoc_types\":[{}],\"preds\":[{}],\"span\":{}}}",
                    js(&selfty.to_string()),
                    js(&self.adt_name(selfty)),
                    js(&tr.0),
                    js(&tr.1),
                    items.join(","),
                    assoc.join(","),
                    preds.join(","),
                    js(&self.span(tcx.def_span(id)))
                ));
            }
        }
        format!("[{}]", parts.join(",\n"))
    }

    fn statics(&self) -> String {
        let tcx = self.tcx;
        let mut parts = Vec::new();
        for id in tcx.hir_crate_items(()).definitions() {
            if let DefKind::Static { .. } = tcx.def_kind(id) {
                let ty = tcx.type_of(id).instantiate_identity().skip_norm_wip();
                parts.push(format!(
                    "{{\"path\":{},\"ty\":{}}}",
                    js(&tcx.def_path_str(id.to_def_id())),
                    js(&ty.to_string())
                ));
            }
        }
        format!("[{}]", parts.join(","))
    }

    fn fn_sigs(&self) -> String {
        // signatures of all local fns / assoc fns (including trait method declarations)
        let tcx = self.tcx;
        let mut parts = Vec::new();
        for id in tcx.hir_crate_items(()).definitions() {
            if matches!(tcx.def_kind(id), DefKind::Fn | DefKind::AssocFn) {
                let sig = tcx.fn_sig(id).instantiate_identity().skip_norm_wip();
                let sig = sig.skip_binder();
                let ins: Vec<String> = sig.inputs().iter().map(|t| js(&t.to_string())).collect();
                parts.push(format!(
                    "{{\"path\":{},\"inputs\":[{}],\"output\":{}}}",
                    js(&tcx.def_path_str(id.to_def_id())),
                    ins.join(","),
                    js(&sig.output().to_string())
                ));
            }
        }
        format!("[{}]", parts.join(",\n"))
    }
}

struct Cb;
impl rustc_driver::Callbacks for Cb {
    fn after_expansion<'tcx>(&mut self, _c: &rustc_interface::interface::Compiler, tcx: TyCtxt<'tcx>) -> Compilation {
        let dir = match std::env::var("FACTS_DIR") {
            Ok(d) => d,
            Err(_) => return Compilation::Continue,
        };
        let krate = tcx.crate_name(LOCAL_CRATE).to_string();
        if krate == "build_script_build" {
            return Compilation::Continue;
        }
        let cx = Cx { tcx };
        let mut parts = Vec::new();
        let mut stolen = Vec::new();
        // Pass 1: clone every `mir_built` *before* any query that could force later MIR phases
        // (instance resolution on coroutine types steals `mir_built` of non-generic async fns).
        let mut cloned: Vec<(LocalDefId, Body<'tcx>)> = Vec::new();
        for def in tcx.hir_body_owners() {
            let steal = tcx.mir_built(def);
            if steal.is_stolen() {
                stolen.push(js(&tcx.def_path_str(def.to_def_id())));
                continue;
            }
            let body: Body<'tcx> = steal.borrow().clone();
            cloned.push((def, body));
        }
        for (def, body) in &cloned {
            parts.push(cx.body(*def, body));
        }
        let unsafe_level = rustc_lint::unerased_lint_store(tcx.sess)
            .get_lints()
            .iter()
            .find(|l| l.name_lower() == "unsafe_code")
            .map(|l| format!("{:?}", tcx.lint_level_at_node(l, rustc_hir::CRATE_HIR_ID).level))
            .unwrap_or_default();
        let crate_types: Vec<String> = tcx.crate_types().iter().map(|t| js(&format!("{:?}", t))).collect();
        let out = format!(
            "{{\"crate\":{},\"crate_types\":[{}],\"unsafe_code_level\":{},\"stolen\":[{}],\"adts\":{},\n\"impls\":{},\n\"statics\":{},\n\"sigs\":{},\n\"bodies\":[\n{}\n]}}\n",
            js(&krate),
            crate_types.join(","),
            js(&unsafe_level),
            stolen.join(","),
            cx.adts(),
            cx.impls(),
            cx.statics(),
            cx.fn_sigs(),
            parts.join(",\n")
        );
        // distinguish lib / test / bin targets of the same crate name
        let is_test = tcx.sess.opts.test;
        let name = if is_test { format!("{}.test", krate) } else { krate.clone() };
        std::fs::write(format!("{}/{}.json", dir, name), out).unwrap();
        Compilation::Continue
    }
}

fn main() {
    let mut args: Vec<String> = std::env::args().collect();
    // As a workspace wrapper: argv[1] is the path of the real rustc.
    if args.len() > 1 && (args[1].ends_with("rustc") || args[1].contains("/rustc")) {
        args.remove(1);
    }
    rustc_driver::run_compiler(&args, &mut Cb);
}
