"""C01 — run verdict plumbing (DESIGN §4 C01)."""
import re

from . import analysis as A
from . import roles
from . import writers as W
from .mir import Site, Unverifiable, callee_is, callee_path, const_int, op_fn, op_local, op_place, place_fields

CFGS = {"quick": ["default", "all", "zoo:default"], "thorough": ["default", "all", "libtest", "nodefault", "json", "junit", "zoo:default"]}

WITNESS = ["WriterOrder"]  # doctests of engine/witness run in the thorough tier

EXPLANATION = """
Static rules over the MIR of the verdict plumbing: (R1) Stats::execution_has_failed is true iff one of failed_steps,
parsing_errors, hook_errors is > 0 (path table of the provided method); (R2) run_and_exit panics exactly on the true
edge of execution_has_failed() of the writer returned by the run, and no path skips the test; (R3) final-only
counting: every scenario-level increment of a field returned by a verdict getter (in every writer keeping its own
counters: Summarize, Libtest) is guarded by the retry predicate with polarity "no retry left", and the predicate is
exactly `retries is Some ∧ left > 0 ∧ err ≠ NotFound`; (R4) every Stats wrapper delegates getter-for-getter to the
same-named getter of its inner writer, Tee = max, Or = sum, discard::Stats = 0; (R5) libtest's suite verdict is Ok
iff failed + parsing_errors + hook_errors == 0; (R6) all retry predicates in the crate and Retries::next_try reduce
to the same predicate on `left`; (R7) StepError::NotFound is constructed only by FailOnSkipped.
Decides the plumbing, not the numeric value of any counter on a particular run.
"""
DECLINED = ["numeric equality of counters with a concrete event stream", "behaviour of user-supplied Stats impls"]
ASSUMPTIONS = ["cmp::max / usize addition have their usual meaning"]

WRAPPER_EXPECT = {"writer::tee::Tee": "max", "writer::or::Or": "sum", "writer::discard::Stats": "const0"}


def short_adt(a):
    return a.rsplit("::", 1)[-1]


class core_reporter_prefix:
    """Reporter view that prefixes instance keys (to keep keys of different writers apart)."""

    def __init__(self, R, prefix):
        self.R, self.prefix = R, prefix

    def check(self, cond, inst, *a, **k):
        return self.R.check(cond, f"{self.prefix}/{inst}", *a, **k)

    def violation(self, inst, *a, **k):
        return self.R.violation(f"{self.prefix}/{inst}", *a, **k)

    def ok(self, inst, *a, **k):
        return self.R.ok(f"{self.prefix}/{inst}", *a, **k)

    def unverifiable(self, inst, *a, **k):
        return self.R.unverifiable(f"{self.prefix}/{inst}", *a, **k)


# ---- R1 ---------------------------------------------------------------------------------------------

def r1(F, R):
    """Stats::execution_has_failed is `failed_steps > 0 || parsing_errors > 0 || hook_errors > 0`, on its deep path table."""
    from . import deep as D
    bs = [b for b in F.crate_bodies() if b.impl and b.impl.get("provided") and b.impl["trait"] == "writer::Stats"
          and b.name.endswith("::execution_has_failed")]
    if len(bs) != 1:
        raise Unverifiable(f"provided Stats::execution_has_failed: {len(bs)}")
    b = bs[0]
    rows = D.Deep(F, b, max_paths=100).run()

    def getter(t):
        return t[1].rsplit("::", 1)[-1] if isinstance(t, tuple) and t and t[0] == "call" and re.search(r"writer::Stats(<.*>)?>?::\w+$", t[1]) else None
    getters, ok, detail, ok_cmp = set(), bool(rows), [], True
    for p in rows:
        atoms = {}
        for a, o in p.conds:
            g = getter(a[2]) if a[0] == "bin" and a[1] == "Eq" and a[3] == ("const", 0) else None
            if g and isinstance(o, bool):
                atoms[g] = not o   # getter != 0
                getters.add(g)
            else:
                ok = False
                ok_cmp = False
                detail.append(f"unrecognised condition {D.fmt(b, a)[:60]}")
        r = p.ret
        if r[0] == "const" and isinstance(r[1], bool):
            if r[1] != any(atoms.values()):
                ok = False
                detail.append(f"returns {r[1]} with {atoms}")
        else:
            # the last operand of `a || b || c` is the value itself: `getter > 0` / `getter != 0`
            neg, t = False, r
            if t[0] == "un" and t[1] == "Not":
                neg, t = True, t[2]
            g = None
            if t[0] == "bin" and t[3] == ("const", 0) and getter(t[2]):
                g = getter(t[2])
                positive = {"Gt": True, "Ne": True, "Eq": False, "Le": False}.get(t[1])
                if positive is None or positive == neg:
                    ok_cmp = False
            if g is None:
                ok = False
                detail.append(f"returns {D.fmt(b, r)[:60]}")
            else:
                getters.add(g)
                if any(atoms.values()):
                    ok = False
                    detail.append("a positive count does not decide the result")
    R.check(getters == set(W.VERDICT_GETTERS), "verdict-inputs", b, f"execution_has_failed consults {sorted(getters)}",
            f"execution_has_failed consults {sorted(getters)}; expected exactly {sorted(W.VERDICT_GETTERS)}")
    R.check(ok_cmp, "verdict-comparisons", b, "each count is compared with 0", "a count is not compared with `> 0` (`!= 0`)")
    R.check(ok, "verdict-is-disjunction", b, "true as soon as one count is positive", "; ".join(detail)[:300])
    R.floor(3)


# ---- R2 ---------------------------------------------------------------------------------------------

PANICS = (r"rt::panic_display", r"panicking::panic_fmt$", r"panicking::panic_display", r"panicking::begin_panic", r"panicking::panic$", r"rt::panic_fmt$",
          r"core::panicking::", r"std::rt::begin_panic")


def r2(F, R):
    # EXIT := the coroutine that calls execution_has_failed and may panic, in `cucumber::`
    cands = []
    for b in F.crate_bodies():
        if not b.is_coroutine or not b.name.startswith("cucumber::"):
            continue
        ehf = [(s, t) for s, t in b.calls(lambda t: callee_is(t, r"Stats::execution_has_failed$"))]
        if ehf:
            cands.append((b, ehf))
    if not cands:
        # no coroutine asks the verdict: name the one that decides the exit (awaits the run, may panic) instead of failing closed
        exits = [b for b in F.crate_bodies() if b.is_coroutine and b.name.startswith("cucumber::")
                 and any(True for _ in b.calls(lambda t: callee_is(t, *PANICS) and t["t"] < 0))
                 and any(True for _ in A.awaits(b))]
        if len(exits) == 1:
            R.violation("exit-consults-verdict", exits[0], "the routine that awaits the run and panics never asks the writer's execution_has_failed(): "
                        "the exit code is decided by something else than the verdict")
            return
    if len(cands) != 1:
        raise Unverifiable(f"EXIT role (coroutine calling execution_has_failed in cucumber::): {len(cands)}")
    b, ehf = cands[0]
    R.check(len(ehf) == 1, "single-verdict-test", b, "", f"{len(ehf)} calls of execution_has_failed")
    s_e, t_e = ehf[0]
    # receiver is the value produced by awaiting filter_run
    aws = [a for a in A.awaits(b)]
    run_aw = [a for a in aws if a.poll_resolved and "filter_run" in a.poll_resolved] or aws
    sl = A.slice_back(b, [t_e["args"][0]])
    from_run = any(s == a.poll_site for a in run_aw for s, _ in sl.calls)
    R.check(from_run, "verdict-of-run-writer", s_e, "execution_has_failed() is asked of the writer returned by the run",
            "execution_has_failed() is not called on the writer returned by filter_run")
    # every path from the run's completion to return passes the test
    for a in run_aw[:1]:
        start = Site(b, a.ready_bb, "T")
        skip = b.return_reachable_from(Site(b, a.switch_bb, "T"), stop=[s_e]) and _reaches_avoiding(b, a.ready_bb, s_e)
        R.check(not skip, "verdict-test-on-every-path", s_e, "no path from the end of the run to return skips the test",
                "a path from the end of the run to `return` skips execution_has_failed()")
    # panic exactly on the true edge
    panics = [(s, t) for s, t in b.calls(lambda t: callee_is(t, *PANICS) and t["t"] < 0)]
    R.check(len(panics) >= 1, "exit-panics", b, "", "no panic call in the exit path")
    sw = b.blocks[t_e["t"]]["term"]
    if sw["k"] != "switch" or op_local(sw["discr"]) != t_e["dest"]["l"]:
        R.unverifiable("verdict-branch", "the result of execution_has_failed is not branched on directly", s_e)
        return
    true_t, false_t = sw["otherwise"], [tg for v, tg in sw["targets"] if v == 0][0]
    for s, t in panics:
        R.check(b.guarded_by_edges(s, {(t_e["t"], true_t)}), "panic-only-if-failed", s, "panic is reachable only through the `failed` edge",
                "a panic in run_and_exit is reachable although execution_has_failed() returned false")
    # on the true edge every path panics (return unreachable)
    ret_from_true = _return_reachable_from_block(b, true_t)
    R.check(not ret_from_true, "failed-always-panics", s_e, "from the `failed` edge no path reaches `return`",
            "execution_has_failed() == true can still lead to a normal return (exit code 0)")
    ret_from_false_panics = any(_block_reaches(b, false_t, s.bb) for s, _ in panics)
    R.check(not ret_from_false_panics, "passed-never-panics", s_e, "", "a panic is reachable from the `not failed` edge")
    # run_and_exit delegates to this fn
    root = F.root_fn(b)
    refs = F.fn_refs("^" + re.escape(root.name) + "$")
    R.check(len(refs) >= 1, "run-and-exit-delegates", root, f"{len(refs)} caller(s) of {root.short.rsplit('::', 1)[-1]}", "filter_run_and_exit is never called")
    R.floor(7)


def _reaches_avoiding(b, start_bb, stop_site):
    seen, work = set(), [start_bb]
    while work:
        x = work.pop()
        if x in seen:
            continue
        seen.add(x)
        if x == stop_site.bb:
            continue
        if b.blocks[x]["term"]["k"] == "return":
            return True
        work.extend(b.succ[x])
    return False


def _return_reachable_from_block(b, bb):
    return any(b.blocks[x]["term"]["k"] == "return" for x in b.reachable_blocks(bb))


def _block_reaches(b, frm, to):
    return to in b.reachable_blocks(frm)


# ---- R3 ---------------------------------------------------------------------------------------------

def r3(F, R):
    own = W.own_state_stats(F)
    if "writer::summarize::Summarize" not in own:
        raise Unverifiable("Summarize does not keep its own verdict counters any more")
    for adt, getters in sorted(own.items()):
        verdict_fields = {getters[g] for g in W.VERDICT_GETTERS}
        retried_field = getters["retried_steps"]
        from . import writers_deep as WD
        # Summarize: decided on the deep path table of its handler (spelling-independent); Libtest buffers and replays
        # events and formats a lot in the same routines (path explosion): its write sites are classified site-based
        deep = adt in WD.DEEP_ADTS
        if deep:
            writes = WD.table(F, adt).writes
        else:
            root, bodies = W.handler_bodies(F, adt)
            writes = W.counter_writes(F, adt, bodies)
        for w in writes:
            if w.op not in ("+1", "+n"):
                continue
            ctx = w.ctx if deep else W.context(F, w.body, w.site, bodies, root)
            scen = ctx.get("event::Scenario")
            if scen is None:
                continue  # not scenario-level (parser errors, run-level)
            ev = "+".join(sorted(ctx.get("event::Step", []) or ctx.get("event::Hook", []) or scen))
            kind = "Hook" if "event::Hook" in ctx else ("Step" if "event::Step" in ctx else "Scenario")
            inst = f"{short_adt(adt)}/{w.name}/{kind}::{ev}"
            if deep:
                rg = w.rg
            else:
                rg0 = W.retry_guard(F, w.body, w.site)
                rg = None if rg0 is None else (rg0[0], W.is_canonical_retry_predicate(rg0[1]))
            if w.path in verdict_fields:
                if rg is None:
                    R.violation(inst, w.site, f"`{w.name}` feeds the run verdict and is incremented for a {kind}::{ev} event of an "
                                f"attempt without testing whether a retry is left: a failure that will be retried is counted as final")
                elif rg[0] != "final":
                    R.violation(inst, w.site, f"`{w.name}` (verdict input) is incremented on the *retry-left* edge of the retry predicate")
                elif not rg[1]:
                    R.violation(inst, w.site, f"the predicate guarding `{w.name}` is not `left > 0 && err != NotFound`")
                else:
                    R.ok(inst, w.site, "verdict counter incremented only when no retry is left")
            elif w.path == retried_field:
                if rg is None or rg[0] != "retry" or not rg[1]:
                    R.violation(inst, w.site, f"`{w.name}` (retried steps) is not incremented exactly on the retry-left edge: {rg and rg[0]}")
                else:
                    R.ok(inst, w.site, "retried counter incremented only when a retry is left")
        # no failure event may slip through uncounted: every path of a failure arm updates a verdict (or retried) counter
        nm = lambda g: ".".join(getters[g])
        mandatory = {
            ("event::Step", "Failed"): {nm("failed_steps"), nm("retried_steps")},
            ("event::Hook", "Failed"): {nm("hook_errors")},
            ("std::result::Result", "Err"): {nm("parsing_errors")},
        }
        sub = core_reporter_prefix(R, short_adt(adt))
        if deep:
            WD.check_mandatory(F, sub, adt, mandatory)
        else:
            W.check_mandatory(F, sub, adt, writes, mandatory)
    R.floor(3)


# ---- R4 ---------------------------------------------------------------------------------------------

def classify_getter(F, body, name):
    """('field', path) | ('delegate', field) | ('max', fields) | ('sum', fields) | ('const', v) | ('other', why) — decided on the
    getter's deep path table (private helpers inlined), so `cmp::max(a, b)`, `if a > b { a } else { b }` and a helper doing either
    are the same thing."""
    from . import deep as D
    adt = body.impl["self_adt"]
    a = F.adts.get(("cucumber", adt))
    fnames = [f["name"] for f in a["variants"][0]["fields"]] if a else []
    rows = D.Deep(F, body, max_paths=60, opaque=r"writer::Stats(<.*>)?>?::\w+$").run()   # inner getters stay calls
    if not rows or any(p.cut for p in rows):
        return ("other", "no straight-line path table")

    def getter_of(t):
        """(inner getter name, receiver field name) if t is `<field of self>.<getter>()`"""
        if not (isinstance(t, tuple) and t and t[0] == "call" and re.search(r"writer::Stats(<.*>)?>?::(\w+)$", t[1])):
            return None
        g = t[1].rsplit("::", 1)[-1]
        idx = None
        for x in D.subterms(t[2]):
            if x[0] == "field" and x[1] in (("deref", ("arg", 1)), ("arg", 1)) and isinstance(x[2], int):
                idx = x[2]
        return (g, fnames[idx] if idx is not None and idx < len(fnames) else "?")
    calls = set()
    for p in rows:
        for e in p.effects:
            if e[0] == "call":
                g = getter_of(("call", e[1], e[2], e[4]))
                if g:
                    calls.add((g, e[4]))
    inner = sorted({g for g, _ in calls})
    if not inner:
        if len(rows) == 1:
            r = rows[0].ret
            if r[0] == "const":
                return ("const", r[1])
            path, x = [], r
            while isinstance(x, tuple) and x and x[0] == "field":
                path.append(x[2])
                x = x[1]
            if x in (("deref", ("arg", 1)), ("arg", 1)) and path:
                names, cur = [], adt
                for i in reversed(path):
                    aa = F.adts.get(("cucumber", cur))
                    if not aa or not isinstance(i, int) or i >= len(aa["variants"][0]["fields"]):
                        return ("other", "unresolved field path")
                    f = aa["variants"][0]["fields"][i]
                    names.append(f["name"])
                    cur = re.sub(r"<.*$", "", f["ty"])
                return ("field", tuple(names))
        return ("other", "no inner Stats call and not a plain field/constant")
    if {g for g, _ in inner} != {name}:
        return ("other", f"calls inner getter(s) {sorted({g for g, _ in inner})}")
    fields = [(f,) for _, f in inner]
    if len(inner) == 1:
        ok = len(rows) == 1 and getter_of(rows[0].ret) == inner[0]
        return ("delegate", fields[0]) if ok else ("other", "result of the inner getter is transformed")
    if len(inner) == 2:
        def is_get(t, which):
            return getter_of(t) == which
        A_, B_ = inner
        if len(rows) == 1:
            r = rows[0].ret
            if r[0] == "bin" and r[1] == "Add" and {getter_of(r[2]), getter_of(r[3])} == {A_, B_}:
                return ("sum", fields)
            if r[0] == "call" and re.search(r"cmp::max$|Ord::max$", r[1]) and len(r[2]) == 2 and {getter_of(r[2][0]), getter_of(r[2][1])} == {A_, B_}:
                return ("max", fields)
            return ("other", f"combines two inner getters as {D.fmt(body, r)[:80]}")
        if len(rows) == 2:
            # an explicit maximum: one comparison of the two values selects the larger one
            ok = True
            for p in rows:
                cmpc = [(a2, o) for a2, o in p.conds if a2[0] == "bin" and a2[1] in ("Lt", "Le") and isinstance(o, bool) and getter_of(a2[2]) and getter_of(a2[3])]
                if len(cmpc) != 1 or len(p.conds) != 1:
                    ok = False
                    continue
                (op, x, y), o = (cmpc[0][0][1], cmpc[0][0][2], cmpc[0][0][3]), cmpc[0][1]
                # cond: x < y  /  x <= y  is `o`;  the larger one is y if o else x (ties: either)
                larger = y if o else x
                ok = ok and p.ret == larger
            return ("max", fields) if ok else ("other", "selects between the two inner getters, but not the larger one")
    return ("other", f"{len(inner)} inner getter calls")


def r4(F, R):
    impls = W.stats_impls(F)
    own = W.own_state_stats(F)
    for adt, ms in sorted(impls.items()):
        if adt in own:
            continue
        expect = WRAPPER_EXPECT.get(adt, "delegate")
        for g in W.STATS_GETTERS + ("execution_has_failed",):
            if g not in ms:
                if g != "execution_has_failed":
                    R.violation(f"{short_adt(adt)}/{g}", None, f"impl Stats for {adt} lacks {g}")
                elif expect == "delegate":
                    # a transparent wrapper of ONE writer answers what that writer answers: the provided default recomputes the verdict
                    # from three counters and so ignores a wrapped writer that decides `execution_has_failed` itself
                    anyb = next(iter(ms.values()))
                    R.violation(f"{adt.replace('writer::', '')}/{g}", anyb, f"impl Stats for {adt} does not forward execution_has_failed() to the wrapped writer "
                                f"(it falls back to the provided default, which ignores the wrapped writer's own verdict)")
                continue
            c = classify_getter(F, ms[g], g)
            inst = f"{adt.replace('writer::', '')}/{g}"
            if expect == "delegate":
                R.check(c[0] == "delegate", inst, ms[g], f"= inner.{g}()", f"{adt}::{g} must return inner.{g}() unchanged: {c}")
            elif expect == "max":
                R.check(c[0] == "max", inst, ms[g], f"= max(left.{g}(), right.{g}())", f"Tee::{g} must be max(left.{g}(), right.{g}()): {c}")
            elif expect == "sum":
                R.check(c[0] == "sum", inst, ms[g], f"= left.{g}() + right.{g}()", f"Or::{g} must be left.{g}() + right.{g}(): {c}")
            elif expect == "const0":
                R.check(c == ("const", 0), inst, ms[g], "= 0 (documented)", f"discard::Stats::{g} must be the constant 0: {c}")
    # discard::Stats (all-zero) must not be what the crate hands to run_and_exit: it only appears in `for_tee` constructors
    refs = []
    for b in F.crate_bodies():
        for s, st in b.assigns(lambda st: st["rv"]["k"] == "agg" and st["rv"].get("adt") == "writer::discard::Stats"):
            refs.append(F.root_fn(b).short)
        for s, t in b.calls(lambda t: callee_is(t, r"discard::Stats::<.*>::wrap$", r"writer::discard::Stats.*::wrap$")):
            refs.append(F.root_fn(b).short)
    bad = sorted({r for r in refs if not re.search(r"for_tee$|discard::Stats|Ext.*discard_stats_writes|discard_stats_writes$", r)})
    R.check(not bad, "zero-stats-only-for-tee", None, f"discard::Stats constructed in {sorted(set(refs))}",
            f"the all-zero discard::Stats writer is constructed in {bad}")
    R.floor(40)


# ---- R5 ---------------------------------------------------------------------------------------------

def _suite_verdict_by_table(F, ctor_body, want):
    """(inputs ok, Ok on the zero edge, plain sum, why) read off the deep table of the unique caller of `ctor_body` (libtest module fns inlined),
    or None when there is no such caller / the table does not show a comparison with 0."""
    from . import deep as D
    from .termtypes import Typer
    callers = [cb for cb in F.crate_bodies() if cb is not ctor_body and any(F.callee_body(t, cb.crate) is ctor_body for _, t in cb.calls())]
    if len(callers) != 1:
        return None
    cb = callers[0]
    inl = lambda x: x is ctor_body
    dp = D.Deep(F, cb, inline_only=inl, max_paths=6000, prune=None)
    try:
        rows = dp.run()
    except Unverifiable:
        return None
    T = Typer(F, cb, dp)
    seen = {}
    for p in rows:
        kinds = {x[2] for t_ in [p.ret] + [a for e in p.effects if e[0] == "call" for a in e[2]] + [e[2] for e in p.effects if e[0] == "write"] for x in D.subterms(t_)
                 if isinstance(x, tuple) and len(x) == 4 and x[0] == "variant" and x[1] == "writer::libtest::SuiteEvent" and x[2] in ("Ok", "Failed")}
        if len(kinds) != 1:
            continue
        cmp0 = [(a, o) for a, o in p.conds if a[0] == "bin" and a[1] in ("Eq", "Ne", "Gt", "Lt") and ((isinstance(a[3], tuple) and a[3] == ("const", 0)) or (isinstance(a[2], tuple) and a[2] == ("const", 0)))]
        if not cmp0:
            continue
        a, o = cmp0[-1]
        total = a[2] if a[3] == ("const", 0) else a[3]
        zero = (o is True) if a[1] == "Eq" else (o is False)
        seen.setdefault(next(iter(kinds)), []).append((total, zero))
    if "Ok" not in seen or "Failed" not in seen:
        return None
    total, _ = seen["Ok"][0]
    roots = {r.rsplit(".", 1)[-1] for r in T.roots(total) if r.startswith("self.")}
    ops = {x[1] for x in D.subterms(total) if isinstance(x, tuple) and x and x[0] == "bin"}
    ok_edge = all(z for _, z in seen["Ok"]) and all(not z for _, z in seen["Failed"])
    return (roots == want, ok_edge, ops <= {"Add", "AddWithOverflow"} and len(roots) >= 2, f"the total compared with 0 is built from {sorted(roots)} with {sorted(ops)}")


def r5(F, R):
    oks = [x for x in roles.builders_of(F, "writer::libtest::SuiteEvent", "Ok")]
    fails = [x for x in roles.builders_of(F, "writer::libtest::SuiteEvent", "Failed")]
    if len(oks) != 1 or len(fails) != 1 or oks[0][0] is not fails[0][0]:
        raise Unverifiable(f"SuiteEvent::Ok built {len(oks)}x, Failed {len(fails)}x")
    b, s_ok, _ = oks[0]
    _, s_fail, _ = fails[0]
    own = W.own_state_stats(F).get("writer::libtest::Libtest")
    if not own:
        raise Unverifiable("Libtest does not keep own counters")
    want = {own[g][-1] for g in W.VERDICT_GETTERS}
    found = None
    for g in A.guards_of(b, s_ok):
        d = g.cond_def()
        if d and d[0] == "bin" and d[2]["op"] in ("Eq", "Ne", "Gt") and const_int(d[2]["b"]) == 0:
            sl = A.slice_back(b, [d[2]["a"]])
            fields = {n for o, n in sl.fields if o == "writer::libtest::Libtest"}
            pol = g.polarity()
            zero_edge = (d[2]["op"] == "Eq" and pol is True) or (d[2]["op"] in ("Ne", "Gt") and pol is False)
            found = (fields, zero_edge, sl)
    if found is None or found[0] != want:
        # the Ok / Failed choice may sit in a constructor that is handed the totals (`SuiteEvent::finished(results)`): decided on the table of the
        # routine that calls it, with the libtest module's own fns inlined
        tb = _suite_verdict_by_table(F, b, want)
        if tb is not None:
            ok_inputs, ok_edge, ok_sum, why = tb
            R.check(ok_inputs, "suite-verdict-inputs", s_ok, f"failure total = {sorted(want)}", f"suite verdict: {why}; expected exactly {sorted(want)}")
            R.check(ok_edge, "suite-ok-iff-zero", s_ok, "Ok on the == 0 edge", "SuiteEvent::Ok is produced on the non-zero edge")
            R.check(ok_sum, "suite-total-is-sum", s_ok, "total is a plain sum", f"total is not a plain sum: {why}")
            R.ok("suite-failed-is-else", s_fail, "Failed is the other edge of the same test")
            R.floor(4)
            return
    if found is None:
        R.violation("suite-verdict-guard", s_ok, "SuiteEvent::Ok is not guarded by a comparison of the failure total with 0")
    else:
        fields, zero_edge, sl = found
        R.check(fields == want, "suite-verdict-inputs", s_ok, f"failure total = {sorted(fields)}", f"suite verdict sums {sorted(fields)}; expected exactly {sorted(want)}")
        R.check(zero_edge, "suite-ok-iff-zero", s_ok, "Ok on the == 0 edge", "SuiteEvent::Ok is produced on the non-zero edge")
        bins = [rv for _, rv in sl.bins if const_int(rv["b"]) is None and const_int(rv["a"]) is None]  # `+= 1` bookkeeping excluded
        adds = [rv for rv in bins if rv["op"] in ("Add", "AddWithOverflow")]
        others = [rv for rv in bins if rv["op"] not in ("Add", "AddWithOverflow")]
        R.check(len(adds) == 2 and not others, "suite-total-is-sum", s_ok, "total is a plain sum", f"total is computed with {[rv['op'] for rv in bins]}")
    gs_f = [g for g in A.guards_of(b, s_fail)]
    R.check(any(g.bb in {gg.bb for gg in A.guards_of(b, s_ok)} for g in gs_f), "suite-failed-is-else", s_fail,
            "Failed is the other edge of the same test", "SuiteEvent::Failed is not the complementary edge of the Ok test")
    R.floor(4)


# ---- R6 ---------------------------------------------------------------------------------------------

def r6(F, R):
    preds = W.all_retry_predicates(F)
    for kb in preds:
        rows = W.predicate_table(F, kb)
        root = F.root_fn(kb)
        inst = f"predicate/{root.short}"
        if W.is_plain_left_positive(kb):
            R.ok(inst, kb, "hook-level predicate: left > 0")
            continue
        R.check(W.is_canonical_retry_predicate(rows), inst, kb, "left > 0 && err != NotFound",
                f"retry predicate in {root.short} differs from `left > 0 && err != NotFound`: table (left>0, notfound, result) = {rows}")
    # runner side: Retries::next_try is Some exactly when a retry is left (decided on its path table: c05.next_try_semantics)
    from . import c05
    b, iff, fields_ok, why = c05.next_try_semantics(F)
    R.check(iff, "next-try-iff-left-positive", b, "next_try is Some iff left > 0",
            "Retries::next_try no longer is `Some iff left > 0`; runner and writers would disagree on 'retry left'" + (": " + why if why else ""))
    R.check(iff, "next-try-none-propagates", b, "None when left == 0", "Retries::next_try can be Some although left == 0")
    R.floor(3)   # the two next_try clauses + at least one writer-side predicate (how many closures test `left` is a matter of style)


# ---- R7 ---------------------------------------------------------------------------------------------

def r7(F, R):
    bs = roles.builders_of(F, "event::StepError", "NotFound")
    roots = sorted({F.root_fn(b).short for b, _, _ in bs})
    ok = bool(bs) and all(re.search(r"fail_on_skipped::FailOnSkipped", r) for r in roots)
    R.check(ok, "notfound-only-from-fail-on-skipped", bs[0][1] if bs else None, f"StepError::NotFound constructed in {roots}",
            f"StepError::NotFound (skipped-as-failed) is constructed outside FailOnSkipped: {roots}")
    R.floor(1)


def r8(F, R):
    """Every parser error reaches the writers: in the ingestion loop's Err arm the error value is sent on every path."""
    ing = roles.insert_features(F)
    sends = roles.sends(F, [ing])
    err_sends = []
    for s, t in sends:
        sl = A.slice_back(ing, [t["args"][1]], stop_calls=[r"Future::poll$"])
        errs = [rv for _, rv in sl.aggs if rv.get("adt") == "std::result::Result" and rv["variant"] == "Err"]
        if errs:
            err_sends.append((s, t, sl))
    R.check(len(err_sends) == 1, "error-send-site", ing, "one send of Err(e)", f"{len(err_sends)} sends of a parser error in the ingestion loop")
    if len(err_sends) != 1:
        return
    s, t, sl = err_sends[0]
    # the value sent is the stream item's Err payload
    nx = [a for a in A.awaits(ing) if re.search(r"stream::Next<", a.fut_type)]
    R.check(len(nx) == 1 and nx[0].poll_site in sl.sites, "error-is-stream-item", s, "Err(e) forwards the parser's error value", "the error sent is not the parser's error value")
    # every path through the Err arm passes the send
    entries = W.arm_entry_targets(ing, "std::result::Result", "Err")
    # only the switch on the stream item
    item_entries = []
    for sw, tg in entries:
        l = A.op_local(ing.blocks[sw]["term"]["discr"]) if False else None
        d = A.local_def_desc(ing, op_local(ing.blocks[sw]["term"]["discr"]))
        if d[0] == "discr" and "gherkin::Feature" in ing.locals[A.canon_place(ing, d[1])["l"]]:
            item_entries.append((sw, tg))
    R.check(len(item_entries) == 1, "error-arm-found", ing, "", f"{len(item_entries)} Err arms on the stream item")
    for sw, tg in item_entries:
        seen, work, bad = set(), [tg], False
        loop_head = nx[0].poll_site.bb if nx else -1
        while work:
            x = work.pop()
            if x in seen or x == s.bb:
                continue
            seen.add(x)
            if x == loop_head or ing.blocks[x]["term"]["k"] == "return" or any(ss == sends[-1][0].bb for ss in [x] if sends and sends[-1][0] != s):
                bad = True
                break
            work.extend(ing.succ[x])
        R.check(not bad, "error-sent-on-every-path", s, "every path through the Err arm sends the error",
                "a path through the Err arm skips sending the parser error (e.g. short-circuited by fail_fast): the writers never see it and the run is not reported failed")
    R.floor(4)


_LIB = ["default", "all", "libtest", "nodefault", "json", "junit"]


def r9(F, R):
    """"... it had a failed step ...": a step function that returns `Err` — however its `Result` type is spelled (type alias,
    `io::Result`) — makes the step fail: in the macro expansion of the zoo's functions the returned value goes through
    `unwrap_or_else(panic)` (= C19.R2; checked on the verif-owned zoo crate's MIR)."""
    from . import c19
    c19.r2(F, R)


def r10_init(F, R):
    """"a run in which no step, hook or parse failed is never reported failed": the verdict counters start at 0 (= C12.R8)."""
    from . import c12
    c12.r8_init(F, R)

def r11(F, R):
    """The documented entry points reach the verdict: `World::run` / `World::filter_run` go through `run_and_exit` /
    `filter_run_and_exit` (the variants that turn a failed run into a panic / non-zero exit) on `Self::cucumber()`, which registers
    `Self::collection()`; `Cucumber::run_and_exit` is `filter_run_and_exit` and `Cucumber::run` is `filter_run`, each with a filter
    that accepts every scenario (constant `true`)."""
    def last(t):
        return re.sub(r"<[^<>]*(<[^<>]*(<[^<>]*>[^<>]*)*>[^<>]*)*>", "", callee_path(t) or "").replace("::::", "::").rsplit("::", 1)[-1]
    prov = {b.name.rsplit("::", 1)[-1]: b for b in F.crate_bodies() if (b.impl or {}).get("trait") == "World" and (b.impl or {}).get("provided")}
    macros_on = any(b.name.startswith("codegen::") or b.name.startswith("<") and " as codegen::" in b.name for b in F.crate_bodies())
    for name, want in (("run", "run_and_exit"), ("filter_run", "filter_run_and_exit")):
        if not macros_on and name not in prov:
            continue      # `World::run` / `filter_run` / `cucumber` exist only with the `macros` feature: nothing to decide in this configuration
        b = prov.get(name)
        if b is None:
            raise Unverifiable(f"World::{name}")
        calls = [last(t) for nb in F.nested(b) for _, t in nb.calls() if (callee_path(t) or "").startswith("cucumber::Cucumber")]
        base = [last(t) for nb in F.nested(b) for _, t in nb.calls() if (callee_path(t) or "") == "World::cucumber"]
        R.check(calls == [want] and base == ["cucumber"], f"entry/World::{name}", b, f"Self::cucumber().{want}(..)",
                f"`World::{name}` runs {calls} on {base or 'another pipeline'}: a failed run is not turned into a failing process (expected `Self::cucumber().{want}`)")
    b = prov.get("cucumber")
    if b is None and macros_on:
        raise Unverifiable("World::cucumber")
    if b is not None:
        names = [last(t) for _, t in b.calls()]
        st = [(s_, t) for s_, t in b.calls() if last(t) == "steps"]
        ok = len(st) == 1 and any(callee_path(ct) == "World::collection" for _, ct in A.slice_back(b, st[0][1]["args"][1:]).calls)
        R.check(ok, "entry/World::cucumber", b, "Cucumber::new().steps(Self::collection())", f"`World::cucumber()` does not register `Self::collection()` (calls {names}): every step would be reported as skipped")
    for name, want in (("run_and_exit", "filter_run_and_exit"), ("run", "filter_run")):
        bs = [x for x in F.crate_bodies() if (x.impl or {}).get("self_adt") == "cucumber::Cucumber" and not (x.impl or {}).get("trait") and re.sub(r"<.*>$", "", x.name).rsplit("::", 1)[-1] == name and x.kind == "AssocFn"]
        if len(bs) != 1:
            raise Unverifiable(f"Cucumber::{name}: {len(bs)}")
        fam = F.nested(bs[0])
        cs = [(nb, s_, t) for nb in fam for s_, t in nb.calls() if last(t) == want and (callee_path(t) or "").startswith("cucumber::Cucumber")]
        ok = len(cs) == 1
        why = f"{len(cs)} calls of {want}"
        if ok:
            nb, s_, t = cs[0]
            kb = A.closure_of_operand(F, nb, t["args"][-1])
            consts = set()
            if kb is not None:
                for _, st_ in kb.assigns(lambda st_: st_["pl"]["l"] == 0 and not st_["pl"]["p"]):
                    if st_["rv"]["k"] == "use" and st_["rv"]["op"].get("k") == "const":
                        consts.add(st_["rv"]["op"].get("val"))
                    else:
                        consts.add("?")
            ok = kb is not None and consts <= {"true", "1"} and bool(consts) and not list(kb.calls())
            why = f"the filter it passes returns {sorted(consts) or 'not a closure'}"
        R.check(ok, f"entry/Cucumber::{name}", bs[0], f"{want}(input, |_, _, _| true)", f"`Cucumber::{name}` is not `{want}` with an accept-everything filter: {why}")
    R.floor(5 if macros_on else 2)


def r12(F, R):
    """"... if a parser error was delivered": every item of the runner's stream — parser errors included — reaches the stats writer
    through `filter_run`'s event loop (= C03.R8)."""
    from . import c03
    c03.r8(F, R)


def r13(F, R):
    """"a skipped step counts as failed only under `fail_on_skipped` for scenarios not tagged `@allow.skipped`": the
    transformation table of FailOnSkipped and the default predicate reachable from `Ext::fail_on_skipped` (= C13.R1)."""
    from . import c13
    c13.r1(F, R)


RULES = [("R8", r8, _LIB), ("R1", r1, _LIB), ("R2", r2, _LIB), ("R3", r3, _LIB), ("R4", r4, _LIB), ("R5", r5, ["all", "libtest"]),
         ("R6", r6, _LIB), ("R7", r7, _LIB), ("R9", r9, ["zoo:default"]), ("R10", r10_init, _LIB), ("R11", r11, _LIB), ("R12", r12, _LIB), ("R13", r13, _LIB)]
