"""C14 — built-in reports: structural clauses of the libtest line protocol and of the JSON / JUnit / terminal writers' per-event tables (DESIGN §4 C14, §12)."""
import re

from . import analysis as A
from . import roles
from . import writers as W
from . import c01
from .mir import Site, Unverifiable, callee_is, callee_path, const_int, op_const, op_fn, op_local, op_place, place_fields

CFGS = {"quick": ["all"], "thorough": ["all", "libtest"]}

EXPLANATION = """
Claimed for writer::Libtest's line protocol only.  (R1) name stability: the `name` of every test event comes from
one crate-local function N; `started` and the result line are produced by different invocations of N (two
handle_event calls), so N must be pure with respect to the writer — its effect summary (transitively, incl. closures)
must not contain a write to any field of Libtest — and its arguments must not depend on the event kind or metadata;
(R2) every synthetic `started` (hook failure, parser error: no runner Started event exists) is emitted in the same
batch as exactly one result event built from a clone of the same name; (R3) counter <-> event table of Libtest and
each Step variant maps to the test event of the matching kind; (R4) the suite verdict (= C01.R5); (R5) JUnit: the
event deciding a test case's result is never a skipped failure and the (event -> success/skipped/failure) table.
Declined: JSON, JUnit and terminal writers, and the parsed-back content of any report (document text is runtime data).
Added after the second seeded round: (R6) Cucumber JSON: before a Feature / Element entry is pushed all existing entries of that list are searched (parser-error entries excepted).
Added in the third build round (per-event tables of the other reporters, deep path tables of their handle_event with the writer's own
methods inlined): (R7) Cucumber JSON: per event shape (2 levels x {Background, Step} x {Passed, Skipped, Failed x 3 errors}, hooks
{Before, After} x {Passed, Failed}) exactly one entry is pushed, into `steps` / `before` / `after` of the element looked up with the
event's own feature / rule / scenario and the type `background` | `scenario`, carrying the status the event states, the step's own
keyword / line / text, an error message iff it failed (built from the event's error) and the logs buffered so far; Started events and
brackets record nothing; a parser error is one entry of `features`; the document is serialised into `output` on run-Finished only.
(R8) JUnit: every scenario event but Finished is buffered once as it is; Finished builds one test case from exactly the taken buffer for
the event's own feature / rule / scenario and adds it to the open suite; Feature::Started opens, Feature::Finished moves the suite into the
report; a parser error is one suite with one failure case; the XML is written on run-Finished only.  (R9) terminal writer: per event
shape one printing routine is called for the event's own step (and error), and it is the routine of the matching status (style sets
`ok` / `skipped` / `err`); Hook Started / Passed and Scenario::Finished print nothing.
Added in the fourth seeded round: (R10) the JSON look-up comparator also tells features apart (every row that can answer true compared the
key's path and name); (R7) the log buffer is emptied at a scenario boundary; (R12) terminal writer: the walk over a matched step's capture
groups emits consecutive slices from the old cursor to the new one, each once, or leaves the cursor alone; it starts at 0 and the tail is
emitted once (the step text is reproduced, whatever the styling); (R1-R3 keep the libtest table) .
Added in the fifth to seventh seeded rounds: (R13) complete writes; (R14) locations formatted line:col in every reporter; (R15) JUnit case names
identify the scenario; (R16) held-back libtest events keep their order; (R17) total Duration accessors; (R18) TestEvent decorators keep the kind;
(R19) test_count from the event, parser errors numbered by their own counter; (R20) CLI verbosity tables; (R21) indentation brackets balance;
(R22) trim_path on paths only; R1 name-carries-attempt; R8 started-stamps-time / fresh error suite; R9 erases-pending-lines, step-kind markers,
re-output mirrors output; R10 look-up key agreement.
"""
DECLINED = ["text of any report beyond the recorded status / target list / message presence (R7-R9): escaping, well-formedness, indentation, durations",
            "terminal writer: cursor arithmetic of re-printed lines (lines_to_clear, value-level) and which style a piece of the step text gets", "suite totals as numbers"]
ASSUMPTIONS = ["Libtest sits behind Normalize (documented), so a feature's events are contiguous"]

LT = "writer::libtest::Libtest"
TE = "writer::libtest::TestEvent"

TABLE = {
    ("passed", "+1", "Step", "Passed", None): [],
    ("ignored", "+1", "Step", "Skipped", None): [],
    ("failed", "+1", "Step", "Failed", "final"): [],
    ("retried", "+1", "Step", "Failed", "retry"): [],
    ("hook_errors", "+1", "Hook", "Failed", None): [],
    ("parsing_errors", "+1", "Result", "Err", None): [],
    # (only for a feature without a path: `feature.path.is_none()` — an Option of the event's own feature)
    ("features_without_path", "+1", "Feature", "Started", None): [r"Option::is_none\(&?.*path.*\)", r"^discr\(std::option::Option\)$"],
}
COUNTERS = {"passed", "ignored", "failed", "retried", "hook_errors", "parsing_errors", "features_without_path"}


def test_event_ctors(F):
    """Crate-local fns that build a TestEvent variant from a `String` name parameter: variant -> body."""
    out = {}
    for b, site, st in roles.builders_of(F, TE, "Started") + roles.builders_of(F, TE, "Ok") + roles.builders_of(F, TE, "Failed") + \
            roles.builders_of(F, TE, "Ignored"):
        if b.arg_count >= 1 and b.locals[1] == "std::string::String" and b.kind in ("Fn", "AssocFn"):
            out.setdefault(st["rv"]["variant"], b)
    return out


def ctor_calls(F, bodies, ctors):
    inv = {b.key: v for v, b in ctors.items()}
    out = []
    for b in bodies:
        for s, t in b.calls():
            cb = F.callee_body(t, b.crate)
            if cb is not None and cb.key in inv:
                out.append((b, s, t, inv[cb.key]))
    return out


def name_fns(F, bodies, calls):
    """Crate-local String-returning methods of Libtest in the slice of the `name` argument of test-event constructors."""
    ns = {}
    for b, s, t, v in calls:
        sl = A.slice_back(b, [t["args"][0]])
        for cs, ct in sl.calls:
            cb = F.callee_body(ct, b.crate)
            if cb is not None and cb.impl and cb.impl.get("self_adt") == LT and cb.locals[0] == "std::string::String":
                ns.setdefault(cb.key, (cb, []))[1].append((b, cs, ct, v))
    return ns


def r1(F, R):
    root, bodies = W.handler_bodies(F, LT)
    ctors = test_event_ctors(F)
    if set(ctors) != {"Started", "Ok", "Failed", "Ignored"}:
        raise Unverifiable(f"test event constructors found: {sorted(ctors)}")
    calls = ctor_calls(F, bodies, ctors)
    ns = name_fns(F, bodies, calls)
    step_level = [c for c in calls]
    R.check(len(ns) == 1, "single-name-fn", root, "all test-event names come from one function",
            f"{len(ns)} different name functions feed test-event names: {[v[0].short for v in ns.values()]}")
    for key, (nb, uses) in ns.items():
        nested = F.nested(nb)
        ws = W.counter_writes(F, LT, nested)
        # transitive: crate-local callees that are Libtest methods
        for b in list(nested):
            for s, t in b.calls():
                cb = F.callee_body(t, b.crate)
                if cb is not None and cb.impl and cb.impl.get("self_adt") == LT and cb is not nb:
                    ws += W.counter_writes(F, LT, F.nested(cb))
        if ws:
            for w in ws:
                R.violation(f"name-fn-pure/{w.name}", w.site,
                            f"the test-case name function writes `{w.name}` of the writer: `started` and its result line are produced by "
                            "different invocations, so they get different names (a `started` without a matching result)")
        else:
            R.ok("name-fn-pure", nb, "name function has no effect on the writer's fields")
        # arguments must not depend on the event payload / metadata
        for b, cs, ct, v in uses:
            sl = A.slice_back(b, ct["args"][1:])
            bad = [b.locals[p] for p in sl.params if re.match(r"event::(Step|Hook|Metadata)\b", b.locals[p])]
            R.check(not bad, f"name-args-event-independent/{b.short.rsplit('::', 1)[-1]}", cs, "name depends on feature/rule/scenario/step/retries only",
                    f"the test-case name depends on {bad}: it differs between the `started` line and the result line")
            # ... and it names the ATTEMPT: the `Option<Retries>` it is given is the event's own (steps and hooks alike) — with a constant every
            # attempt of a retried scenario emits the same name: started N times, failures not attributable to their attempt
            for i, a in enumerate(ct["args"]):
                cbn = F.callee_body(ct, b.crate)
                ty = cbn.locals[i + 1] if cbn is not None and i + 1 < len(cbn.locals) else ""
                if not re.search(r"Option<event::Retries>", ty):
                    continue
                ds = A.deep_slice(F, b, [a])
                from_ev = ("event::RetryableScenario", "retries") in ds.fields or any(re.search(r"Option<event::Retries>", F.bodies[k].locals[pi]) for k, pi in ds.root_params if k in F.bodies)
                R.check(from_ev, f"name-carries-attempt/{b.short.rsplit('::', 1)[-1]}", cs, "the name is given the event's own retries",
                        "the test-case name of this event is built without the attempt's retry counter: all attempts of a retried scenario share one name")
    # every constructor's name arg comes from the name fn (or from a formatted parser-error name)
    for b, s, t, v in calls:
        sl = A.slice_back(b, [t["args"][0]])
        from_n = any(F.callee_body(ct, b.crate) is not None and F.callee_body(ct, b.crate).key in ns for _, ct in sl.calls)
        ctx = W.context(F, b, s, bodies, root)
        ladt, lvar = W.leaf(ctx)
        if ladt == "Result":
            R.ok(f"name-source/{v}@parser-error", s, "parser error name")
            continue
        R.check(from_n, f"name-source/{v}@{ladt}::{lvar}", s, "name produced by the name function", f"TestEvent::{v} under {ladt}::{lvar} is not named by the name function")
    R.floor(6)


def r2(F, R):
    root, bodies = W.handler_bodies(F, LT)
    ctors = test_event_ctors(F)
    calls = ctor_calls(F, bodies, ctors)
    n = 0
    for b, s, t, v in calls:
        if v != "Started":
            continue
        ctx = W.context(F, b, s, bodies, root)
        ladt, lvar = W.leaf(ctx)
        if ladt == "Step" and lvar == "Started":
            continue  # a real started: its result arrives with a later event
        n += 1
        inst = f"synthetic-started/{ladt}::{lvar}"
        # the same body builds exactly one result event under the same context, name = clone source
        sl = A.slice_back(b, [t["args"][0]])
        clones = [ct for _, ct in sl.calls if callee_is(ct, r"Clone::clone$")]
        src = None
        for ct in clones:
            l = op_local(ct["args"][0])
            if l is not None:
                cp = A.canon_place(b, {"l": l, "p": ["*"]})
                if not cp["p"]:
                    src = cp["l"]
        results = []
        for b2, s2, t2, v2 in calls:
            if b2 is b and v2 != "Started" and b.dominates(s, s2):
                c2 = W.context(F, b2, s2, bodies, root)
                if W.leaf(c2) == (ladt, lvar):
                    results.append((s2, t2, v2))
        ok = len(results) == 1 and src is not None
        if ok:
            s2, t2, v2 = results[0]
            a0 = op_local(t2["args"][0])
            ok = a0 is not None and A.canon_place(b, {"l": a0, "p": []})["l"] == src and v2 == "Failed"
        R.check(ok, inst, s, "started(name.clone()) is followed by exactly one failed(name) in the same batch",
                f"synthetic `started` under {ladt}::{lvar} is not paired with exactly one `failed` line carrying the same name (results: {[r[2] for r in results]})")
    R.check(n == 2, "synthetic-started-sites", root, "hook failure and parser error", f"{n} synthetic started sites (expected hook failure + parser error)")
    R.floor(3)


MANDATORY = {
    ("event::Step", "Passed"): {"passed"},
    ("event::Step", "Skipped"): {"ignored"},
    ("event::Step", "Failed"): {"failed", "retried"},
    ("event::Hook", "Failed"): {"hook_errors"},
    ("std::result::Result", "Err"): {"parsing_errors"},
}


def r3(F, R):
    from . import writers_deep as WD
    WD.check_counter_table(F, R, LT, TABLE, COUNTERS)
    WD.check_mandatory(F, R, LT, MANDATORY)
    root, bodies = W.handler_bodies(F, LT)
    ctors = test_event_ctors(F)
    calls = ctor_calls(F, bodies, ctors)
    want = {"Started": "Started", "Passed": "Ok", "Skipped": "Ignored", "Failed": "Failed"}
    got = {}
    for b, s, t, v in calls:
        ctx = W.context(F, b, s, bodies, root)
        ladt, lvar = W.leaf(ctx)
        if ladt == "Step":
            got.setdefault(lvar, []).append((v, s))
    for stepv, tev in want.items():
        g = got.get(stepv, [])
        # one line per path: several construction sites are fine when no path passes two of them (`if show_output {..} else {..}`)
        excl = all(a[1].body is c[1].body and a[1].bb != c[1].bb and c[1].bb not in a[1].body.reachable_blocks(a[1].bb) and a[1].bb not in a[1].body.reachable_blocks(c[1].bb)
                   for i, a in enumerate(g) for c in g[i + 1:])
        R.check(len(g) >= 1 and all(x[0] == tev for x in g) and excl, f"step-to-test-event/{stepv}", g[0][1] if g else root, f"Step::{stepv} -> one `{tev.lower()}` line",
                f"Step::{stepv} produces {[x[0] for x in g]} test events{'' if excl else ' on one path'}; expected exactly one `{tev}`")
    R.floor(12)


def r4(F, R):
    c01.r5(F, R)


def r5(F, R):
    """JUnit clause: the test case's outcome is decided by the last event that is not a Log / passing After-hook event, and a
    failure event always yields a `failure` test case (path tables of JUnit::test_case and of its selection closure)."""
    tcs = [b for b in F.crate_bodies() if (b.impl or {}).get("self_adt") == "writer::junit::JUnit" and not (b.impl or {}).get("trait") and
           any("TestCaseBuilder" in (callee_path(t) or "") for _, t in b.calls())]
    tcs = [b for b in tcs if any(re.search(r"event::RetryableScenario", ty) for ty in b.locals[1:b.arg_count + 1])]
    if len(tcs) != 1:
        raise Unverifiable(f"JUnit::test_case role: {len(tcs)}")
    b = tcs[0]

    def dec(p):
        out = {}
        for a, o in p.decisions:
            m = re.search(r":event::(\w+)\)$", a)
            if m:
                out[m.group(1)] = o
        return out
    # which events may be passed over when looking (from the end) for the event that decides the outcome — decided on deep
    # path tables: of the bool selection closure(s) (`events.iter().rev().find(|ev| !matches!(..))`), or, for the explicit
    # loop spelling, of the routine that loops over the reversed events (a path that goes round the loop skipped its event)
    from . import deep as D
    fam = roles.family(F, b)

    def shape(dp, p, root_pred):
        d = {}
        for a, o in p.conds:
            if a[0] == "discr" and isinstance(o, str) and root_pred(a[1]):
                adt = dp.adt_of.get(a, "")
                if adt.startswith("event::"):
                    d[adt.rsplit("::", 1)[-1]] = o
        return d

    def harmless(d):
        return d.get("Scenario") == "Log" or (d.get("Scenario") == "Hook" and set((d.get("Hook") or "?").split("|")) <= {"Passed", "Started"} and d.get("HookType") in (None, "After"))
    sel = [nb for nb in fam if nb.kind == "Closure" and nb.locals[0] == "bool" and any("event::RetryableScenario" in ty or "event::Scenario" in ty for ty in nb.locals[1:nb.arg_count + 1])]
    skipped_failed = []
    n_sel = 0
    for kb in sel:
        dp = D.Deep(F, kb, max_paths=400)
        for p in dp.run():
            d = shape(dp, p, lambda t: D.mentions(t, lambda x: x == ("arg", 2)))
            if not d:
                continue
            n_sel += 1
            if p.ret == ("const", False) and not harmless(d):
                skipped_failed.append(d)
    if not sel:
        for fb in fam:
            if fb.is_coroutine or not any(callee_is(t, r"Iterator::next$") and "Rev<" in (op_fn(t["func"]) or {}).get("self", "") for _, t in fb.calls()):
                continue
            rev_sites = [s_ for s_, t in fb.calls(lambda t: callee_is(t, r"Iterator::next$") and "Rev<" in (op_fn(t["func"]) or {}).get("self", ""))]
            rev_bbs = {s_.bb for s_ in rev_sites}
            search_loop = set().union(*[set(A.natural_loop(fb, s_.bb)) for s_ in rev_sites])
            returns_option = fb.locals[0].startswith("std::option::Option<")
            dp = D.Deep(F, fb, inline=False, max_paths=2000)
            for p in dp.run():
                # (only the `next()` of the reversed search counts: the routine may loop over the events again further down)
                nx = [("call", e[1], e[2], e[4]) for e in p.effects if e[0] == "call" and re.search(r"Iterator::next$", e[1]) and e[3][1] in rev_bbs]
                if not nx:
                    continue
                d = shape(dp, p, lambda t: D.mentions(t, lambda x: x == nx[-1]))
                if not d:
                    continue
                n_sel += 1
                went_round = (p.cut or (isinstance(p.ret, tuple) and p.ret and p.ret[0] == "loop")) and isinstance(p.ret, tuple) and len(p.ret) == 3 and p.ret[2] in search_loop
                if went_round and not harmless(d):
                    skipped_failed.append(d)
                if returns_option and not p.cut and D.is_variant(p.ret, "std::option::Option", "None"):
                    skipped_failed.append({"?": "an examined event ends the search with None"})
    R.check(n_sel >= 4 and not skipped_failed, "junit/outcome-event-selection", sel[0] if sel else b, "only Log and non-failing After-hook events are skipped",
            f"JUnit skips {skipped_failed[:2]} when choosing the event that decides a test case's result: that failure is reported as success")
    # (event deciding the outcome -> kind of test case), on the routine's deep table cut at the TestCaseBuilder constructions: the shape is what
    # the row learned LAST about an event (the scrutinee of the final match — an earlier search loop may have looked at other events)
    table = {}
    builders = {s_.bb: callee_path(t).rsplit("::", 1)[-1] for s_, t in b.calls(lambda t: "TestCaseBuilder" in (callee_path(t) or "") and not callee_path(t).endswith("::build"))}
    dpt = D.Deep(F, b, inline=False, max_paths=6000)
    dpt.stop_term = frozenset(builders)
    for p in dpt.run():
        if not (isinstance(p.ret, tuple) and p.ret and p.ret[0] == "reached"):
            continue
        sc_conds = [(a, o) for a, o in p.conds if a[0] == "discr" and isinstance(o, str) and dpt.adt_of.get(a, "") == "event::Scenario"]
        if not sc_conds:
            continue
        scrut, sc_v = sc_conds[-1]
        sub = [o for a, o in p.conds if a[0] == "discr" and isinstance(o, str) and dpt.adt_of.get(a, "") in ("event::Step", "event::Hook") and D.mentions(a[1], lambda x: x == scrut[1])]
        for k1 in sc_v.split("|"):
            for s1 in (sub[-1].split("|") if sub else [None]):
                table.setdefault((k1, s1), set()).add((builders[p.ret[1]],))
    bad = []
    for (sc, v), ks in table.items():
        want = ("failure",) if v == "Failed" else (("skipped",) if v == "Skipped" else ("success",))
        if ks != {want}:
            bad.append(((sc, v), sorted(ks)))
    need = {("Hook", "Failed"), ("Step", "Failed"), ("Background", "Failed"), ("Step", "Skipped"), ("Background", "Skipped"), ("Step", "Passed")}
    R.check(not bad and need <= set(table), "junit/outcome-table", b, f"{len(table)} (event -> test case kind) rows", f"JUnit test case kinds: {bad[:3]} (missing rows: {sorted(need - set(table))})")
    R.floor(2)


def _container_field(F, b, op):
    """{(owner, field)}: the innermost json:: field the operand (a reference to a list) denotes."""
    l = op_local(op)
    if l is None:
        return set()
    body2, cp = A.canon_place_deep(F, b, {"l": l, "p": ["*"]})
    fs = [(o, n) for o, n in place_fields(cp) if o.startswith("writer::json::")]
    return {fs[-1]} if fs else set()


def r6(F, R):
    """Cucumber JSON: every step / hook lands in the entry of its own feature and scenario — before a new `Feature` / `Element` entry
    is pushed, the existing entries of that very list are ALL searched (position / find over `iter()`); taking just the last entry is
    wrong as soon as a parser error (pushed into the same list, forwarded at once) arrives mid-feature."""
    JS = "writer::json::"
    pushes = []
    for b in F.crate_bodies():
        if (F.root_fn(b).impl or {}).get("self_adt") != JS + "Json":
            continue
        for s, t in b.calls(lambda t: callee_is(t, r"Vec::<.*>::push$")):
            l = op_local(t["args"][1]) if len(t["args"]) > 1 else None
            ety = b.locals[l] if l is not None else ""
            if ety in (JS + "Feature", JS + "Element"):
                fs = _container_field(F, b, t["args"][0])
                pushes.append((b, s, t, ety, fs))
    if not pushes:
        if any(b.name.startswith(JS) for b in F.crate_bodies()):
            raise Unverifiable("no push of a json::Feature / json::Element entry found")
        return
    n = 0
    for b, s, t, ety, fs in pushes:
        if "new" in b.name.rsplit("::", 1)[-1] or not fs:
            continue   # constructors fill a fresh list
        if any((g.cond_def() or [None])[0] == "discr" and g.variants() == {"Err"} for g in A.guards_of(b, s)):
            continue   # a parser error is always an entry of its own
        root = F.root_fn(b)
        found = False
        for nb in F.nested(root):
            for s2, t2 in nb.calls(lambda t2: callee_is(t2, r"Iterator::(position|rposition|find|find_map|any)$")):
                ch = A.receiver_chain(nb, t2["args"][0])
                its = [c for _, c in ch if callee_is(c, r"::iter(_mut)?$|IntoIterator::into_iter$")]
                rf = _container_field(F, nb, ch[-1][1]["args"][0]) if its and ch[-1][1]["args"] else set()
                if rf & fs:
                    found = True
        if not found:
            # explicit-loop spelling: `for (i, f) in list.iter().enumerate() { if .. { break } }`
            for nb in F.nested(root):
                for s2, t2 in nb.calls(lambda t2: callee_is(t2, r"Iterator::next$")):
                    if not nb.in_cycle(s2) or not t2["args"]:
                        continue
                    ch = A.receiver_chain(nb, t2["args"][0])
                    its = [c for _, c in ch if callee_is(c, r"::iter(_mut)?$|IntoIterator::into_iter$")]
                    if its and ch[-1][1]["args"] and _container_field(F, nb, ch[-1][1]["args"][0]) & fs:
                        found = True
        n += 1
        kind = ety.rsplit("::", 1)[-1]
        R.check(found, f"json/entry-searched-among-all/{kind}", s, f"existing {kind} entries are searched before a new one is pushed",
                f"a new json::{kind} entry is pushed without searching all existing entries of {sorted(n_ for _, n_ in fs)}: events of one {kind.lower()} can be split over duplicate entries")
    R.floor(2)


# ---- R7: Cucumber JSON — what is recorded per event (deep path table of Json::handle_event) ---------------------------------
JSON_STEP_STATUS = {("Passed", None): "Passed", ("Skipped", None): "Skipped", ("Failed", "NotFound"): "Undefined",
                    ("Failed", "AmbiguousMatch"): "Ambiguous", ("Failed", "Panic"): "Failed"}


class JsonTable:
    """Rows of `<Json as Writer>::handle_event` with the writer's own private methods inlined and the element look-up (the
    method returning `&mut Element`) kept as one opaque call; per row: the shape of the event and what is pushed where."""
    JS = "writer::json::Json"

    def __init__(self, F):
        from . import deep as D
        from .termtypes import Typer, strip_refs
        self.F, self.D = F, D
        hs = [b for a, b in roles.trait_impl_methods(F, r"^writer::Writer$", "handle_event") if a == self.JS]
        if len(hs) != 1:
            raise Unverifiable(f"Writer::handle_event for Json: {len(hs)}")
        self.fn = hs[0]
        self.co = roles.coroutine_of(F, hs[0])
        own = lambda cb: bool(cb.impl and cb.impl.get("self_adt") == self.JS and not cb.impl.get("trait"))
        self.lookups = [b for b in F.crate_bodies() if own(b) and (strip_refs(b.locals[0]) or "").startswith("writer::json::Element")]
        opq = "^(" + "|".join(re.escape(b.name) for b in self.lookups) + ")$" if self.lookups else None
        # (also inlined: private classifiers of the json types that look at an event value — `Status::of_error(&StepError)` — so that the rows
        # split by what they split by in the inline spelling)
        classif = lambda cb: bool(cb.impl and (cb.impl.get("self_adt") or "").startswith("writer::json::") and not cb.impl.get("trait") and cb.kind in ("Fn", "AssocFn")
                                  and any("event::" in ty for ty in cb.locals[1:cb.arg_count + 1]) and len(cb.blocks) < 60)
        self.dp = D.Deep(F, self.co, inline_only=lambda cb: own(cb) or classif(cb), opaque=opq, max_paths=6000)
        self.rows = self.dp.run()
        if not self.rows or any(p.cut for p in self.rows):
            raise Unverifiable("Json::handle_event: empty path table or a loop")
        self.T = Typer(F, self.co, self.dp)

    def shape(self, p):
        d = {}
        for a, o in p.conds:
            if a[0] == "discr" and isinstance(o, str):
                adt = self.dp.adt_of.get(a, "")
                if adt.startswith("event::") or adt in ("std::result::Result", "parser::Error"):
                    d.setdefault(adt.rsplit("::", 1)[-1], o)
        return d

    def pushes(self, p):
        """[(list name, list path, value term, effect)] of every Vec::push / insert / extend of the row."""
        out = []
        for e in p.effects:
            if e[0] == "call" and re.search(r"Vec::<.*>::(push|insert|extend|append)$|Extend::extend$", e[1]) and len(e[2]) >= 2:
                tgt, val = e[2][0], e[2][-1]
                path = self.T.path(tgt)
                name = path.rsplit(".", 1)[-1] if path and "." in path else None
                if name is None:
                    # look-up written in place: name the list by its index in json::Element
                    from .termtypes import place_term
                    pt = place_term(tgt[1]) if isinstance(tgt, tuple) and tgt[0] == "ref" else None
                    if pt is not None and pt[0] == "field":
                        ent = self.T.fm.get(("writer::json::Element", pt[2]))
                        name = ent[0] if ent else None
                recorded = (path is not None and (path.startswith("self.") or ")." in path)) or (path is None and name is not None)
                if recorded:    # (pushes into local vectors are not records)
                    out.append((name, path, val, e))
        return out

    def field(self, v, adt, name):
        """Field `name` of an aggregate term of struct `adt`."""
        a = self.F.adt(adt)
        if a is None or not self.D.is_variant(v, adt):
            return None
        names = [f["name"] for f in a["variants"][0]["fields"]]
        return v[3][names.index(name)] if name in names and len(v[3]) == len(names) else None


def r7(F, R):
    """Cucumber JSON: per event shape, exactly the matching entry is recorded — a step result goes once into `steps` of the element
    found for the event's own feature / rule / scenario (type `background` for background steps), with the status the event states
    (Passed / Skipped / Failed, Undefined for not-found, Ambiguous for an ambiguous match), the step's own keyword / line / text, the
    failure message iff it failed and the logs collected so far; a hook result goes once into `before` / `after` according to its type;
    `Started` events record nothing; a parser error becomes one entry of the feature list; the document is written on run-Finished only."""
    if not any(b.name.startswith("writer::json::") for b in F.crate_bodies()):
        return
    D = __import__("rules.deep", fromlist=["x"]) if False else None
    from . import deep as D
    J = JsonTable(F)
    T, co = J.T, J.co
    def logs_attached(p, emb):
        """The entry's embeddings derive from the buffered logs: the term mentions `self.logs`, or (built by an explicit loop, so
        the vector's content is not a term) the row reads / takes the buffer and the embeddings are not an empty literal."""
        if emb is None:
            return False
        if "self.logs" in T.roots(emb):
            return True
        empty = isinstance(emb, tuple) and emb and emb[0] == "call" and re.search(r"Vec::<.*>::new$|Default::default$", emb[1]) and not emb[2]
        reads = [e for e in p.effects if e[0] == "call" and not re.search(r"Vec::<.*>::(push|clear|len|is_empty|capacity)$", e[1]) and any("self.logs" in T.roots(a) for a in e[2])]
        return bool(reads) and not empty
    seen_step, seen_hook = set(), set()
    n_started = 0
    n_quiet_bad = []
    fin_rows = err_rows = 0
    boundary = {}
    for p in J.rows:
        d = J.shape(p)
        ps = J.pushes(p)
        el_pushes = [x for x in ps if x[0] in ("steps", "before", "after")]
        lvl = d.get("Feature")
        kind = d.get("Scenario")
        is_sc = d.get("Cucumber") == "Feature" and (lvl == "Scenario" or (lvl == "Rule" and d.get("Rule") == "Scenario"))
        lookup = [e for e in p.effects if e[0] == "call" and any(e[1] == b.name for b in J.lookups)]
        outw = [e for e in p.effects if e[0] == "call" and re.search(r"serde_json::|io::Write::write", e[1])]
        if d.get("Cucumber") == "Finished":
            fin_rows += 1
            ser = [e for e in outw if "serde_json::" in e[1]]
            wr = [e for e in outw if "Write::write" in e[1]]
            ok = len(ser) == 1 and "self.features" in T.roots(ser[0][2]) and \
                (re.search(r"to_writer", ser[0][1]) and "self.output" in T.roots(ser[0][2]) or (len(wr) == 1 and "self.output" in T.roots(wr[0][2]) and
                                                                                               D.mentions(wr[0][2], lambda x: x[0] == "call" and x[3] == ser[0][4])))
            R.check(bool(ok) and not ps, "json/document-written-on-finished", co, "run-Finished serialises `features` into `output`, once",
                    "on run-Finished the JSON writer does not serialise its `features` list into its output exactly once")
            continue
        if outw:
            n_quiet_bad.append(("writes the document", d))
        if d.get("Result") == "Err":
            err_rows += 1
            ok = len(ps) == 1 and ps[0][1] == "self.features" and any(r.startswith("event@Err") for r in T.roots(ps[0][2]))
            R.check(ok, f"json/parser-error-entry/{d.get('Error')}", co, "a parser error becomes one entry of the feature list, built from the error",
                    f"a parser error ({d.get('Error')}) is not recorded as exactly one entry of `features` built from that error")
            continue
        if not is_sc:
            if ps or lookup:
                n_quiet_bad.append(("records something", d))
            continue
        ev = None  # path of the scenario event
        # expected look-up arguments: the event's own feature, rule (rule-level only), scenario
        def check_lookup(want_ty, inst):
            if not J.lookups:
                return True
            if len(lookup) != 1:
                return False
            args = []
            for a in lookup[0][2]:
                # a private parameter struct (`ScenarioRef { feature, rule, scenario }`) stands for its fields
                if isinstance(a, tuple) and len(a) == 4 and a[0] == "variant" and a[1].startswith("writer::json::") and not a[1].startswith("std::"):
                    args.extend(a[3])
                else:
                    args.append(a)
            roots = [T.roots(a) for a in args]
            consts = [x[1] for a in args if isinstance(a, tuple) and a and a[0] in ("const", "ref", "refto", "deref") for x in D.subterms(a) if x[0] == "const" and isinstance(x[1], str)]
            feat = any(any(r.endswith("@Feature.0") for r in rs) for rs in roots)
            scen = any(any(re.search(r"@Scenario\.0$", r) for r in rs) for rs in roots)
            rule_terms = [a for a in args if D.is_variant(a, "std::option::Option")]
            if lvl == "Rule":
                rule = len(rule_terms) == 1 and rule_terms[0][2] == "Some" and any(r.endswith("@Rule.0") for r in T.roots(rule_terms[0]))
            else:
                rule = len(rule_terms) == 1 and rule_terms[0][2] == "None"
            return feat and scen and rule and consts == [want_ty]
        if kind in ("Background", "Step"):
            sv = d.get("Step")
            if sv == "Started":
                n_started += 1
                R.check(not el_pushes, f"json/nothing-recorded/{lvl}/{kind}::Started", co, "Step::Started records no result", "a Step::Started event records a step / hook result")
                continue
            key = (sv, d.get("StepError") if sv == "Failed" else None)
            want = JSON_STEP_STATUS.get(key)
            inst = f"json/step/{lvl}/{kind}/{sv}" + (f"/{key[1]}" if key[1] else "")
            seen_step.add((lvl, kind) + key)
            if want is None:
                R.violation(inst, co, f"unexpected step event shape {d}")
                continue
            ok = len(el_pushes) == 1 and el_pushes[0][0] == "steps" and len(ps) == 1
            why = f"{[x[0] for x in ps]} pushes (expected one into `steps`)"
            if ok:
                v = el_pushes[0][2]
                res = J.field(v, "writer::json::Step", "result")
                st = J.field(res, "writer::json::RunResult", "status") if res is not None else None
                em = J.field(res, "writer::json::RunResult", "error_message") if res is not None else None
                ok = st is not None and D.is_variant(st, "writer::json::Status", want)
                why = f"status is {D.fmt(co, st)[:60]} (expected Status::{want})"
                if ok:
                    src = f"@{kind}.0"
                    nm, ln, kw = (T.roots(J.field(v, "writer::json::Step", f) or ()) for f in ("name", "line", "keyword"))
                    ok = len(nm) == 1 and all(r.endswith(src + ".value") for r in nm) and len(ln) == 1 and all(r.endswith(src + ".position.line") for r in ln) and \
                        len(kw) == 1 and all(r.endswith(src + ".keyword") for r in kw)
                    why = f"name / line / keyword are taken from {sorted(nm)} / {sorted(ln)} / {sorted(kw)} (expected the event's own step: value / position.line / keyword)"
                if ok:
                    if sv == "Failed":
                        ok = D.is_variant(em, "std::option::Option", "Some") and any(re.search(r"@Failed\.3$", r) for r in T.roots(em))
                        why = "a failed step carries no error message built from the event's error"
                    else:
                        ok = D.is_variant(em, "std::option::Option", "None")
                        why = f"a {sv} step carries an error message"
                if ok:
                    ok = logs_attached(p, J.field(v, "writer::json::Step", "embeddings"))
                    why = "the logs collected for this step are not attached to it"
                if ok:
                    ok = check_lookup("background" if kind == "Background" else "scenario", inst)
                    why = f"the element is not looked up with the event's own feature / rule / scenario and type `{'background' if kind == 'Background' else 'scenario'}`"
            R.check(ok, inst, co, f"one json::Step with Status::{want} in the right element", f"Cucumber JSON, {lvl}-level {kind} step {sv}{'/' + key[1] if key[1] else ''}: {why}")
        elif kind == "Hook":
            hv = d.get("Hook")
            if hv == "Started":
                n_started += 1
                R.check(not el_pushes, f"json/nothing-recorded/{lvl}/Hook::Started", co, "Hook::Started records no result", "a Hook::Started event records a step / hook result")
                continue
            ht = d.get("HookType")
            inst = f"json/hook/{lvl}/{ht}/{hv}"
            seen_hook.add((lvl, ht, hv))
            ok = len(el_pushes) == 1 and len(ps) == 1 and el_pushes[0][0] == (ht or "").lower()
            why = f"recorded in {[x[0] for x in ps]} (expected once in `{(ht or '?').lower()}`)"
            if ok:
                v = el_pushes[0][2]
                res = J.field(v, "writer::json::HookResult", "result")
                st = J.field(res, "writer::json::RunResult", "status") if res is not None else None
                em = J.field(res, "writer::json::RunResult", "error_message") if res is not None else None
                ok = st is not None and D.is_variant(st, "writer::json::Status", hv)
                why = f"status is {D.fmt(co, st)[:60]} (expected Status::{hv})"
                if ok and hv == "Failed":
                    ok = D.is_variant(em, "std::option::Option", "Some") and any(re.search(r"@Failed\.1$", r) for r in T.roots(em))
                    why = "a failed hook carries no error message built from the event's panic payload"
                elif ok:
                    ok = D.is_variant(em, "std::option::Option", "None")
                    why = "a passed hook carries an error message"
                if ok:
                    ok = logs_attached(p, J.field(v, "writer::json::HookResult", "embeddings"))
                    why = "the logs collected for this hook are not attached to it"
                if ok:
                    ok = check_lookup("scenario", inst)
                    why = "the element is not looked up with the event's own feature / rule / scenario and type `scenario`"
            R.check(ok, inst, co, f"one HookResult with Status::{hv} in `{(ht or '').lower()}`", f"Cucumber JSON, {lvl}-level {ht} hook {hv}: {why}")
        elif kind == "Log":
            ok = len(ps) == 1 and ps[0][1] == "self.logs" and any(r.endswith("@Log.0") for r in T.roots(ps[0][2]))
            R.check(ok, f"json/log-buffered/{lvl}", co, "a Log event's text is appended to `logs`", "a Log event's text is not appended (once) to the writer's `logs` buffer")
        else:
            if el_pushes:
                n_quiet_bad.append(("records a result", d))
            if kind in ("Started", "Finished"):
                emptied = any((e[0] == "call" and re.search(r"Vec::<.*>::(clear|drain|truncate)$|mem::(take|replace)$", e[1]) and e[2] and "self.logs" in T.roots(e[2][0]))
                              or (e[0] == "write" and T.path(e[1]) == "self.logs") for e in p.effects)
                boundary.setdefault(kind, []).append(emptied)
    # a log buffered during one scenario must not end up in an entry of the next one: the buffer is emptied at a scenario boundary
    bok = any(v and all(v) for v in boundary.values())
    R.check(bok, "json/logs-do-not-cross-scenarios", co, "the log buffer is emptied on every Scenario::" + "/".join(k for k, v in boundary.items() if v and all(v)),
            "neither Scenario::Finished nor Scenario::Started empties the `logs` buffer on every path: a log arriving after a scenario's last step / hook "
            "is attached to the first step or hook of the NEXT scenario, where it did not happen")
    R.check(not n_quiet_bad, "json/nothing-else-recorded", co, "bracket / Started / Finished events record nothing and write nothing",
            f"events that carry no step or hook result change the report: {n_quiet_bad[:3]}")
    want_steps = {(l, k) + key for l in ("Rule", "Scenario") for k in ("Background", "Step") for key in JSON_STEP_STATUS}
    want_hooks = {(l, t, v) for l in ("Rule", "Scenario") for t in ("Before", "After") for v in ("Passed", "Failed")}
    R.check(seen_step == want_steps and seen_hook == want_hooks and fin_rows == 1 and err_rows >= 1 and n_started >= 6, "json/table-complete", co,
            f"{len(seen_step)} step shapes, {len(seen_hook)} hook shapes", f"rows missing from the JSON writer's table: steps {sorted(want_steps - seen_step)[:3]} hooks {sorted(want_hooks - seen_hook)[:3]} "
            f"(finished rows {fin_rows}, parser-error rows {err_rows}, started rows {n_started})")
    R.floor(35)


# ---- R8: JUnit — buffering and bracket bookkeeping (deep path table of JUnit::handle_event) ---------------------------------
def r8(F, R):
    """JUnit XML: every scenario event but Finished is buffered exactly once (the event itself), Scenario::Finished turns exactly the
    buffered events (taken, so the buffer is empty again) into one test case — built for the event's own feature / rule / scenario — added
    to the open suite; Feature::Started opens a suite named after the feature, Feature::Finished moves it (once) into the report; a parser
    error becomes one suite of the report; the XML is written on run-Finished and nowhere else; other events record nothing."""
    if not any(b.name.startswith("writer::junit::") for b in F.crate_bodies()):
        return
    from . import deep as D
    from .termtypes import Typer, strip_refs
    JU = "writer::junit::JUnit"
    hs = [b for a, b in roles.trait_impl_methods(F, r"^writer::Writer$", "handle_event") if a == JU]
    if len(hs) != 1:
        raise Unverifiable(f"Writer::handle_event for JUnit: {len(hs)}")
    co = roles.coroutine_of(F, hs[0])
    own = lambda cb: bool(cb.impl and cb.impl.get("self_adt") == JU and not cb.impl.get("trait"))
    tcs = [b for b in F.crate_bodies() if own(b) and re.search(r"(^|::)TestCase$", strip_refs(b.locals[0]) or "")]
    if len(tcs) != 1:
        raise Unverifiable(f"JUnit test-case builder role: {len(tcs)}")
    tc = tcs[0]
    quiet = [b for b in F.crate_bodies() if own(b) and b is not tc and not any(re.search(r"Vec::<.*>::push$|add_test(case|suite)$|write_xml$|mem::take$", callee_path(t) or "")
                                                                                for nb in F.nested(b) for _, t in nb.calls())
             and not any(F.callee_body(t, b.crate) is not None and own(F.callee_body(t, b.crate)) for nb in F.nested(b) for _, t in nb.calls())
             # (a helper that assigns one of the writer's fields, or hands out a `&mut` into it, is not quiet: `start_suite`, `current_suite_mut`)
             and not any(st["pl"]["l"] == 1 and "*" in st["pl"]["p"] and any(isinstance(e, dict) and "f" in e for e in st["pl"]["p"]) for _, st in b.assigns())
             and not b.locals[0].startswith("&mut ")]
    opq = "^(" + "|".join(re.escape(b.name) for b in [tc] + quiet) + ")$"
    dp = D.Deep(F, co, inline_only=own, opaque=opq, max_paths=6000)
    rows = dp.run()
    if not rows or any(p.cut for p in rows):
        raise Unverifiable("JUnit::handle_event: empty path table or a loop")
    T = Typer(F, co, dp)

    def shape(p):
        d = {}
        for a, o in p.conds:
            if a[0] == "discr" and isinstance(o, str):
                adt = dp.adt_of.get(a, "")
                if adt.startswith("event::") or adt == "std::result::Result":
                    d.setdefault(adt.rsplit("::", 1)[-1], o)
        return d
    seen = set()
    for p in rows:
        d = shape(p)
        calls = [e for e in p.effects if e[0] == "call"]
        pushes = [e for e in calls if re.search(r"Vec::<.*>::(push|insert|extend)$", e[1])]
        addcase = [e for e in calls if re.search(r"(^|::)TestSuite::add_testcase$", e[1])]
        addsuite = [e for e in calls if re.search(r"add_testsuite$", e[1])]
        wxml = [e for e in calls if re.search(r"write_xml$|io::Write::write", e[1])]
        tcc = [e for e in calls if e[1] == tc.name]
        suit_writes = [e for e in p.effects if e[0] == "write" and (T.path(("ref", e[1])) or "") == "self.suit"]
        lvl = d.get("Feature")
        is_sc = d.get("Cucumber") == "Feature" and (lvl == "Scenario" or (lvl == "Rule" and d.get("Rule") == "Scenario"))
        if d.get("Result") == "Err":
            seen.add("Err")
            ok = len(addsuite) == 1 and not addcase and not wxml and "self.report" in T.roots(addsuite[0][2][0]) and \
                any(re.search(r"TestCase::failure$", e[1]) and any(r.startswith("event@Err") or r.startswith("err") for r in T.roots(e[2])) for e in calls)
            R.check(ok, "junit/parser-error-suite", co, "a parser error becomes one suite holding one failure built from the error",
                    "a parser error is not recorded as exactly one test suite holding a failure case built from that error")
            if ok:
                fresh = D.mentions(addsuite[0][2][1], lambda x: isinstance(x, tuple) and len(x) == 4 and x[0] == "call" and re.search(r"TestSuiteBuilder::new$", x[1]) is not None) and \
                    not any(r.startswith("self.") for r in T.roots(addsuite[0][2][1]))
                R.check(fresh, "junit/parser-error-suite-is-fresh", co, "the suite of a parser error is built anew for it",
                        "the suite added for a parser error is built from state kept in the writer (a builder that accumulates): the N-th parser error is reported with errors 1..N again")
        elif d.get("Cucumber") == "Finished":
            seen.add("Finished")
            ok = len(wxml) == 1 and {"self.report", "self.output"} <= T.roots(wxml[0][2]) and not addcase and not addsuite and not pushes
            R.check(ok, "junit/document-written-on-finished", co, "run-Finished writes the report into `output`, once", "on run-Finished the JUnit writer does not write its report into its output exactly once")
        elif is_sc and (d.get("Scenario") or "") != "Finished":
            kinds = set((d.get("Scenario") or "?").split("|"))
            seen |= {(lvl, k) for k in kinds}
            ok = len(pushes) == 1 and (T.path(pushes[0][2][0]) == "self.events") and any(re.search(r"@Scenario\.1$", r) for r in T.roots(pushes[0][2][1])) and \
                not addcase and not addsuite and not wxml and not tcc
            R.check(ok, f"junit/buffered-once/{lvl}/{'|'.join(sorted(kinds))}", co, "the scenario event itself is appended once to `events`",
                    f"JUnit: a {lvl}-level scenario event ({sorted(kinds)}) is not appended exactly once (as it is) to the buffer the test case is built from")
            if kinds == {"Started"}:
                # every attempt's Started records its start time (Finished takes it — and panics when it is missing): on every row, not only
                # for the first attempt
                stamped = [e for e in p.effects if e[0] == "write" and (T.path(("ref", e[1])) or "").startswith("self.") and D.is_variant(e[2], "std::option::Option", "Some")]
                R.check(bool(stamped), f"junit/started-stamps-time/{lvl}", co, "Scenario::Started stores the start time on every path",
                        "a Scenario::Started (e.g. of a retried attempt) does not store the start time its Finished takes: the writer panics on that Finished and no XML is produced")
        elif is_sc:
            seen.add((lvl, "Finished"))
            take = [e for e in calls if re.search(r"mem::(take|replace)$|Vec::<.*>::drain$|split_off$", e[1]) and "self.events" in T.roots(e[2])]
            ok = len(tcc) == 1 and len(addcase) == 1 and len(take) == 1 and not pushes and not wxml and not addsuite
            why = f"{len(tcc)} test cases built, {len(addcase)} added, buffer taken {len(take)} times"
            if ok:
                args = tcc[0][2]
                takeu = take[0][4]
                from_buf = any(D.mentions(a, lambda x: x[0] == "call" and x[3] == takeu) for a in args)
                feat = any(any(r.endswith("@Feature.0") for r in T.roots(a)) for a in args)
                scen = any(any(re.search(r"@Scenario\.0$", r) for r in T.roots(a)) for a in args)
                rt = [a for a in args if D.is_variant(a, "std::option::Option")]
                rule = len(rt) == 1 and ((lvl == "Rule" and rt[0][2] == "Some" and any(r.endswith("@Rule.0") for r in T.roots(rt[0]))) or (lvl != "Rule" and rt[0][2] == "None"))
                into = any(r.startswith("self.suit") for r in T.roots(addcase[0][2][0])) and D.mentions(addcase[0][2][1], lambda x: x[0] == "call" and x[3] == tcc[0][4])
                ok = from_buf and feat and scen and rule and into
                why = f"test case built from the taken buffer: {from_buf}; own feature / scenario / rule: {feat} / {scen} / {rule}; added to the open suite: {into}"
            R.check(ok, f"junit/test-case-on-finished/{lvl}", co, "one test case from exactly the buffered events, added to the open suite",
                    f"JUnit, {lvl}-level Scenario::Finished: {why}")
        elif d.get("Cucumber") == "Feature" and lvl == "Started":
            seen.add("Feature::Started")
            ok = len(suit_writes) == 1 and D.is_variant(suit_writes[0][2], "std::option::Option", "Some") and any(r.endswith(".name") or r.endswith("@Feature.0") for r in T.roots(suit_writes[0][2]) | set().union(*[T.roots(e[2]) for e in calls])) \
                and not addcase and not addsuite and not wxml and not pushes
            R.check(ok, "junit/suite-opened", co, "Feature::Started opens a suite named after the feature", "Feature::Started does not open exactly one test suite named after the feature")
        elif d.get("Cucumber") == "Feature" and lvl == "Finished":
            seen.add("Feature::Finished")
            ok = len(addsuite) == 1 and "self.report" in T.roots(addsuite[0][2][0]) and any(r.startswith("self.suit") for r in T.roots(addsuite[0][2][1])) and \
                not any(D.is_variant(w[2], "std::option::Option", "Some") for w in suit_writes) and not addcase and not wxml and not pushes
            R.check(ok, "junit/suite-closed-into-report", co, "Feature::Finished moves the open suite into the report, once", "Feature::Finished does not move the open suite into the report exactly once")
        else:
            ok = not (pushes or addcase or addsuite or wxml or tcc or suit_writes)
            R.check(ok, "junit/nothing-else-recorded/" + "/".join(f"{k}={v}" for k, v in sorted(d.items())), co, "records nothing", f"an event that carries no result changes the JUnit report: {d}")
    want = {"Err", "Finished", "Feature::Started", "Feature::Finished"} | {(l, k) for l in ("Rule", "Scenario") for k in ("Started", "Hook", "Background", "Step", "Log", "Finished")}
    R.check(want <= seen, "junit/table-complete", co, f"{len(seen)} event shapes", f"rows missing from the JUnit writer's table: {sorted(map(str, want - seen))[:4]}")
    R.floor(12)


# ---- R9: plain terminal writer — which printing routine serves which event (dispatch table + style sets) -------------------
def r9(F, R):
    """Terminal writer (writer::Basic): per scenario-event shape exactly one printing routine is called — for the event's own step, and
    for a failure with the event's error — and it is the routine of the matching status: the routine serving Passed prints in the `ok`
    style (never `err` / `skipped`), the one serving Skipped in `skipped`, the ones serving Failed steps and hooks in `err`; Hook
    Started / Passed and Scenario::Finished print nothing; a Log prints its message; Scenario::Started prints the scenario's name."""
    from . import deep as D
    from .termtypes import Typer
    BA = "writer::basic::Basic"
    own = lambda cb: bool(cb.impl and cb.impl.get("self_adt") == BA and not cb.impl.get("trait"))
    disp = [b for b in F.crate_bodies() if own(b) and any("event::RetryableScenario" in t for t in b.locals[1:b.arg_count + 1])]
    if len(disp) != 1:
        raise Unverifiable(f"Basic's scenario-event dispatcher: {len(disp)}")
    disp = disp[0]
    WRITE = r"WriteStrExt::write_line$|io::Write::write(_all|_fmt)?$|WriteStrExt::write_str$"

    def prints_directly(b):
        return any(callee_is(t, WRITE) for nb in F.nested(b) for _, t in nb.calls())

    STY = r"writer::out::Styles::(\w+)$"

    def built_variants(fb, adt, depth=0):
        """Variants of crate-local enum `adt` the fn may return (aggregates built in it or in the local fns it calls for the value); None = any."""
        out = set()
        for nb in F.nested(fb):
            for _, st_ in nb.assigns(lambda st_: st_["rv"]["k"] == "agg" and st_["rv"].get("adt") == adt):
                out.add(st_["rv"]["variant"])
            for _, t in nb.calls():
                cb = F.callee_body(t, nb.crate)
                if cb is not None and cb is not fb and depth < 2 and re.sub(r"<.*", "", cb.locals[0]) == adt:
                    sub = built_variants(cb, adt, depth + 1)
                    if sub is None:
                        return None
                    out |= sub
        return out or None

    fuzzy_styles = {}

    def styles_of(b, restrict=None, depth=0):
        """Names of the `Styles::` methods the routine may call — in its own body and closures, and in the module-private fns it calls;
        a callee that dispatches on a private enum argument (`paint.apply(..)`) contributes only the arms of the variants that argument can
        hold at that call (the variants its producer builds).  `restrict`: {param local: allowed variants} for the body itself."""
        out = set()
        for nb in F.nested(b):
            for site, t in nb.calls():
                if restrict and nb is b:
                    dead = False
                    for g in A.guards_of(nb, site):
                        cd = g.cond_def()
                        if cd and cd[0] == "discr":
                            cp = A.canon_place(nb, cd[1])
                            if not [e for e in cp["p"] if e != "*"] and cp["l"] in restrict and g.variants() is not None and not (g.variants() & restrict[cp["l"]]):
                                dead = True
                    if dead:
                        continue
                m = re.search(STY, callee_path(t) or "")
                if m:
                    out.add(m.group(1))
                    continue
                cb = F.callee_body(t, nb.crate)
                if cb is None or depth >= 3 or not cb.name.startswith("writer::basic::") or cb.name in (x.name for x in F.nested(b)):
                    continue
                if cb.impl and cb.impl.get("self_adt") == BA and cb.kind in ("Fn", "AssocFn") and prints_directly(cb):
                    continue      # another printing routine: its styles are its own
                sub_restrict = {}
                for i, a in enumerate(t["args"]):
                    ty = re.sub(r"^&(mut )?", "", cb.locals[i + 1]) if i + 1 < len(cb.locals) else ""
                    adt_ = re.sub(r"<.*", "", ty)
                    info = F.adt(adt_)
                    if info is None or info.get("kind") != "Enum" or adt_.startswith("event::"):
                        continue
                    l = op_local(a)
                    db, src = A.canon_place_deep(F, nb, {"l": l, "p": []}) if l is not None else (nb, None)
                    if src is not None and src["p"] == ["*"]:
                        src = A.canon_place(db, {"l": src["l"], "p": []})
                    d = db.single_def(src["l"]) if src is not None and not src["p"] else None
                    vs = None
                    if d is not None and d[1] == "call":
                        pb = F.callee_body(d[2], db.crate)
                        vs = built_variants(pb, adt_) if pb is not None else None
                    elif d is not None and d[1] == "assign" and d[2]["rv"]["k"] == "agg" and d[2]["rv"].get("adt") == adt_:
                        vs = {d[2]["rv"]["variant"]}
                    if vs:
                        sub_restrict[i + 1] = vs
                sub = styles_of(cb, sub_restrict or None, depth + 1)
                if cb.impl and cb.impl.get("self_adt", "").startswith("writer::basic::") and cb.impl.get("self_adt") != BA and not sub_restrict:
                    # a method of a module-private type that keeps the choice in a field (`Painter { paint, .. }.apply(s)`): which of its
                    # styles this caller gets is not visible at this call — remembered apart, never held against the caller
                    fuzzy_styles.setdefault(b.name, set()).update(sub)
                    fuzzy_styles.setdefault(F.root_fn(b).name, set()).update(sub)
                else:
                    out |= sub
                    for k_ in (cb.name, F.root_fn(cb).name):
                        if k_ in fuzzy_styles:
                            fuzzy_styles.setdefault(b.name, set()).update(fuzzy_styles[k_])
        return out
    owns = [b for b in F.crate_bodies() if own(b) and b.kind in ("Fn", "AssocFn")]
    printers = {b.name: b for b in owns if prints_directly(b) and b is not disp and ((styles_of(b) | fuzzy_styles.get(b.name, set())) - {"lines_count"}) or (prints_directly(b) and b is not disp and
                                                                                                                  not any(F.callee_body(t, b.crate) is not None and own(F.callee_body(t, b.crate)) for nb in F.nested(b) for _, t in nb.calls()))}
    helpers = [b for b in owns if b.name not in printers and not prints_directly(b)]
    # helpers stay opaque unless they lead — directly or through other helpers (`background` -> `bg_step_passed` -> `any_step_passed(kind, ..)`) —
    # to a printing routine
    leads = set()
    changed = True
    while changed:
        changed = False
        for hb in helpers:
            if hb.name in leads:
                continue
            if any(F.callee_body(t, hb.crate) is not None and (F.callee_body(t, hb.crate).name in printers or F.callee_body(t, hb.crate).name in leads) for nb in F.nested(hb) for _, t in nb.calls()):
                leads.add(hb.name)
                changed = True
    opq = "^(" + "|".join(re.escape(n) for n in list(printers) + [hb.name for hb in helpers if hb.name not in leads]) + ")$"
    dp = D.Deep(F, disp, inline_only=own, opaque=opq, max_paths=4000)
    rows = dp.run()
    if not rows or any(p.cut for p in rows):
        raise Unverifiable("Basic::scenario: empty path table or a loop")
    T = Typer(F, disp, dp)
    ev_arg = [i for i in range(1, disp.arg_count + 1) if "event::RetryableScenario" in disp.locals[i]][0]
    seen = {}
    for p in rows:
        d = {}
        for a, o in p.conds:
            if a[0] == "discr" and isinstance(o, str):
                adt = dp.adt_of.get(a, "")
                if adt.startswith("event::") and D.mentions(a[1], lambda x: x == ("arg", ev_arg)):
                    d.setdefault(adt.rsplit("::", 1)[-1], o)
        pc = [e for e in p.effects if e[0] == "call" and e[1] in printers]
        early = D.is_variant(p.ret, "std::result::Result", "Err") or (isinstance(p.ret, tuple) and p.ret and p.ret[0] == "variant" and p.ret[2] == "Err")
        kind = d.get("Scenario")
        sub = d.get("Step") if kind in ("Background", "Step") else d.get("Hook") if kind == "Hook" else None
        for k1 in (kind or "?").split("|"):
            for s1 in (sub.split("|") if sub else [None]):
                seen.setdefault((k1, s1), []).append((pc, early, p))
    STYLE = {"Passed": ("ok", {"err", "skipped"}), "Skipped": ("skipped", {"ok", "err"}), "Failed": ("err", {"ok", "skipped"})}
    for (kind, sub), lst in sorted(seen.items(), key=str):
        inst = f"terminal/{kind}" + (f"::{sub}" if sub else "")
        full = [(pc, p) for pc, early, p in lst if not early]
        if kind in ("Background", "Step") and sub in STYLE or (kind == "Hook" and sub == "Failed"):
            must, never = STYLE[sub]
            ok = bool(full) and all(len(pc) == 1 for pc, _ in full)
            why = "not exactly one printing routine is called"
            if ok:
                names = {pc[0][1] for pc, _ in full}
                ok = len(names) == 1
                why = f"different routines print it: {sorted(names)}"
            if ok:
                pb = printers[next(iter(names))]
                st = styles_of(pb)
                fz = fuzzy_styles.get(pb.name, set())
                ok = must in (st | fz) and not (st & never)
                why = f"it is printed by {pb.short.rsplit('::', 1)[-1]}, which uses the styles {sorted(st - {'lines_count', 'bold', 'bright'})} (expected `{must}`, never {sorted(never)})"
            if ok:
                for pc, p in full:
                    roots = set().union(*[T.roots(a) for a in pc[0][2]])
                    src = f"@{kind}.0" if kind != "Hook" else None
                    if src and not any(r.endswith(src) or (src + ".") in r for r in roots):
                        ok, why = False, f"the routine is not given the event's own step (arguments derive from {sorted(roots)[:6]})"
                    if sub == "Failed":
                        idx = "3" if kind != "Hook" else "1"
                        if not any(re.search(r"@Failed\." + idx + r"$", r) for r in roots):
                            ok, why = False, "the routine is not given the event's error"
            R.check(ok, inst, disp, f"printed once, in the `{must}` style, for the event's own step", f"terminal writer, {kind} {sub}: {why}")
        elif (kind == "Hook" and sub in ("Started", "Passed")) or kind == "Finished":
            R.check(all(not pc for pc, _ in full), inst, disp, "prints nothing", f"terminal writer prints something for {kind} {sub or ''}")
        elif kind == "Log":
            ok = bool(full) and all(len(pc) == 1 and any(r.endswith("@Log.0") for a in pc[0][2] for r in T.roots(a)) for pc, _ in full)
            R.check(ok, inst, disp, "the message is printed once", "terminal writer does not print a Log event's message exactly once")
        elif kind == "Started":
            ok = bool(full) and all(len(pc) == 1 for pc, _ in full)
            R.check(ok, inst, disp, "the scenario header is printed once", "terminal writer does not print exactly one header for Scenario::Started")
        elif kind in ("Background", "Step") and sub == "Started":
            ok = bool(full) and all(len(pc) <= 1 and all(not (styles_of(printers[c[1]]) & {"ok", "err", "skipped"}) for c in pc) for pc, _ in full)
            R.check(ok, inst, disp, "at most the pending line is printed", "terminal writer prints a result line for Step::Started")
    # transient lines (the pending `Started` line, logs) are erased before a result is printed: in every routine printing a step / hook
    # result each write to the output is dominated by a call of the eraser (the routine calling `clear_last_lines`) — otherwise, with
    # colours on, the pending line stays (the step shows twice) and the stale line count later erases real lines
    erasers = [b for b in owns if any(callee_is(t, r"WriteStrExt::clear_last_lines$") for _, t in b.calls())]
    if len(erasers) != 1:
        raise Unverifiable(f"terminal writer: the routine erasing transient lines: {len(erasers)}")
    er = erasers[0]

    def must_erase(fb, depth=0):
        """every path through `fb` calls the eraser (its call dominates every return)"""
        if fb is er:
            return True
        es = [st_ for st_, t in fb.calls() if F.callee_body(t, fb.crate) is er or (depth < 2 and F.callee_body(t, fb.crate) is not None and own(F.callee_body(t, fb.crate))
                                                                                  and F.callee_body(t, fb.crate) is not fb and must_erase(F.callee_body(t, fb.crate), depth + 1))]
        rets = [Site(fb, i, "T") for i, blk in enumerate(fb.blocks) if blk["term"]["k"] == "return"]
        return bool(es) and all(any(fb.dominates(e, r_) for e in es) for r_ in rets)

    def unerased_writes(fb, depth=0):
        es = [st_ for st_, t in fb.calls() if F.callee_body(t, fb.crate) is not None and own(F.callee_body(t, fb.crate)) and must_erase(F.callee_body(t, fb.crate))]
        bad = []
        for st_, t in fb.calls():
            cb = F.callee_body(t, fb.crate)
            w = callee_is(t, WRITE) or (cb is not None and own(cb) and cb is not er and cb is not fb and depth < 2 and prints_directly(cb) and not must_erase(cb) and unerased_writes(cb, depth + 1))
            if w and not any(fb.dominates(e, st_) for e in es):
                bad.append(st_)
        return bad
    n_er = 0
    for (kind, sub), lst in sorted(seen.items(), key=str):
        if not (kind in ("Background", "Step") and sub in STYLE or (kind == "Hook" and sub == "Failed")):
            continue
        names = {pc[0][1] for pc, early, _ in lst if not early and len(pc) == 1}
        for nm in sorted(names):
            n_er += 1
            bad = unerased_writes(printers[nm])
            R.check(not bad, f"terminal/erases-pending-lines/{kind}::{sub}", bad[0] if bad else printers[nm], "every write is preceded by the erasure of the transient lines",
                    f"`{printers[nm].short.rsplit('::', 1)[-1]}` writes the {kind} {sub} result without first erasing the transient lines (pending `Started` line, logs): "
                    f"with colours on the step is shown twice and the stale line count later erases lines that were real")
    # what is kept for re-output after an erasure is exactly what was written: in every routine that appends to the re-output buffer (the
    # String the eraser writes out again and clears), the texts appended are, in order, the texts written to the output — the same terms, so
    # that a newline added on one side only (`write_line` here, `write_str` of the buffer there) shows as a difference
    clears = [t for _, t in er.calls(lambda t: callee_is(t, r"String::clear$"))]
    bufs = set()
    for t in clears:
        for o, n_ in A.slice_back(er, [t["args"][0]]).fields:
            if o == BA:
                bufs.add(n_)
    if len(bufs) != 1:
        raise Unverifiable(f"terminal writer: re-output buffer of the eraser: {sorted(bufs)}")
    buf = bufs.pop()
    bidx = [i for i, f_ in enumerate(F.adt(BA)["variants"][0]["fields"]) if f_["name"] == buf][0]
    n_buf = 0
    for rb in owns:
        if rb is er or not any(callee_is(t, r"String::push_str$") and (BA, buf) in A.slice_back(rb, [t["args"][0]]).fields for _, t in rb.calls()):
            continue
        n_buf += 1
        prow = D.Deep(F, rb, max_paths=100).run()
        okb, whyb = bool(prow) and not any(p.cut for p in prow), "empty table or a loop"
        for p in prow:
            pushed = [_norm(e[2][1]) for e in p.effects if e[0] == "call" and re.search(r"String::push_str$", e[1]) and D.mentions(e[2][0], lambda y: isinstance(y, tuple) and len(y) == 3 and y[0] == "field" and y[2] == bidx)]
            written = [_norm(e[2][1]) for e in p.effects if e[0] == "call" and re.search(r"io::Write::write_all$", e[1])]
            unb = lambda x: x[2][0] if isinstance(x, tuple) and len(x) == 4 and x[0] == "call" and re.search(r"(str|String)(::)+as_bytes$", x[1]) and len(x[2]) == 1 else x
            written = [unb(x) for x in written]
            if pushed != written:
                okb, whyb = False, f"written {[D.fmt(rb, x)[:30] for x in written]} but kept for re-output {[D.fmt(rb, x)[:30] for x in pushed]}"
        R.check(okb, f"terminal/re-output-mirrors-output/{rb.short.rsplit('::', 1)[-1]}", rb, "the text kept for re-output is the text written",
                f"`{rb.short.rsplit('::', 1)[-1]}`: {whyb}: after the next erasure the line is re-printed differently (a lost newline glues the following line to it)")
    R.check(n_buf >= 1, "terminal/re-output-mirrors-output/routines", er, f"{n_buf} routine(s) append to the re-output buffer", "no routine appends to the re-output buffer")
    # background steps are told apart from the scenario's own steps by the marker after the status glyph (`✔> ` / `?> ` / `✘> ` against
    # `✔  ` / `?  ` / `✘  `): every line template of a Background result printer that carries a glyph carries `>`, none of a Step printer does
    import ast
    GLYPH = re.compile(rb"(\xe2\x9c\x94|\xe2\x9c\x98|\?)(> |  )")

    def markers(pb_):
        out = []
        for nb in F.nested(pb_):
            for _, st_ in nb.assigns():
                for op in A.rvalue_operands(st_["rv"]):
                    c = op_const(op)
                    if c is not None and c.get("text", "").startswith('b"'):
                        try:
                            raw = ast.literal_eval(c["text"])
                        except Exception:
                            continue
                        out += [(m.group(1).decode("utf-8"), m.group(2)) for m in GLYPH.finditer(raw)]
                    elif c is not None and const_str_(op) is not None:
                        out += [(m.group(1).decode("utf-8"), m.group(2)) for m in GLYPH.finditer(const_str_(op).encode("utf-8"))]
            for _, t_ in nb.calls():
                for a_ in t_["args"]:
                    if const_str_(a_) is not None:
                        out += [(m.group(1).decode("utf-8"), m.group(2)) for m in GLYPH.finditer(const_str_(a_).encode("utf-8"))]
        return out
    n_mk = 0
    from .mir import const_str as const_str_
    serves = {}
    for (kind, sub), lst in seen.items():
        if kind in ("Background", "Step") and sub in STYLE:
            for nm in {pc[0][1] for pc, early, _ in lst if not early and len(pc) == 1}:
                serves.setdefault(nm, set()).add(kind)
    for (kind, sub), lst in sorted(seen.items(), key=str):
        if kind not in ("Background", "Step") or sub not in STYLE:
            continue
        for nm in sorted({pc[0][1] for pc, early, _ in lst if not early and len(pc) == 1}):
            mk = markers(printers[nm])
            if serves.get(nm) == {"Background", "Step"}:
                # one routine prints both kinds and picks the marker by a parameter: it must know both markers (which call gets which is
                # the `match kind` inside; not separated here)
                n_mk += bool(mk)
                both = {m for _, m in mk} == {b"> ", b"  "}
                R.check(both, f"terminal/step-kind-marker/{kind}::{sub}", printers[nm], "the shared printer knows both markers",
                        f"`{printers[nm].short.rsplit('::', 1)[-1]}` prints Background and Step lines but knows only the marker(s) {[g + m.decode() for g, m in mk]}")
                continue
            want = b"> " if kind == "Background" else b"  "
            n_mk += bool(mk)
            R.check(bool(mk) and all(m == want for _, m in mk), f"terminal/step-kind-marker/{kind}::{sub}", printers[nm],
                    f"glyph followed by `{want.decode()}` in {len(mk)} template(s)",
                    f"`{printers[nm].short.rsplit('::', 1)[-1]}` prints a {kind} {sub} line with the marker(s) {[g + m.decode() for g, m in mk]}: a "
                    f"{'Background step is shown as a step of the scenario itself' if kind == 'Background' else 'scenario step is shown as a Background step'}")
    R.check(n_mk >= 6, "terminal/step-kind-marker/routines", disp, f"{n_mk} result printers with a glyph template", f"only {n_mk} result printers carry a status glyph template")
    R.check(n_er >= 7, "terminal/erases-pending-lines/routines", disp, f"{n_er} result-printing routines", f"only {n_er} result-printing routines found")
    want = {(k, s1) for k in ("Background", "Step") for s1 in ("Started", "Passed", "Skipped", "Failed")} | {("Hook", "Started"), ("Hook", "Passed"), ("Hook", "Failed"), ("Log", None), ("Started", None), ("Finished", None)}
    R.check(want <= set(seen), "terminal/table-complete", disp, f"{len(seen)} event shapes", f"rows missing from the terminal writer's table: {sorted(map(str, want - set(seen)))[:4]}")
    R.floor(28)


# ---- R10: Cucumber JSON — an entry created for a key is found again by the look-up (constructor / comparator agreement) ------
_CONV = re.compile(r"(ToOwned::to_owned|str::to_owned|ToString::to_string|String::from|String::as_str|String::as_ref|Clone::clone|Cow::into_owned|Into::into|From::from|"
                   r"Option::<.*>::as_ref|Option::<.*>::as_deref|Deref::deref|Borrow::borrow|AsRef::as_ref)$")


def _norm(t, sub=None):
    """Structural normal form of a term: call ids dropped, references / conversions that do not change the text dropped,
    sub-terms replaced through `sub` (a function term -> term | None)."""
    if not isinstance(t, tuple) or not t:
        return t
    if sub is not None:
        r = sub(t)
        if r is not None:
            return _norm(r)
    k = t[0]
    if k in ("ref", "refto", "deref", "conv") and len(t) == 2:
        from .termtypes import place_term
        inner = place_term(t[1]) if k == "ref" else t[1]
        return _norm(inner if inner is not None else t[1], sub)
    if k == "call":
        if _CONV.search(t[1]) and len(t[2]) == 1:
            return _norm(t[2][0], sub)
        return ("call", re.sub(r"<[^<>]*(<[^<>]*(<[^<>]*>[^<>]*)*>[^<>]*)*>", "", t[1]), tuple(_norm(x, sub) for x in t[2]), 0)
    return tuple(_norm(x, sub) if isinstance(x, tuple) else x for x in t)


def check_found_again(F, R, ctor, cmp_, adt, inst):
    """`cmp_(&ctor(key), key)` must not be false: on the deep tables of both, no row of the comparator that certainly applies to an
    entry built by some row of the constructor (every condition decided by what that row stored / learned) returns `false`."""
    from . import deep as D
    info = F.adt(adt)
    crow = D.Deep(F, ctor, max_paths=400, opaque=r"trim_path$|to_kebab_case$").run()
    prow = D.Deep(F, cmp_, max_paths=400, opaque=r"trim_path$|to_kebab_case$").run()
    if not crow or not prow or any(p.cut for p in crow + prow):
        raise Unverifiable(f"{inst}: empty path table or a loop")
    nf = len(info["variants"][0]["fields"])
    bad = []
    n_pairs = 0
    for c in crow:
        if not (D.is_variant(c.ret, adt) and len(c.ret[3]) == nf):
            raise Unverifiable(f"{inst}: the constructor returns {D.fmt(ctor, c.ret)[:60]}")
        known = {}
        for a, o in c.conds:
            known[_norm(a)] = o

        def sub(t, c=c):
            if t == ("arg", 2):
                return ("arg", 1)
            if t[0] == "field" and t[1] in (("deref", ("arg", 1)), ("arg", 1)) and isinstance(t[2], int) and t[2] < nf:
                return ("stored", c.ret[3][t[2]])
            return None

        def ev(t):
            n = _norm(t, sub)
            # unwrap what the constructor stored
            def unstore(x):
                if isinstance(x, tuple) and x and x[0] == "stored":
                    return _norm(x[1])
                return tuple(unstore(y) if isinstance(y, tuple) else y for y in x) if isinstance(x, tuple) else x
            return unstore(n)
        for p in prow:
            verdict = "certain"
            for a, o in p.conds:
                if a[0] == "discr":
                    v = ev(a[1])
                    if isinstance(v, tuple) and v and v[0] == "variant":
                        ok = v[2] in str(o).split("|")
                    elif ("discr", v) in known:
                        ok = bool(set(str(known[("discr", v)]).split("|")) & set(str(o).split("|")))
                        if ok and not set(str(known[("discr", v)]).split("|")) <= set(str(o).split("|")):
                            ok = None
                    else:
                        ok = None
                elif (a[0] == "call" and re.search(r"::eq$|PartialEq.*::eq$", a[1]) and len(a[2]) == 2) or (a[0] == "bin" and a[1] == "Eq"):
                    x, y = (a[2][0], a[2][1]) if a[0] == "call" else (a[2], a[3])
                    same = ev(x) == ev(y)
                    ok = (o is True) if same else None
                else:
                    na = ev(a)
                    ok = (known[na] == o) if na in known else None
                if ok is False:
                    verdict = "excluded"
                    break
                if ok is None:
                    verdict = "possible"
            if verdict == "excluded":
                continue
            n_pairs += 1
            ret = p.ret
            if ret == ("const", False) and verdict == "certain":
                bad.append((c, p))
    if bad:
        c, p = bad[0]
        conds = " ∧ ".join(f"{D.fmt(ctor, a)[:70]}={o}" for a, o in c.conds) or "always"
        why = " ∧ ".join(f"{D.fmt(cmp_, a)[:70]}={o}" for a, o in p.conds)
        R.violation(inst, cmp_, f"an entry built by `{ctor.short.rsplit('::', 2)[-2]}::{ctor.short.rsplit('::', 1)[-1]}` for a key with [{conds}] never compares equal to that key "
                    f"(`{cmp_.short[-60:]}` is false whenever [{why}]): the look-up misses it and pushes a duplicate entry for every event")
    else:
        R.ok(inst, cmp_, f"{len(crow)} constructor rows x {len(prow)} comparator rows, {n_pairs} compatible pairs, none certainly unequal")


def check_tells_apart(F, R, cmp_, adt, key_adt, need, inst):
    """The look-up comparator must not answer `true` for another key: every row of its table that can answer true has
    compared (equality atom learned true, or returned as the answer) something taken from each key field in `need` with
    something taken from the entry.  `need` names the fields that identify a key (gherkin feature: `path` *and* `name`:
    features of different files may share the name, path-less features share the (missing) path)."""
    from . import deep as D
    from .termtypes import _field_map
    fm = _field_map(F)
    rows = D.Deep(F, cmp_, max_paths=400, opaque=r"trim_path$|to_kebab_case$").run()
    if not rows or any(p.cut for p in rows):
        raise Unverifiable(f"{inst}: empty path table or a loop")

    def key_fields(t):
        out = set()
        for x in D.subterms(t):
            if isinstance(x, tuple) and x and x[0] == "field" and x[1] in (("deref", ("arg", 2)), ("arg", 2)) and isinstance(x[2], int):
                out.add(fm.get((key_adt, x[2]), (f"#{x[2]}",))[0])
        return out

    def entry_side(t):
        return any(isinstance(x, tuple) and x and x[0] == "field" and x[1] in (("deref", ("arg", 1)), ("arg", 1)) for x in D.subterms(t))

    def is_eq(a):
        return (a[0] == "call" and re.search(r"::eq$", a[1]) and len(a[2]) == 2) or (a[0] == "bin" and a[1] == "Eq")

    n = 0
    for p in rows:
        if p.ret == ("const", False):
            continue
        n += 1
        atoms = [a for a, o in p.conds if is_eq(a) and o is True]
        if isinstance(p.ret, tuple) and is_eq(p.ret):
            atoms.append(p.ret)
        elif p.ret != ("const", True):
            raise Unverifiable(f"{inst}: the comparator answers {D.fmt(cmp_, p.ret)[:60]}")
        compared, infeasible = set(), False
        for a, o in p.conds:
            if a[0] == "discr":
                compared |= key_fields(a[1])   # the state (Some / None) of an optional key field was asked
        for a in atoms:
            x, y = (a[2][0], a[2][1]) if a[0] == "call" else (a[2], a[3])
            nx, ny = _norm(x), _norm(y)
            isv = lambda z: isinstance(z, tuple) and len(z) == 4 and z[0] == "variant"
            if isv(nx) and isv(ny) and nx[1] == ny[1] and nx[2] != ny[2] and a is not p.ret:
                infeasible = True   # `Some(..) == None` learned true: not a row of any execution
            for u, v in ((x, y), (y, x)):
                if key_fields(u) and not key_fields(v):
                    compared |= key_fields(u)
        if infeasible:
            n -= 1
            continue
        missing = [f for f in need if f not in compared]
        if missing:
            conds = " ∧ ".join(f"{D.fmt(cmp_, a)[:60]}={o}" for a, o in p.conds) or "always"
            R.violation(inst, cmp_, f"`{cmp_.short[-60:]}` can answer true without having compared the key's {missing} [{conds}]: the entry of one "
                        f"{key_adt.rsplit('::', 1)[-1].lower()} is taken for that of another one differing only there, whose events are then recorded under the wrong entry")
            return
    R.check(n >= 1, inst, cmp_, f"{n} row(s) that can answer true, each has compared the key's {list(need)}", "the comparator never answers true")


def r10(F, R):
    """Cucumber JSON: the entry created for a feature is found again — `json::Feature::new(f) == f` can never be false."""
    JS = "writer::json::"
    cmps = [b for b in F.crate_bodies() if (b.impl or {}).get("trait") == "std::cmp::PartialEq" and (b.impl or {}).get("self_adt", "").startswith(JS) and b.name.endswith("::eq")]
    if not cmps:
        if any(b.name.startswith(JS) for b in F.crate_bodies()):
            raise Unverifiable("no look-up comparator of a json:: entry type found")
        return
    for cmp_ in cmps:
        adt = cmp_.impl["self_adt"]
        key_ty = cmp_.locals[2]
        ctors = [b for b in F.crate_bodies() if (b.impl or {}).get("self_adt") == adt and not (b.impl or {}).get("trait") and b.kind in ("Fn", "AssocFn") and b.arg_count == 1 and
                 b.locals[1] == key_ty and re.sub(r"<.*", "", b.locals[0]) in (adt, "Self")]
        if len(ctors) != 1:
            raise Unverifiable(f"constructor of {adt} from {key_ty}: {len(ctors)}")
        check_found_again(F, R, ctors[0], cmp_, adt, f"json/entry-found-again/{adt.rsplit('::', 1)[-1]}")
        from .termtypes import adt_path
        ka = adt_path(key_ty)
        need = {"gherkin::Feature": ("path", "name")}.get(ka)
        if need is None:
            raise Unverifiable(f"identifying fields of the look-up key {ka} are not tabled")
        check_tells_apart(F, R, cmp_, adt, ka, need, f"json/entry-tells-apart/{adt.rsplit('::', 1)[-1]}")
    # entries looked up by an inline predicate (`elements.iter().position(|el| el.name == format!(..) && el.line == .. && el.type == ty)`): what the
    # predicate compares a field with is built the same way as what the entry's constructor stores in that field — same sources, same text
    # template, same (non-conversion) calls; a constructor that trims / re-formats the stored key is never found again by its own look-up
    from .termtypes import Typer, _field_map
    from . import deep as D
    fm = _field_map(F)
    n_k = 0
    for lk in [b for b in F.crate_bodies() if b.name.startswith(JS) and b.kind in ("Fn", "AssocFn")]:
        for s_, t in lk.calls(lambda t: callee_is(t, r"Iterator::(position|find|any)$")):
            cl = A.closure_of_operand(F, lk, t["args"][1])
            if cl is None or cl.arg_count < 2:
                continue
            ety = re.sub(r"^&(mut )?", "", re.sub(r"^&(mut )?", "", cl.locals[2].strip()).strip())
            eadt = re.sub(r"<.*", "", ety)
            if not eadt.startswith(JS) or F.adt(eadt) is None:
                continue
            ctors = [b for b in F.crate_bodies() if (b.impl or {}).get("self_adt") == eadt and not (b.impl or {}).get("trait") and b.kind in ("Fn", "AssocFn")
                     and re.sub(r"<.*", "", b.locals[0]) in (eadt, "Self") and b.name.endswith("::new")]
            if len(ctors) != 1:
                continue
            names = [f["name"] for f in F.adt(eadt)["variants"][0]["fields"]]

            def sig(T_, t_):
                consts = sorted({x[1] for x in D.subterms(t_) if isinstance(x, tuple) and len(x) == 2 and x[0] == "const" and isinstance(x[1], str)})
                calls = sorted({re.sub(r"<[^<>]*(<[^<>]*>[^<>]*)*>", "", x[1]).rsplit("::", 1)[-1] for x in D.subterms(t_) if isinstance(x, tuple) and len(x) == 4 and x[0] == "call"
                                and not _CONV.search(x[1]) and not re.search(r"must_use$|fmt::format$|Arguments::<.*>::new$|Arguments::new|Argument::<.*>::new_\w+$|Argument.*::new_\w+$", x[1])})
                return (tuple(sorted(T_.roots(t_))), tuple(consts), tuple(calls))
            dpc = D.Deep(F, cl, max_paths=400, opaque=r"trim_path$|to_kebab_case$")
            Tc = Typer(F, cl, dpc)
            cmp_sigs = {}
            for p in dpc.run():
                atoms = [a for a, o in p.conds] + ([p.ret] if isinstance(p.ret, tuple) else [])
                for a in atoms:
                    if not isinstance(a, tuple):
                        continue
                    if a[0] == "call" and re.search(r"::eq$", a[1]) and len(a[2]) == 2:
                        x, y = a[2]
                    elif a[0] == "bin" and a[1] == "Eq":
                        x, y = a[2], a[3]
                    else:
                        continue
                    for u, v in ((x, y), (y, x)):
                        fld = [z for z in D.subterms(u) if isinstance(z, tuple) and len(z) == 3 and z[0] == "field" and z[1] in (("deref", ("arg", 2)), ("arg", 2)) and isinstance(z[2], int)]
                        if fld and not D.mentions(v, lambda q: q == ("arg", 2)):
                            cmp_sigs.setdefault(names[fld[0][2]], set()).add(sig(Tc, v))
            if not cmp_sigs:
                continue
            dpk = D.Deep(F, ctors[0], max_paths=400, opaque=r"trim_path$|to_kebab_case$")
            Tk = Typer(F, ctors[0], dpk)
            ctor_sigs = {}
            for p in dpk.run():
                if D.is_variant(p.ret, eadt) and len(p.ret[3]) == len(names):
                    for nme, v in zip(names, p.ret[3]):
                        if nme in cmp_sigs:
                            ctor_sigs.setdefault(nme, set()).add(sig(Tk, v))
            def helper_of_ctor_field(nme):
                """crate-local fn whose result the constructor stores in field `nme` (`name: Self::name_of(rule, scenario)`)"""
                for _, st in ctors[0].assigns(lambda st: st["rv"]["k"] == "agg" and st["rv"].get("adt") == eadt):
                    ops = dict(zip(st["rv"].get("fields") or names, st["rv"]["ops"]))
                    l_ = op_local(ops.get(nme)) if ops.get(nme) is not None else None
                    sd = ctors[0].single_def(A.canon_place(ctors[0], {"l": l_, "p": []})["l"]) if l_ is not None else None
                    if sd and sd[1] == "call":
                        return F.callee_body(sd[2], ctors[0].crate)
                return None

            def helpers_of_lookup():
                """crate-local fns whose results the look-up routine computes before the predicate (captured by it)"""
                return {F.callee_body(t2, lk.crate).key for _, t2 in lk.calls() if F.callee_body(t2, lk.crate) is not None}
            for nme in sorted(cmp_sigs):
                n_k += 1
                if ctor_sigs.get(nme) != cmp_sigs[nme]:
                    hb = helper_of_ctor_field(nme)
                    if hb is not None and hb.key in helpers_of_lookup() and all(not rs or all("." not in r for r in rs) for rs, _, _ in cmp_sigs[nme]):
                        # both sides go through the same private helper (`Element::name_of(rule, scenario)`): they agree by construction
                        R.ok(f"json/lookup-key-agrees/{eadt.rsplit('::', 1)[-1]}.{nme}", s_, f"both the constructor and the look-up build `{nme}` with `{hb.short.rsplit('::', 1)[-1]}`")
                        continue
                R.check(ctor_sigs.get(nme) == cmp_sigs[nme], f"json/lookup-key-agrees/{eadt.rsplit('::', 1)[-1]}.{nme}", s_, "the look-up compares the field with what the constructor stores in it",
                        f"`{eadt.rsplit('::', 1)[-1]}::new` stores `{nme}` built as {sorted(ctor_sigs.get(nme, []))[:2]} but `{lk.short.rsplit('::', 1)[-1]}` looks entries up by {sorted(cmp_sigs[nme])[:2]}: "
                        f"where the two differ the entry just created is not found again and every event of the scenario pushes a new one")
    if n_k:
        R.ok("json/lookup-key-agrees/fields", None, f"{n_k} look-up key fields compared with their constructor")
    else:
        R.ok("json/lookup-key-agrees/fields", None, "no inline look-up predicate over json entries (the look-up is spelled another way): the agreement clause is not decided here")
    R.floor(2)


def r11(F, R):
    """Terminal summary: its scenario totals agree with the entries printed — a scenario is counted in exactly one of passed / skipped /
    failed (= C12.R7: a classified scenario keeps its marker, `passed` only where no marker is found)."""
    from . import c12
    c12.r7(F, R)


def r12(F, R):
    """Terminal writer (and the JUnit output rendered through it): the text of a matched step is reproduced piece by piece — the
    routine that walks the capture groups keeps a cursor into the text; every step of the walk either emits exactly the text between the
    old cursor and the new one (consecutive slices, each pushed once, in order) or leaves the cursor where it was; the walk starts at 0
    and what follows the last cursor up to the end of the text is emitted once.  (Which style each piece gets is not decided.)"""
    from . import deep as D
    if not any(b.name.startswith("writer::basic::") for b in F.crate_bodies()):
        return
    roots = [b for b in F.crate_bodies() if b.kind in ("Fn", "AssocFn") and b.name.startswith("writer::basic::")
             and any(callee_is(t, r"CaptureLocations::get$") for nb in F.nested(b) for _, t in nb.calls())]
    if len(roots) != 1:
        raise Unverifiable(f"capture-walking routine of the terminal writer: {len(roots)}")
    root = roots[0]
    is_slice = lambda e: e[0] == "call" and re.search(r"Index<.*>.*::index$|str::traits.*::index$", e[1]) and len(e[2]) == 2 and D.is_variant(e[2][1], "std::ops::Range", "Range")

    def pushed_once_in_order(p, slices, target_ok):
        pushes = [e for e in p.effects if e[0] == "call" and re.search(r"String::push_str$|fmt::Write::write_str$", e[1]) and target_ok(e[2][0])]
        order = []
        for pu in pushes:
            ids = [sl[4] for sl in slices if D.mentions(pu[2][1], lambda x, sl=sl: isinstance(x, tuple) and len(x) == 4 and x[0] == "call" and x[3] == sl[4])]
            order.extend(ids)
        return order == [sl[4] for sl in slices]

    rp = D.Deep(F, root, max_paths=50).run()
    if len(rp) != 1 or rp[0].cut:
        # loop form: the walk is a loop of the routine itself.  Two iterations are unrolled; along every path (complete, or cut at the third
        # visit of the loop) the slices taken off the text must be consecutive from 0 — a cursor that moves without text breaks the chain of
        # the next iteration — each pushed once, in order, into one buffer; a complete path ends with the slice up to the text's end
        rows = D.Deep(F, root, max_paths=400, unroll=2).run()
        if not rows:
            raise Unverifiable("capture walker: empty table")
        n_full = n_it = 0
        for p in rows:
            slices = [e for e in p.effects if is_slice(e)]
            if len({_norm(sl[2][0]) for sl in slices}) > 1:
                raise Unverifiable("capture walker: slices of more than one text")
            rng = [(sl[2][1][3][0], sl[2][1][3][1]) for sl in slices]
            conds = " ∧ ".join(f"{D.fmt(root, a)[:40]}={o}" for a, o in p.conds[:6]) or "always"
            chain = all(_norm(rng[i][1]) == _norm(rng[i + 1][0]) for i in range(len(rng) - 1)) and (not rng or _norm(rng[0][0]) == ("const", 0))
            R.check(chain, "terminal/step-text/pieces-are-consecutive", root, "slices along the path are consecutive from 0",
                    f"[{conds}] the slices emitted along this path {[(D.fmt(root, a)[:16], D.fmt(root, b)[:16]) for a, b in rng]} are not consecutive from 0: "
                    f"text between two positions is printed twice (cursor moved back) or lost")
            tgts = {_norm(e[2][0]) for e in p.effects if e[0] == "call" and re.search(r"String::push_str$", e[1])}
            R.check(len(tgts) <= 1 and pushed_once_in_order(p, slices, lambda t: True), "terminal/step-text/pieces-pushed-once", root, "each slice appended once, in order",
                    f"[{conds}] the slices of the step text are not each appended exactly once, in order, to one text being built")
            n_it += len(rng) > 1
            if not p.cut:
                n_full += 1
                last = rng[-1][1] if rng else None
                ok = last is not None and last[0] == "call" and re.search(r"str>?::len$", last[1]) and _norm(last[2][0]) == _norm(slices[-1][2][0])
                R.check(ok, "terminal/step-text/tail", root, "the last slice ends at the text's end", f"[{conds}] the walk does not end with the slice up to the end of the step text")
        R.check(n_full >= 1 and n_it >= 1, "terminal/step-text/walk-emits", root, f"{n_full} complete paths, {n_it} with emitting iterations", "loop-form walk: no complete or no emitting path")
        R.floor(4)
        return
    rp = rp[0]
    folds = [e for e in rp.effects if e[0] == "call" and re.search(r"Iterator::fold$", e[1]) and len(e[2]) == 3]
    if len(folds) != 1 or folds[0][2][2][0] != "closure" or folds[0][2][1][0] != "tuple":
        raise Unverifiable("capture walker: no single `fold((text, cursor), step)` (unrecognised form)")
    fold = folds[0]
    init = fold[2][1][1]
    ks = [i for i, x in enumerate(init) if x[0] == "const"]
    if len(init) != 2 or len(ks) != 1:
        raise Unverifiable("capture walker: accumulator is not (text, cursor)")
    k = ks[0]
    R.check(init[k] == ("const", 0), "terminal/step-text/starts-at-0", root, "the cursor starts at 0", f"the walk over the step text starts at {init[k]}, not at its beginning")
    step = F.bodies.get(fold[2][2][1]) or next((b for b in F.crate_bodies() if b.name == fold[2][2][1]), None)
    if step is None:
        raise Unverifiable("capture walker: step closure body")
    old = ("field", ("arg", 2), k)
    rows = D.Deep(F, step, max_paths=200).run()
    if not rows or any(p.cut for p in rows):
        raise Unverifiable("capture walker: step closure has a loop or no rows")
    bases = set()
    n_emit = 0
    for p in rows:
        slices = [e for e in p.effects if is_slice(e)]
        bases |= {_norm(sl[2][0]) for sl in slices}
        if not (isinstance(p.ret, tuple) and p.ret[0] == "tuple" and len(p.ret[1]) == 2):
            raise Unverifiable("capture walker: step closure does not return (text, cursor)")
        new = p.ret[1][k]
        conds = " ∧ ".join(f"{D.fmt(step, a)[:50]}={o}" for a, o in p.conds) or "always"
        if not slices:
            R.check(_norm(new) == _norm(old), "terminal/step-text/cursor-moves-only-with-text", step, "nothing emitted => cursor unchanged",
                    f"[{conds}] no text is emitted but the cursor is set to `{D.fmt(step, new)[:40]}`: the text between the two positions is printed twice (cursor moved back) or lost")
            continue
        n_emit += 1
        rng = [(sl[2][1][3][0], sl[2][1][3][1]) for sl in slices]
        chain = _norm(rng[0][0]) == _norm(old) and all(_norm(rng[i][1]) == _norm(rng[i + 1][0]) for i in range(len(rng) - 1)) and _norm(rng[-1][1]) == _norm(new)
        R.check(chain, "terminal/step-text/pieces-are-consecutive", step, f"{len(rng)} consecutive slices from the old cursor to the new one",
                f"[{conds}] the emitted slices {[(D.fmt(step, a)[:20], D.fmt(step, b)[:20]) for a, b in rng]} do not lead from the old cursor to the new one `{D.fmt(step, new)[:30]}`")
        R.check(pushed_once_in_order(p, slices, lambda t: _norm(t) == _norm(("field", ("arg", 2), 1 - k))), "terminal/step-text/pieces-pushed-once", step,
                "each slice is appended once, in order", f"[{conds}] the slices of the step text are not each appended exactly once, in order, to the text being built")
    R.check(n_emit >= 1 and len(bases) == 1, "terminal/step-text/walk-emits", step, "the walk emits slices of one text", f"{n_emit} emitting rows over {len(bases)} texts")
    # the tail
    fterm = lambda x: isinstance(x, tuple) and len(x) == 4 and x[0] == "call" and x[3] == fold[4]
    tails = [e for e in rp.effects if is_slice(e)]
    ok = len(tails) == 1 and tails[0][2][1][3][0][0] == "field" and fterm(tails[0][2][1][3][0][1]) and tails[0][2][1][3][0][2] == k and \
        tails[0][2][1][3][1][0] == "call" and re.search(r"str>?::len$", tails[0][2][1][3][1][1]) and _norm(tails[0][2][1][3][1][2][0]) == _norm(tails[0][2][0])
    R.check(ok, "terminal/step-text/tail", root, "text[cursor..len] after the walk", "after the walk the rest of the step text (from the last cursor to its end) is not taken as one slice")
    if ok:
        tgt = lambda t: D.mentions(t, fterm) and D.mentions(t, lambda x: isinstance(x, tuple) and x[0] == "field" and fterm(x[1]) and x[2] == 1 - k)
        R.check(pushed_once_in_order(rp, tails, tgt) and D.mentions(rp.ret, fterm), "terminal/step-text/tail-pushed-once", root, "appended once, the built text is returned",
                "the rest of the step text is not appended exactly once to the text that is returned")
        ups = [_norm(u) for u in fold[2][2][2]]
        R.check(_norm(tails[0][2][0]) in ups, "terminal/step-text/same-text", root, "walk and tail slice the same text", "the walk and the tail slice different strings")
    R.floor(7)


def r13(F, R):
    """Complete writes: report text reaches the `io::Write` sink through `write_all` (or `write_fmt`), never through the partial
    `Write::write` whose count is dropped — a sink is allowed to accept only a prefix (LineWriter, pipes), the rest of the chunk would be
    missing from the report.  The string helper every terminal line goes through returns `write_all(bytes of its parameter)`."""
    from . import deep as D
    partial = []
    n_sites = 0
    for b in F.crate_bodies():
        for st, t in b.calls(lambda t: callee_is(t, r"io::Write::(write|write_vectored|write_all|write_fmt)$")):
            n_sites += 1
            if callee_is(t, r"io::Write::(write|write_vectored)$"):
                # a forwarding `impl io::Write` may hand the count on to its own caller
                fwd = (b.impl or {}).get("trait") == "std::io::Write" and re.search(r"::write(_vectored)?$", b.name) and \
                    t["dest"]["l"] in {pl["l"] for pl in A.slice_back(b, start_locals=[0]).places}
                if not fwd:
                    partial.append((b, st))
    for b, st in partial:
        R.violation(f"complete-writes/{F.root_fn(b).short.rsplit('::', 2)[-2]}::{F.root_fn(b).short.rsplit('::', 1)[-1]}", st,
                    "report bytes are handed to the partial `io::Write::write` and the accepted count is dropped: a sink that takes only a prefix "
                    "(LineWriter / stdout, a pipe) loses the rest of the chunk — use write_all")
    if not partial:
        R.ok("complete-writes/no-partial-write", None, f"{n_sites} io::Write call site(s), none is the partial `write`")
    hs = [b for b in F.crate_bodies() if re.search(r"writer::out::WriteStrExt::write_str$", b.name) or
          ((b.impl or {}).get("trait") == "writer::out::WriteStrExt" and b.name.endswith("::write_str"))]
    if len(hs) != 1:
        if any(b.name.startswith("writer::out::") for b in F.crate_bodies()):
            raise Unverifiable(f"the string-writing helper of writer::out: {len(hs)}")
        return
    rows = D.Deep(F, hs[0], max_paths=50).run()
    ok = bool(rows) and all(not p.cut for p in rows)
    for p in rows:
        was = [e for e in p.effects if e[0] == "call" and re.search(r"io::Write::write_all$", e[1])]
        ok = ok and len(was) == 1 and D.mentions(was[0][2][0], lambda x: x == ("arg", 1)) and D.mentions(was[0][2][1], lambda x: x == ("arg", 2) or x == ("L", 0, 2)) and \
            D.mentions(p.ret, lambda x: isinstance(x, tuple) and len(x) == 4 and x[0] == "call" and x[3] == was[0][4])
    R.check(ok, "complete-writes/write_str", hs[0], "write_str = self.write_all(bytes of the string), result returned",
            "`WriteStrExt::write_str` does not return `self.write_all(<bytes of its parameter>)`: text may be written partially or its error dropped")
    R.floor(2)


def r14(F, R):
    """Locations are printed as `line:col` everywhere (test names, failure messages, error headers of every reporter): in every list of
    format arguments that contains both the `line` and the `col` of a `gherkin::LineCol`, `line` comes first.  A location printed the other way
    round does not exist in the file and contradicts the one in the error's own message."""
    n = 0
    for b in F.crate_bodies():
        for s_, st in b.assigns(lambda st: st["rv"]["k"] == "agg" and st["rv"].get("agg") == "array"):
            if "fmt::rt::Argument" not in b.locals[st["pl"]["l"]]:
                continue
            kinds = []
            for op in st["rv"]["ops"]:
                l = op_local(op)
                sd = b.single_def(A.canon_place(b, {"l": l, "p": []})["l"]) if l is not None else None
                k = None
                if sd and sd[1] == "call" and callee_is(sd[2], r"fmt::rt::Argument::<.*>::new_\w+$|rt::Argument.*::new_\w+$"):
                    src = sd[2]["args"][0]
                    # format_args! lowers to `match (&a, &b, ..) { args => [new_display(args.0), ..] }`: step through the tuple
                    for _ in range(4):
                        pl_ = op_place(src)
                        if pl_ is None:
                            break
                        fs = [e for e in pl_["p"] if isinstance(e, dict) and "f" in e]
                        td = b.single_def(pl_["l"])
                        if len(fs) == 1 and fs[0].get("o") == "{tuple}" and td and td[1] == "assign" and td[2]["rv"]["k"] == "agg" and fs[0]["f"] < len(td[2]["rv"]["ops"]):
                            src = td[2]["rv"]["ops"][fs[0]["f"]]
                            break
                        if not pl_["p"] and td and td[1] == "assign" and td[2]["rv"]["k"] in ("ref", "use", "cast"):
                            src = {"k": "copy", "pl": td[2]["rv"]["pl"]} if td[2]["rv"]["k"] == "ref" else td[2]["rv"]["op"]
                            continue
                        break
                    fl = A.deep_slice(F, b, [src]).fields
                    if ("gherkin::LineCol", "line") in fl and ("gherkin::LineCol", "col") not in fl:
                        k = "line"
                    elif ("gherkin::LineCol", "col") in fl and ("gherkin::LineCol", "line") not in fl:
                        k = "col"
                kinds.append(k)
            if "line" in kinds and "col" in kinds:
                n += 1
                seq = [k for k in kinds if k]
                fn = F.root_fn(b).short.rsplit("::", 2)
                R.check(seq == sorted(seq, key=lambda k: k != "line") and seq[0] == "line", f"location-line-then-col/{'::'.join(fn[-2:])[:50]}", s_, "line before col",
                        f"a location is formatted as {':'.join(seq)} (col before line): the position printed does not exist in the feature file")
    R.floor(3)


def r15(F, R):
    """JUnit: a test case can be attributed to its scenario — on every path of `test_case` up to the construction of the case, the name
    handed to the `TestCaseBuilder` derives from the scenario's name AND its position (line and col), whatever the feature's path is
    (expanded outline rows and scenarios sharing a name differ only there)."""
    if not any(b.name.startswith("writer::junit::") for b in F.crate_bodies()):
        return
    from . import deep as D
    from .termtypes import Typer, strip_refs
    JU = "writer::junit::JUnit"
    own = lambda cb: bool(cb.impl and cb.impl.get("self_adt") == JU and not cb.impl.get("trait"))
    tcs = [b for b in F.crate_bodies() if own(b) and re.search(r"(^|::)TestCase$", strip_refs(b.locals[0]) or "")]
    if len(tcs) != 1:
        raise Unverifiable(f"JUnit test-case builder role: {len(tcs)}")
    b = tcs[0]
    builders = [(s_, t) for s_, t in b.calls(lambda t: callee_is(t, r"TestCaseBuilder::(success|skipped|failure|error)$"))]
    if len(builders) < 3:
        raise Unverifiable(f"JUnit::test_case: {len(builders)} TestCaseBuilder constructions in the routine itself")
    # the table is cut at the constructions (what follows — rendering the embedded output — multiplies paths and cannot change the name);
    # what is read there is the name argument
    dp = D.Deep(F, b, max_paths=6000, opaque=r"coerce_error$|trim_path$")
    dp.stop_term = frozenset(s_.bb for s_, _ in builders)
    dp.stop_read = {s_.bb: [t["args"][0]] for s_, t in builders}
    rows = dp.run()
    if not rows:
        raise Unverifiable("JUnit::test_case: empty path table")
    T = Typer(F, b, dp)
    sc_args = [i for i in range(1, b.arg_count + 1) if "gherkin::Scenario" in b.locals[i]]
    if len(sc_args) != 1:
        raise Unverifiable("scenario parameter of JUnit::test_case")
    scn = b.debug_name(sc_args[0]) or f"_{sc_args[0]}"
    n, bad = 0, None
    for p in rows:
        if not (isinstance(p.ret, tuple) and p.ret and p.ret[0] == "reached" and len(p.ret) == 3):
            continue        # a path that ends without constructing a case (a panic on a broken invariant)
        n += 1
        name = p.ret[2][0]
        roots = set(T.roots(name))
        # a name put together with push_str: what was appended to the same String counts
        for e in p.effects:
            if e[0] == "call" and re.search(r"String::push_str$|fmt::Write::write_(str|fmt)$", e[1]) and _norm(e[2][0]) == _norm(name):
                roots |= set(T.roots(e[2][1]))
        need = {f"{scn}.name", f"{scn}.position.line", f"{scn}.position.col"}
        if not need <= roots:
            conds = " ∧ ".join(f"{D.fmt(b, a)[:40]}={o}" for a, o in p.conds[:5])
            bad = bad or f"[{conds}] the test case is named from {sorted(roots)} — without {sorted(need - roots)}"
    R.check(bad is None and n >= 3, "junit/case-name-identifies-scenario", b, f"{n} paths to a test-case construction, each named from the scenario's name, line and col",
            f"JUnit test case name: {bad or 'no construction found'}: scenarios sharing a name (expanded outline rows) can no longer be told apart, a failure cannot be attributed")
    R.floor(1)


def r16(F, R):
    """libtest: events that arrive before ParsingFinished are held back and replayed in arrival order — every operation on the held-back
    buffer (the `Vec` field of the writer that event values are pushed into) appends at the end or takes / iterates front to back; nothing
    pops from the back, reverses, sorts or removes out of order (a `started` line would follow its result line)."""
    if LT not in {(b.impl or {}).get("self_adt") for b in F.crate_bodies()}:
        return
    root, bodies = W.handler_bodies(F, LT)
    info = F.adt(LT)
    vecs = [f["name"] for f in info["variants"][0]["fields"] if re.match(r"std::vec::Vec<", f.get("ty", "")) and "event::" in f.get("ty", "")]
    if len(vecs) != 1:
        raise Unverifiable(f"libtest: the held-back event buffer: {vecs}")
    buf = vecs[0]
    OKOPS = r"(Vec::<.*>::(push|extend|append|len|is_empty|iter|drain|clear|capacity|reserve|with_capacity|new)|mem::take|IntoIterator::into_iter|Iterator::(chain|next|for_each|map)|iter::once|Deref::deref|DerefMut::deref_mut|Default::default|slice::.*::iter)$"
    BAD = r"(Vec::<.*>::(pop|remove|swap_remove|insert|reverse|sort\w*|dedup\w*|retain|truncate|split_off|swap)|Iterator::rev|slice::.*::(reverse|sort\w*|rev\w*))$"
    n, bad = 0, []
    for b in bodies:
        for s_, t in b.calls():
            if not t["args"]:
                continue
            if (LT, buf) not in A.slice_back(b, [t["args"][0]]).fields:
                continue
            n += 1
            cp = callee_path(t) or ""
            if re.search(BAD, cp):
                bad.append((s_, re.sub(r"<.*?>", "", cp).rsplit("::", 2)[-1]))
    for s_, nm in bad:
        R.violation(f"libtest/held-back-events-in-order/{nm}", s_, f"the buffer of held-back events is accessed with `{nm}`: events that arrived before ParsingFinished are "
                    f"replayed out of order (a result line before its `started` line)")
    if not bad:
        R.check(n >= 2, "libtest/held-back-events-in-order", root, f"{n} operations on `{buf}`, all appending or front-to-back", f"only {n} operations on the held-back buffer found")
    R.floor(1)


def r17(F, R):
    """Reported durations are whole durations: where a reporter turns a `Duration` into a number it uses a total accessor (`as_nanos`,
    `as_secs_f64`, ..), never a partial one (`subsec_nanos` / `subsec_micros` / `subsec_millis` drop the whole seconds: a 1150 ms step would be
    reported as 150 ms).  Expected count zero; at least one total conversion must exist in every reporter that reports durations."""
    TOTAL = r"Duration::(as_nanos|as_micros|as_millis|as_secs_f64|as_secs_f32|as_millis_f64|as_millis_f32)$"
    PARTIAL = r"Duration::(subsec_nanos|subsec_micros|subsec_millis)$"
    n_total = 0
    seen_mod = set()
    for b in F.crate_bodies():
        if not b.name.startswith("writer::") and not b.name.startswith("<writer::"):
            continue
        for s_, t in b.calls(lambda t: callee_is(t, TOTAL, PARTIAL)):
            if callee_is(t, PARTIAL):
                R.violation(f"whole-durations/{F.root_fn(b).short.rsplit('::', 2)[-2]}::{F.root_fn(b).short.rsplit('::', 1)[-1]}", s_,
                            f"a reported duration is taken with `{(callee_path(t) or '').rsplit('::', 1)[-1]}`: the whole seconds are dropped from it")
            else:
                n_total += 1
                seen_mod.add(b.name.split("::")[1] if b.name.startswith("writer::") else b.name.split("::")[1])
        for s_, st in b.assigns():
            for op in A.rvalue_operands(st["rv"]):
                f_ = op_fn(op)
                if f_ and re.search(TOTAL, f_.get("path", "") or ""):
                    n_total += 1
                elif f_ and re.search(PARTIAL, f_.get("path", "") or ""):
                    R.violation(f"whole-durations/{F.root_fn(b).short.rsplit('::', 1)[-1]}", s_, "a reported duration is taken with a `subsec_*` accessor handed to a combinator: the whole seconds are dropped")
        for s_, t in b.calls():
            for a in t["args"]:
                f_ = op_fn(a)
                if f_ and re.search(PARTIAL, f_.get("path", "") or ""):
                    R.violation(f"whole-durations/{F.root_fn(b).short.rsplit('::', 1)[-1]}", s_, "a reported duration is taken with a `subsec_*` accessor handed to a combinator: the whole seconds are dropped")
                elif f_ and re.search(TOTAL, f_.get("path", "") or ""):
                    n_total += 1
    R.check(n_total >= 1, "whole-durations/total-conversions", None, f"{n_total} total Duration conversions in the reporters, no partial one", "no Duration conversion found in the reporters")
    R.floor(1)


def r18(F, R):
    """libtest: decorating a test event (`with_stdout`, `with_exec_time`, ..) never changes what kind of event it is — on the table of every
    `self -> Self` method of `TestEvent` the returned variant is the variant of `self` (a skipped step must not become `failed` because
    `--show-output` attached its output)."""
    if F.adt(TE) is None:
        return
    from . import deep as D
    n = 0
    for b in F.crate_bodies():
        if (b.impl or {}).get("self_adt") != TE or (b.impl or {}).get("trait") or b.kind not in ("Fn", "AssocFn") or b.arg_count < 1:
            continue
        if re.sub(r"<.*", "", b.locals[1].strip()) != TE or re.sub(r"<.*", "", b.locals[0].strip()) not in (TE, "Self"):
            continue
        rows = D.Deep(F, b, max_paths=100, inline=False).run()
        if not rows or any(p.cut for p in rows):
            continue
        n += 1
        bad = None
        for p in rows:
            inv = [o for a, o in p.conds if a[0] == "discr" and a[1] in (("arg", 1), ("L", 0, 1))]
            if D.is_variant(p.ret, TE) and inv and isinstance(inv[0], str):
                if p.ret[2] not in inv[0].split("|") or "|" in inv[0]:
                    bad = f"a `{inv[0]}` event comes back as `{p.ret[2]}`"
            elif p.ret in (("arg", 1), ("L", 0, 1)):
                pass
            else:
                bad = bad or f"returns {D.fmt(b, p.ret)[:50]}"
        nm = b.short.rsplit("::", 1)[-1]
        R.check(bad is None, f"libtest/decorator-keeps-kind/{nm}", b, "the event's kind is kept", f"`TestEvent::{nm}`: {bad}: the line emitted no longer agrees with the counters and the suite verdict")
    R.check(n >= 1, "libtest/decorator-keeps-kind/methods", None, f"{n} decorator(s)", f"no `self -> Self` method of TestEvent found")
    R.floor(2)


def r19(F, R):
    """libtest: the announced `test_count` is computed from the ParsingFinished event alone (`steps + parser_errors` of the event): the
    writer's own counters are still zero at that point — ParsingFinished is replayed before the held-back events."""
    if F.adt(LT) is None:
        return
    root, bodies = W.handler_bodies(F, LT)
    n = 0
    for b in bodies:
        for s_, st in b.assigns(lambda st: st["rv"]["k"] == "agg" and st["rv"].get("adt") == "writer::libtest::SuiteEvent" and st["rv"].get("variant") == "Started"):
            n += 1
            fl = set()
            for op in st["rv"]["ops"]:
                fl |= set(A.deep_slice(F, b, [op]).fields)
            ev = {n_ for o_, n_ in fl if o_.startswith("event::Cucumber")}
            own = {n_ for o_, n_ in fl if o_ == LT}
            R.check({"steps", "parser_errors"} <= ev and not own, "libtest/test-count-from-event", s_, "test_count = steps + parser_errors of the ParsingFinished event",
                    f"the announced test_count is computed from {sorted(ev)} of the event and the writer's own {sorted(own)}: it does not count what will be reported")
    R.check(n == 1, "libtest/test-count-from-event/site", root, "", f"{n} SuiteEvent::Started constructions")
    # a parser error without a usable path is numbered by the writer's own counter of parser errors — the one the same path advances (another
    # counter stands still between two such errors: they would share one name — two `started` lines, two results, one name)
    from . import deep as D
    from .termtypes import Typer
    exp = [b for b in bodies if any(True for _ in b.assigns(lambda st: st["rv"]["k"] == "agg" and st["rv"].get("adt") == "writer::libtest::SuiteEvent" and st["rv"].get("variant") == "Started"))]
    # (the parser-error arm may live in the routine that matches on the event, or in a private helper that is handed the error)
    helpers = [b for b in bodies if b not in exp and b.kind in ("Fn", "AssocFn") and any("parser::Error" in ty for ty in b.locals[1:b.arg_count + 1])]
    ctor_names = {cb.name for cb in test_event_ctors(F).values()}
    n_err, bad = 0, None
    for b in exp + helpers:
        whole = b in helpers
        dp = D.Deep(F, b, inline=False, max_paths=3000)
        T = Typer(F, b, dp)
        for p in dp.run():
            if not whole and not any(a[0] == "discr" and o == "Err" and dp.adt_of.get(a, "") == "std::result::Result" for a, o in p.conds):
                continue
            named = [e for e in p.effects if e[0] == "call" and e[1] in ctor_names]
            if not named:
                continue
            n_err += 1
            written = {(T.path(("ref", e[1])) or "") for e in p.effects if e[0] == "write"}
            for e in named:
                used = {r for r in T.roots(e[2][0]) if r.startswith("self.")}
                extra = {u for u in used if not any(w == u or w.startswith(u + ".") or u.startswith(w + ".") for w in written)}
                if extra:
                    bad = f"the name of a parser-error test is numbered by {sorted(extra)}, which this path does not advance (it writes {sorted(w for w in written if w)})"
    if n_err:
        R.check(bad is None, "libtest/parser-error-numbered-by-own-counter", exp[0] if exp else root, "numbered by the counter the same path advances",
                (bad or "") + ": consecutive path-less parser errors get the same name")
    else:
        R.ok("libtest/parser-error-numbered-by-own-counter", root, "no parser-error path recognised in this spelling: the clause is not decided")
    R.floor(2)


VERBOSITY_TABLE = {
    # documented CLI semantics (doc comments of the two `Cli` structs): `-v` counts up from "keep what the writer was built with";
    # `--junit-v 0|1` SETS the verbosity (0 = default, 1 = with World), absent = keep
    "writer::basic::Basic": {0: None, 1: "Default", 2: "ShowWorld", "other": "ShowWorldAndDocString"},
    "writer::junit::JUnit": {"None": None, 0: "Default", "other": "ShowWorld"},
}


def T_path(F, b, e):
    """dotted path of the place a write effect stores into (`self.verbosity`)"""
    from .termtypes import Typer
    key = ("_typer", b.key)
    cache = getattr(F, "_typer_cache", None)
    if cache is None:
        cache = F._typer_cache = {}
    if key not in cache:
        cache[key] = Typer(F, b, None)
    try:
        return cache[key].path(("ref", e[1]))
    except Exception:
        return None


def r20(F, R):
    """Reporter CLI options: what `apply_cli` does to the writer's verbosity per value of the option — on its deep table — is the documented
    table (`-v` absent keeps the verbosity the writer was constructed with; `--junit-v 0` resets to the default, absent keeps)."""
    from . import deep as D
    n = 0
    for adt, table in VERBOSITY_TABLE.items():
        bs = [b for b in F.crate_bodies() if (b.impl or {}).get("self_adt") == adt and not (b.impl or {}).get("trait") and b.name.endswith("::apply_cli")]
        if not bs:
            continue
        if len(bs) != 1:
            raise Unverifiable(f"apply_cli of {adt}: {len(bs)}")
        b = bs[0]
        rows = D.Deep(F, b, max_paths=400).run()
        if not rows or any(p.cut for p in rows):
            raise Unverifiable(f"{adt}::apply_cli: empty table or a loop")
        got = {}
        for p in rows:
            key = None
            for a, o in p.conds:
                if a[0] == "discr" and o == "None" and D.mentions(a, lambda y: y == ("arg", 2)) and "Coloring" not in str(a):
                    key = "None"
                elif a[0] == "bin" and a[1] in ("Eq", "Ne") and D.mentions(a, lambda y: y == ("arg", 2)) and isinstance(a[3], tuple) and a[3][0] == "const" and isinstance(o, bool):
                    k_ = a[3][1]
                    key = k_ if (o is True) == (a[1] == "Eq") else "other"     # `level == 0` / `level != 0`
                elif a[0] != "discr" and a[0] != "bin" and D.mentions(a, lambda y: y == ("arg", 2)) and (isinstance(o, (int, bool)) or o == "other"):
                    key = "other" if o == "other" else int(o)
                    if isinstance(o, bool) and o is True:
                        key = "other"      # a two-way switch on the number: `0` against everything else
            ws = [e[2][2] for e in p.effects if e[0] == "write" and isinstance(e[2], tuple) and len(e[2]) == 4 and e[2][0] == "variant" and e[2][1].endswith("Verbosity")]
            got.setdefault(key, set()).add(ws[-1] if ws else None)
        flat = {k: (next(iter(v)) if len(v) == 1 else sorted(map(str, v))) for k, v in got.items()}
        n += 1
        computed = any(e[0] == "write" and (T_path(F, b, e) or "").endswith("verbosity") and not (isinstance(e[2], tuple) and len(e[2]) == 4 and e[2][0] == "variant") for p in rows for e in p.effects)
        if computed:
            # the value is computed (`Verbosity::from(n - 1)`): only the documented "keep" case is decided here — some row leaves the verbosity
            # alone, and every such row has learned that the option is absent / zero; rows that learned so never write
            def absent(p):
                for a, o in p.conds:
                    if a[0] == "discr" and o == "None" and D.mentions(a, lambda y: y == ("arg", 2)):
                        return True
                    if a[0] != "discr" and D.mentions(a, lambda y: y == ("arg", 2)):
                        if (o == 0 and not isinstance(o, bool)) or (a[0] == "bin" and a[1] == "Lt" and a[3] == ("const", 1) and o is True) or (a[0] == "bin" and a[1] == "Eq" and a[3] == ("const", 0) and o is True):
                            return True
                return False
            writes = lambda p: any(e[0] == "write" and (T_path(F, b, e) or "").endswith("verbosity") for e in p.effects)
            keep_rows = [p for p in rows if not writes(p)]
            ok_keep = bool(keep_rows) and all(absent(p) for p in keep_rows) and not any(writes(p) for p in rows if absent(p))
            R.check(ok_keep, f"cli-verbosity/{adt.rsplit('::', 1)[-1]}", b, "an absent option keeps the constructed verbosity (computed form: only this clause is decided)",
                    f"`{adt.rsplit('::', 1)[-1]}::apply_cli` overwrites the verbosity although the option is absent (or keeps it although it is given): the verbosity the writer was constructed with is lost at the first event")
            continue
        R.check(flat == table, f"cli-verbosity/{adt.rsplit('::', 1)[-1]}", b, f"option value -> verbosity: {table}",
                f"`{adt.rsplit('::', 1)[-1]}::apply_cli` maps the verbosity option as {flat}; documented: {table} — the report no longer shows what the run was configured to show")
    R.floor(1)


def r21(F, R):
    """Terminal writer: indentation is what places a line under its rule / scenario / step, and it is kept by a counter that every bracket
    opens and closes by the same amount — on the scenario dispatcher's table (all of the writer's own methods inlined, everything that writes
    no field pruned) the net change of `indent` is +k for a Started event and −k (or nothing, on an I/O error path) for each of its result
    events: Step and Background Started against Passed / Skipped / Failed, Hook Started against Passed / Failed, Scenario Started against
    Finished.  A result that takes off more than its Started put on moves the following scenarios of a rule out from under it."""
    from . import deep as D
    from .termtypes import Typer
    BA = "writer::basic::Basic"
    own = lambda cb: bool(cb.impl and cb.impl.get("self_adt") == BA and not cb.impl.get("trait"))
    disp = [b for b in F.crate_bodies() if own(b) and any("event::RetryableScenario" in t for t in b.locals[1:b.arg_count + 1])]
    if len(disp) != 1:
        raise Unverifiable(f"Basic's scenario-event dispatcher: {len(disp)}")
    disp = disp[0]
    dp = D.Deep(F, disp, inline_only=own, opaque=r"WriteStrExt::|writer::out::|format_|coerce_error|trim_path", max_paths=60000, prune=True)
    rows = dp.run()
    if not rows:
        raise Unverifiable("Basic::scenario: empty table")
    T = Typer(F, disp, dp)
    ev_arg = [i for i in range(1, disp.arg_count + 1) if "event::RetryableScenario" in disp.locals[i]][0]

    def delta(t):
        if not isinstance(t, tuple) or not t:
            return None
        if t[0] == "bin" and t[1] in ("Add", "AddWithOverflow", "Sub", "SubWithOverflow") and t[3][0] == "const" and isinstance(t[3][1], int):
            d = delta(t[2])
            return None if d is None else d + (t[3][1] if t[1].startswith("Add") else -t[3][1])
        if t[0] == "tuple":
            return delta(t[1][0])
        if t[0] == "field" and isinstance(t[1], tuple) and t[1] and t[1][0] == "tuple":
            return delta(t[1][1][t[2]])
        if len(t) == 4 and t[0] == "call" and re.search(r"(saturating|wrapping|checked)_sub$", t[1]) and len(t[2]) == 2 and t[2][1][0] == "const":
            d = delta(t[2][0])
            return None if d is None else d - t[2][1][1]
        if len(t) == 4 and t[0] == "call" and re.search(r"(saturating|wrapping|checked)_add$", t[1]) and len(t[2]) == 2 and t[2][1][0] == "const":
            d = delta(t[2][0])
            return None if d is None else d + t[2][1][1]
        if t[0] == "field":
            return 0
        if t[0] in ("deref", "ref", "conv", "refto"):
            return delta(t[1])
        return None
    tab = {}
    for p in rows:
        d = {}
        for a, o in p.conds:
            if a[0] == "discr" and isinstance(o, str):
                adt = dp.adt_of.get(a, "")
                if adt.startswith("event::") and D.mentions(a[1], lambda x: x == ("arg", ev_arg)):
                    d.setdefault(adt.rsplit("::", 1)[-1], o)
        ws = [e for e in p.effects if e[0] == "write" and (T.path(("ref", e[1])) or "") == "self.indent"]
        dl = delta(ws[-1][2]) if ws else 0
        kind = d.get("Scenario")
        sub = d.get("Step") if kind in ("Background", "Step") else d.get("Hook") if kind == "Hook" else None
        for k1 in (kind or "?").split("|"):
            for s1 in (sub.split("|") if sub else [None]):
                tab.setdefault((k1, s1), set()).add(dl)
    n = 0
    for kind, results in (("Step", ("Passed", "Skipped", "Failed")), ("Background", ("Passed", "Skipped", "Failed")), ("Hook", ("Passed", "Failed"))):
        op = tab.get((kind, "Started"), set())
        if len(op) != 1 or None in op:
            R.unverifiable(f"indent-balance/{kind}", f"indent change of {kind}::Started is {sorted(map(str, op))}")
            continue
        k = next(iter(op))
        for res in results:
            n += 1
            got = tab.get((kind, res), set())
            R.check(bool(got) and None not in got and (got - {0}) <= {-k} and (k == 0 or -k in got), f"indent-balance/{kind}::{res}", disp, f"Started {k:+d}, {res} {-k:+d}",
                    f"terminal writer: {kind}::Started changes the indentation by {k:+d} but {kind}::{res} by {sorted(map(str, got))}: the lines that follow are placed under the wrong rule / scenario")
    so, sf = tab.get(("Started", None), set()), tab.get(("Finished", None), set())
    n += 1
    R.check(len(so) == 1 and None not in so and None not in sf and (sf - {0}) <= {-next(iter(so))}, "indent-balance/Scenario", disp, "Scenario::Started / Finished balance",
            f"terminal writer: Scenario::Started changes the indentation by {sorted(map(str, so))}, Scenario::Finished by {sorted(map(str, sf))}")
    R.floor(6)


def r22(F, R):
    """Locations name what exists: `trim_path` (strips the project directory and leading separators) is applied to paths only — at none of its
    uses (direct calls, `.map(trim_path)`) can the value be a feature's / scenario's *name* (the fall-back shown for a path-less feature): a name
    starting with `/` or the project directory would be reported mutilated, naming a feature that does not exist in the run."""
    n = 0
    bad = {}
    for b in F.crate_bodies():
        for s_, t in b.calls():
            vals = []
            if callee_is(t, r"writer::basic::trim_path$|(^|::)trim_path$") and t["args"]:
                vals.append(t["args"][0])
            elif any((op_fn(a) or {}).get("path", "").endswith("trim_path") for a in t["args"]) and t["args"]:
                vals.append(t["args"][0])        # `opt.map(trim_path)` / `.and_then(|p| p.to_str().map(trim_path))`: the receiver
            for v in vals:
                n += 1
                fl = A.deep_slice(F, b, [v]).fields
                names = sorted(o for o, n_ in fl if n_ == "name" and o.startswith("gherkin::"))
                if names:
                    bad[F.root_fn(b).short] = (s_, names)
    for fn, (s_, names) in sorted(bad.items()):
        R.violation(f"trim-path-on-paths-only/{fn.rsplit('::', 1)[-1]}", s_, f"`trim_path` can be handed the name of a {names}: a path-less feature whose name starts with `/` (or the project "
                    f"directory) is reported under a mutilated name")
    if not bad:
        R.check(n >= 3, "trim-path-on-paths-only", None, f"{n} uses of trim_path, all on paths", f"only {n} uses of trim_path found")
    R.floor(1)


RULES = [("R22", r22, None), ("R21", r21, None), ("R20", r20, None), ("R19", r19, ["all", "libtest"]), ("R18", r18, ["all", "libtest"]), ("R17", r17, None), ("R16", r16, ["all", "libtest"]), ("R15", r15, ["all", "junit"]), ("R14", r14, None), ("R13", r13, None), ("R12", r12, None), ("R11", r11, None), ("R10", r10, ["all", "json"]), ("R9", r9, None), ("R8", r8, ["all", "junit"]), ("R7", r7, ["all", "json"]), ("R6", r6, ["all", "json"]), ("R5", r5, ["all", "junit"]), ("R1", r1, None), ("R2", r2, None), ("R3", r3, None), ("R4", r4, None)]
