"""C07 — @serial scenarios run in isolation (DESIGN §4 C07)."""
import re

from . import analysis as A
from . import roles
from . import tags
from .c04 import role_get, role_insert, role_run_fn, _reaches_block
from .mir import Site, Unverifiable, callee_is, callee_path, const_int, const_str, op_const, op_fn, op_local, op_place, place_fields

CFGS = {"quick": ["default", "all"], "thorough": ["default", "all", "nodefault", "tracing"]}

EXPLANATION = """
Static rules over the MIR of the scheduler's hand-out path: (R1) the default classifier reads the tags of scenario,
rule and feature, compares with "serial", yields Serial on a hit / Concurrent otherwise, and the enqueue path groups
by the classifier's result; (R2) GET tries the Serial queue before the Concurrent one and with a batch size that is
provably <= 1; (R3) necessary-information rule: handing out a Serial entry must depend on the in-flight set being
empty — the GET call in EXECUTE must pass (or be guarded by) an in-flight witness (FuturesUnordered::is_empty/len)
and the Serial drain inside GET must be data- or control-dependent on that parameter; (R4) between the pushes of a
batch and the next GET exactly one completion is awaited (so the completion awaited after a serial dispatch is the
serial one).  Decides these structural necessary conditions; does not execute any schedule.
Added after the second seeded round: (R4, extended) the loop's await can complete only through a completion: it is next() of the in-flight set or the crate's biased select of a never-completing future with exactly next() (read from the future's type); (R5) a retried scenario is re-enqueued under the type it was handed out with: GET's batch element -> RUN's parameter -> retry insertion -> ENQUEUE's key.
"""
DECLINED = ["custom which_scenario classifiers supplied by the user (arbitrary closures)"]
ASSUMPTIONS = ["FuturesUnordered::is_empty / len reflect the number of attempts in flight"]


def default_classifier(F):
    """The fn-pointer stored in field `which_scenario` by `<Basic<World> as Default>::default`."""
    ds = [b for b in F.crate_bodies() if b.impl and b.impl.get("trait") == "std::default::Default"
          and b.impl.get("self_adt") == "runner::basic::Basic" and b.name.endswith("::default")]
    if len(ds) != 1:
        raise Unverifiable(f"Default for runner::basic::Basic: {len(ds)} impls")
    d = ds[0]
    aggs = [(s, st) for s, st in d.assigns(lambda st: st["rv"]["k"] == "agg" and st["rv"].get("adt") == "runner::basic::Basic")]
    if len(aggs) != 1:
        raise Unverifiable("Basic aggregate in Default::default not unique")
    s, st = aggs[0]
    idx = st["rv"]["fields"].index("which_scenario")
    sl = A.slice_back(d, [st["rv"]["ops"][idx]])
    cl = [rv["def"] for _, rv in sl.aggs if rv.get("agg") == "closure"]
    if len(cl) == 1:
        return d, F.body(cl[0])
    # ... or a private fn item
    fns = [F.body(f.get("res") or f["path"], d.crate) or F.body(f["path"], d.crate) for f in sl.fns if f.get("local")]
    fns = [b for b in fns if b is not None]
    if len(fns) != 1:
        raise Unverifiable(f"default which_scenario does not slice to one closure / fn item: {cl} {[b.name for b in fns]}")
    return d, fns[0]


def r1(F, R):
    d, cb = default_classifier(F)
    bodies = F.nested(cb)
    fields, strs, aggs = set(), [], []
    for b in bodies:
        for site, st in b.assigns():
            for pl in A.rvalue_places(st["rv"]):
                fields.update(place_fields(pl))
            for op in A.rvalue_operands(st["rv"]):
                if const_str(op) is not None:
                    strs.append(const_str(op))
            if st["rv"]["k"] == "agg" and st["rv"].get("adt") == "runner::basic::ScenarioType":
                aggs.append((b, site, st["rv"]["variant"]))
        for site, t in b.calls():
            for a in t["args"]:
                if const_str(a) is not None:
                    strs.append(const_str(a))
    for owner in ("gherkin::Scenario", "gherkin::Rule", "gherkin::Feature"):
        R.check((owner, "tags") in fields, f"classifier-reads/{owner.split('::')[1].lower()}-tags", cb,
                f"default classifier reads {owner}.tags", f"default which_scenario ignores the tags of {owner}: @serial there is not honoured")
    R.check(strs == ["serial"], "classifier-tag-literal", cb, 'compares with "serial"', f"default classifier compares tags with {strs}")
    # the searched iterator is the unconditional union of the three tag levels
    searches = [(b, s, t) for b in bodies for s, t in b.calls(lambda t: callee_is(t, r"Iterator::(find|any|position|find_map)$"))]
    cmps = [(b, s, t) for b in bodies for s, t in b.calls(lambda t: callee_is(t, r"PartialEq.*::(eq|ne)$")) if b.in_cycle(s) and
            any(const_str(c) == "serial" for c in A.slice_back(b, list(t["args"])).consts)]
    if not searches and len(cmps) == 1:
        # explicit-loop spelling (`for tags in [..] { for tag in tags { if tag == "serial" {..} } }`): one comparison with the literal, inside a
        # loop, and what is compared derives from the tags of all three levels (weaker than the union rule below: which level is consulted
        # when is not decided in this form)
        b, s_c, t_c = cmps[0]
        R.ok("classifier-search", s_c, "one comparison with the literal inside a loop")
        ds = A.deep_slice(F, b, list(t_c["args"]))
        got = {o for o, n in ds.fields if n == "tags"}
        R.check({"gherkin::Scenario", "gherkin::Rule", "gherkin::Feature"} <= got, "classifier-tags/covers-three-levels", s_c, "the compared tag comes from scenario, rule and feature tags",
                f"the tag compared with \"serial\" derives from the tags of {sorted(got)} only")
    else:
        R.check(len(searches) == 1, "classifier-search", cb, "one search over the tags", f"{len(searches)} searches in the classifier")
    if len(searches) == 1:
        sb, ss, st_ = searches[0]
        tags.check_tag_union(F, R, sb, st_["args"][0], "classifier-tags", ss, "classifier's tag")
    # polarity: found => Serial, not found => Concurrent
    mo = [(b, s, t) for b in bodies for s, t in b.calls(lambda t: callee_is(t, r"Option::<.*>::map_or$"))
          if b.locals[t["dest"]["l"]] == "runner::basic::ScenarioType"]
    ok_pol = False
    if len(mo) == 1:
        b, s, t = mo[0]
        sl_def = A.slice_back(b, [t["args"][1]])
        dflt = [rv["variant"] for _, rv in sl_def.aggs if rv.get("adt") == "runner::basic::ScenarioType"]
        kb_some = A.closure_of_operand(F, b, t["args"][2])
        some = []
        for c in ([kb_some] if kb_some is not None else []):
            for nb in F.nested(c):
                some += [st["rv"]["variant"] for _, st in nb.assigns(lambda st: st["rv"]["k"] == "agg" and st["rv"].get("adt") == "runner::basic::ScenarioType")]
        recv = A.slice_back(b, [t["args"][0]])
        ok_pol = dflt == ["Concurrent"] and some == ["Serial"] and recv.has_call(r"Iterator::find$", r"Iterator::(position|find_map)$")
        R.check(ok_pol, "classifier-polarity", s, "find(tag == serial).map_or(Concurrent, |_| Serial)",
                f"classifier yields {some} when the tag is found and {dflt} otherwise")
    else:
        # if/else form: Serial aggregate guarded by the true edge of a bool derived from the comparison
        ser = [(b, s) for b, s, v in aggs if v == "Serial"]
        con = [(b, s) for b, s, v in aggs if v == "Concurrent"]
        good = False
        for b, s in ser:
            for g in A.guards_of(b, s):
                if g.polarity() is True:
                    good = True
        R.check(good and bool(con), "classifier-polarity", cb, "Serial only on the positive edge of the tag test",
                "cannot establish that Serial is produced exactly when the serial tag is found")
    # the enqueue path groups by the classifier
    _, _, ins = role_insert(F)
    grp = [(s, t) for s, t in ins.calls(lambda t: callee_is(t, r"into_group_map_by$", r"into_group_map$", r"group_by$"))]
    from .c04 import loop_enqueue_idiom
    keyed = [(b, ent) for b, s, t, ent, cont in loop_enqueue_idiom(F, ins)["pushes"] if ent is not None]
    if not grp and keyed:
        # explicit-loop spelling: every element is pushed to `map.entry(key).or_default()`
        R.ok("group-by-present", ins, "grouped by map.entry(key)…push(..)")
        ok = True
        for b, ent in keyed:
            rsl = A.slice_back(b, [ent["args"][1]])
            ok = ok and any((op_fn(ct["func"]) or {}).get("self", "").lstrip("&") in ("Which", "F") and
                            re.search(r"ops::Fn(Mut|Once)?$", (op_fn(ct["func"]) or {}).get("trait", "")) for _, ct in rsl.calls)
        R.check(ok, "group-key-is-classifier-result", ins, "group key = which_scenario(feature, rule, scenario)",
                "the grouping key is not the result of the which_scenario classifier")
        R.floor(6)
        return
    R.check(len(grp) == 1, "group-by-present", ins, "", f"{len(grp)} grouping calls on the enqueue path")
    if len(grp) == 1:
        s, t = grp[0]
        kb0 = A.closure_of_operand(F, ins, t["args"][1])
        ok = False
        for kb in ([kb0] if kb0 is not None else []):
            rsl = A.slice_back(kb, start_locals=[0])
            for _, ct in rsl.calls:
                f = op_fn(ct["func"])
                if f and re.search(r"ops::Fn(Mut|Once)?$", f.get("trait", "")) and f.get("self", "").lstrip("&") in ("Which", "F"):
                    ok = True
        R.check(ok, "group-key-is-classifier-result", s, "group key = which_scenario(feature, rule, scenario)",
                "the grouping key is not the result of the which_scenario classifier")
    R.floor(6)


def drain_invocations(F, get_body):
    """Calls (in GET or its closures) of the drain closure: `FnMut::call_mut(drain, (storage, ScenarioType::X, count))`."""
    out = []
    for b in F.nested(get_body):
        for s, t in b.calls(lambda t: callee_is(t, r"ops::FnMut::call_mut$", r"ops::Fn::call$", r"ops::FnOnce::call_once$")):
            if len(t["args"]) != 2:
                continue
            tup = op_local(t["args"][1])
            if tup is None:
                continue
            sd = b.single_def(tup)
            if sd is None or sd[1] != "assign" or sd[2]["rv"]["k"] != "agg" or sd[2]["rv"].get("agg") != "tuple":
                continue
            ops = sd[2]["rv"]["ops"]
            ty = None
            ty_idx = None
            for i, op in enumerate(ops):
                sl = A.slice_back(b, [op])
                vs = [rv["variant"] for _, rv in sl.aggs if rv.get("adt") == "runner::basic::ScenarioType"]
                if len(vs) == 1 and b.locals[op_local(op)] == "runner::basic::ScenarioType" if op_local(op) is not None else False:
                    ty, ty_idx = vs[0], i
            if ty is None:
                continue
            count_ops = [op for i, op in enumerate(ops) if i != ty_idx and op_local(op) is not None and
                         b.locals[op_local(op)] == "std::option::Option<usize>"]
            out.append((b, s, t, ty, count_ops))
    # the drain routine as a private fn: `Self::drain_ready(storage, Serial, Some(n), &mut min_dur)`
    from . import sched as S
    try:
        drain_body = S.drain_predicate(F)[1]
    except Unverifiable:
        drain_body = None
    if drain_body is not None and drain_body.kind in ("Fn", "AssocFn"):
        for b in F.nested(get_body):
            for s, t in b.calls():
                if F.callee_body(t, b.crate) is not drain_body:
                    continue
                ty = None
                count_ops = []
                for op in t["args"]:
                    l = op_local(op)
                    lty = b.locals[l] if l is not None else (op.get("ty") if isinstance(op, dict) else None)
                    vs = [rv["variant"] for _, rv in A.slice_back(b, [op]).aggs if rv.get("adt") == "runner::basic::ScenarioType"]
                    if lty == "runner::basic::ScenarioType" and len(vs) == 1:
                        ty = vs[0]
                    elif lty is None and isinstance(op, dict) and "ScenarioType::" in str(op.get("v", "")):
                        ty = str(op["v"]).rsplit("::", 1)[-1]
                    elif lty == "std::option::Option<usize>":
                        count_ops.append(op)
                if ty is not None:
                    out.append((b, s, t, ty, count_ops))
    return out


def r2(F, R):
    aw, get = role_get(F)
    inv = drain_invocations(F, get)
    ser = [x for x in inv if x[3] == "Serial"]
    con = [x for x in inv if x[3] == "Concurrent"]
    R.check(len(ser) == 1 and len(con) == 1, "drain-invocations", get, "one Serial and one Concurrent drain",
            f"{len(ser)} Serial / {len(con)} Concurrent drain invocations in GET")
    if len(ser) != 1 or len(con) != 1:
        return
    b, s, t, ty, cops = ser[0]
    # size <= 1
    ubs = [A.upper_bound(F, b, op) for op in cops]
    ok = bool(ubs) and max(ubs) <= 1
    why = f"upper bound {ubs}"
    R.check(ok, "serial-batch-at-most-one", s, f"serial drain count = {why}",
            "the Serial drain is not limited to at most one entry (count is not the constant <=1 nor a bool conversion)")
    # Serial is tried before (and instead of) Concurrent — on GET's path table (spelling-independent; deep.py / sched.py)
    from . import sched as S
    GT = S.GetTable(F)
    pref, seen_both = True, False
    why = ""
    for p in GT.paths:
        ds = GT.drains(p)
        sers = [d for d in ds if d[1] == "Serial"]
        cons = [d for d in ds if d[1] == "Concurrent"]
        if any(d[1] == "?" for d in ds):
            pref, why = False, "a drain invocation whose queue kind is not a constant"
        if cons:
            # a concurrent drain happens only after the serial queue was consulted and gave nothing
            ser_lookup = [i for i, e in enumerate(p.effects) if e[0] == "call" and re.search(r"HashMap(::<.*>)?::get(_mut)?$", e[1]) and
                          any(S.D.is_variant(x, "runner::basic::ScenarioType", "Serial") for a in e[2] for x in S.D.subterms(a))]
            if sers:
                seen_both = True
                if not (sers[0][0] < cons[0][0] and GT.gave(p, sers[0]) == "nothing"):
                    pref, why = False, "the Concurrent queue is drained although the Serial drain handed out a scenario (or before it)"
            elif not (ser_lookup and ser_lookup[0] < cons[0][0]):
                pref, why = False, "the Concurrent queue is drained without consulting the Serial queue first"
        if len(sers) > 1 or len(cons) > 1:
            pref, why = False, "a queue is drained twice in one GET"
    R.check(pref and seen_both, "serial-before-concurrent", ser[0][1], "GET = serial.or_else(concurrent)",
            "GET does not try the Serial queue before (and instead of) the Concurrent queue" + (": " + why if why else ""))
    # the concurrent drain gets the caller's limit
    b, s, t, ty, cops = con[0]
    okc = False
    for op in cops:
        ds = A.deep_slice(F, b, [op])
        if ds.root_params:
            okc = True
    R.check(okc, "concurrent-count-is-limit", s, "concurrent drain count = GET's limit parameter",
            "the Concurrent drain count does not derive from GET's limit parameter")
    R.floor(4)


def _rv_at(site):
    if site.idx == "T":
        return None
    return site.body.blocks[site.bb]["stmts"][site.idx]["rv"]


def _bool_params(F, ds):
    return set()


def r3(F, R):
    ex = roles.execute(F)
    aw, get = role_get(F)
    get_fn = F.parent_body(get)
    calls = [(s, t) for s, t in ex.calls() if F.callee_body(t) is get_fn]
    if len(calls) != 1:
        raise Unverifiable(f"{len(calls)} GET calls in EXECUTE")
    s_get, t_get = calls[0]
    infl = [aw2 for aw2 in A.awaits(ex) if re.search(r"FuturesUnordered<", aw2.fut_type)]
    # witness at the call site: some argument (or a guard of the call) slices to is_empty/len of the in-flight set
    WIT = (r"FuturesUnordered::<.*>::(is_empty|len)$",)
    witness_args = []
    for i, a in enumerate(t_get["args"]):
        # direct dependence only: results of earlier awaits (previous loop turns) are not followed
        sl = A.slice_back(ex, [a], stop_calls=[r"Future::poll$"])
        if sl.has_call(*WIT):
            witness_args.append(i)
    guard_wit = False
    for g in A.guards_of(ex, s_get):
        l = g.discr_local
        if l is not None and A.slice_back(ex, start_locals=[l], stop_calls=[r"Future::poll$"]).has_call(*WIT):
            guard_wit = True
    inv = drain_invocations(F, get)
    ser = [x for x in inv if x[3] == "Serial"]
    if len(ser) != 1:
        raise Unverifiable(f"{len(ser)} Serial drain invocations")
    b, s, t, ty, cops = ser[0]
    if not witness_args and not guard_wit:
        R.violation("serial-dispatch-needs-in-flight-witness", s_get,
                    "GET is called with the free-slot value only: whether a Serial entry is handed out cannot depend on what is "
                    "in flight, so a serial scenario that becomes ready late (delayed retry, lazily parsed feature) starts while "
                    "concurrent scenarios are still running")
        R.floor(1)
        return
    if guard_wit and not witness_args:
        R.ok("serial-dispatch-needs-in-flight-witness", s_get, "GET call is guarded by an in-flight witness")
        R.floor(1)
        return
    # the parameter(s) receiving the witness must influence the Serial drain
    # GET fn params: local index = arg index + 1 ; coroutine upvar index = arg index
    dep_params = set()
    for op in cops:
        ds = A.deep_slice(F, b, [op])
        dep_params |= {p for k, p in ds.root_params if k == get_fn.key}
    # control dependence: guards of the invocation site and of the closure chain
    cur_b, cur_s = b, s
    for _ in range(6):
        for g in A.guards_of(cur_b, cur_s):
            l = g.discr_local
            if l is not None:
                ds = A.deep_slice(F, cur_b, start_locals=[l])
                dep_params |= {p for k, p in ds.root_params if k == get_fn.key}
        cc = A.closure_creation(F, cur_b)
        if cc is None or cur_b is get:
            break
        cur_b, cur_s = cc[0], cc[1]
    wit_params = {i + 1 for i in witness_args}
    R.check(bool(dep_params & wit_params), "serial-dispatch-needs-in-flight-witness", s,
            f"Serial drain depends on GET parameter(s) {sorted(dep_params & wit_params)} that carry the in-flight witness",
            f"the in-flight witness is passed to GET (arg {witness_args}) but the Serial drain does not depend on it (depends on params {sorted(dep_params)})")
    R.floor(1)


def r4(F, R):
    ex = roles.execute(F)
    aw, get = role_get(F)
    get_fn = F.parent_body(get)
    calls = [(s, t) for s, t in ex.calls() if F.callee_body(t) is get_fn]
    pushes = [(s, t) for s, t in ex.calls(lambda t: callee_is(t, r"FuturesUnordered::<.*>::push$"))]
    infl = [a for a in A.awaits(ex) if re.search(r"FuturesUnordered<", a.fut_type)]
    if len(calls) != 1 or len(pushes) != 1 or len(infl) != 1:
        raise Unverifiable(f"GET calls={len(calls)} pushes={len(pushes)} in-flight awaits={len(infl)}")
    s_get, s_push, a = calls[0][0], pushes[0][0], infl[0]
    # every path push -> next GET passes the Ready edge of the completion await
    ready_site = Site(ex, a.ready_bb, 0 if ex.blocks[a.ready_bb]["stmts"] else "T")
    reach = _reaches_block(ex, ex.succ[s_push.bb][0], s_get.bb, [ready_site])
    R.check(not reach, "one-completion-between-dispatches", a.poll_site,
            "every path from a dispatch to the next GET awaits one completion",
            "a path leads from pushing a batch to the next GET without awaiting a completion (a second batch could start beside a serial scenario)")
    # it awaits ONE completion: the awaited future is `next()` of the in-flight set, not a join/collect of all
    ty = a.fut_type
    R.check(bool(re.search(r"stream::Next<'_, futures::stream::FuturesUnordered<", ty)), "awaits-single-completion", a.poll_site,
            "awaits StreamExt::next of the in-flight set", f"the in-flight await is not a single `next()`: {ty[:100]}")
    # ... and ONLY a completion can complete it: the awaited future is `next()` itself, or the crate's biased select of a future
    # that never completes (pending() / the log forwarder's endless loop) with exactly `next()` — not `next()` wrapped in a
    # race with a timer or anything else that lets the loop turn while a serial scenario is still running
    def targs(t):
        i = t.find("<")
        if i < 0 or not t.endswith(">"):
            return t, []
        out, depth, cur = [], 0, ""
        for ch in t[i + 1:-1]:
            if ch == "<":
                depth += 1
            elif ch == ">":
                depth -= 1
            if ch == "," and depth == 0:
                out.append(cur.strip())
                cur = ""
            else:
                cur += ch
        if cur.strip():
            out.append(cur.strip())
        return t[:i], out
    NEXT = r"^futures::stream::Next<'_, futures::stream::FuturesUnordered<"
    head, args = targs(ty)
    only = bool(re.search(NEXT, ty))
    why = ""
    if not only:
        only = head == "future::SelectWithBiasedFirst" and len(args) == 2 and re.search(NEXT, args[1]) is not None
        why = f"second arm is {args[1][:80] if len(args) > 1 else '?'}"
        if only:
            first = args[0]
            never = first.startswith("futures::future::Pending<")
            m = re.search(r"\{async block@([^ :]+):(\d+):", first)
            if not never and m:
                for nb in F.nested(ex):
                    if nb.is_coroutine and nb is not ex and nb.span.startswith(f"{m.group(1)}:{m.group(2)}:"):
                        never = not nb.return_blocks()
            only = never
            why = f"first arm {first[:60]} may complete"
    R.check(only, "only-a-completion-turns-the-loop", a.poll_site, "the loop's await completes only when an in-flight scenario completes",
            f"the scheduling loop's await can complete without a completion ({why}): the next GET can hand out scenarios beside a running serial one")
    R.floor(3)


def r5(F, R):
    """"This holds for first attempts and for retries alike": a retried scenario is re-enqueued under the very type it was handed
    out with — GET's batch element -> RUN's parameter -> the retry insertion -> ENQUEUE's group key — never re-derived
    (a custom `which_scenario` need not agree with any re-derivation)."""
    from .c04 import role_enqueue
    ST = "runner::basic::ScenarioType"
    _, t_e0, enq = role_enqueue(F)
    enq_fn = F.parent_body(enq)
    _, _, ins = role_insert(F)
    ex = roles.execute(F)
    rs = roles.run_scenario(F)
    run_fn = F.parent_body(rs)
    cands = [b for b in F.crate_bodies() if b.is_coroutine and b is not ins and any(F.callee_body(t, b.crate) is enq_fn for _, t in b.calls())]
    if len(cands) != 1:
        raise Unverifiable(f"retry insertion routine (async fn calling ENQUEUE besides INSERT): {len(cands)}")
    ri = cands[0]
    ri_fn = F.parent_body(ri)

    def st_param(fn):
        idx = [i for i, ty in enumerate(fn.locals[1:fn.arg_count + 1]) if ty == ST]
        if len(idx) != 1:
            raise Unverifiable(f"{fn.short}: {len(idx)} ScenarioType parameters")
        return idx[0]
    def fresh_types(sl):
        return [rv["variant"] for _, rv in sl.aggs if rv.get("adt") == ST] + \
               [1 for _, ct in sl.calls if (op_fn(ct["func"]) or {}).get("self", "").lstrip("&") in ("Which", "F") and re.search(r"ops::Fn", (op_fn(ct["func"]) or {}).get("trait", ""))]
    # (d) the retry insertion hands its own type parameter to ENQUEUE
    if not [ty for ty in ri_fn.locals[1:ri_fn.arg_count + 1] if ty == ST]:
        R.violation("retry-keeps-type/insertion", ri, "the retry insertion routine does not receive the scenario's type at all: it re-derives it (a Serial scenario's retry can run concurrently)")
        R.floor(1)
        return
    p_ri = st_param(ri_fn)
    calls = [(s, t) for s, t in ri.calls() if F.callee_body(t, ri.crate) is enq_fn]
    sl = A.slice_back(ri, calls[0][1]["args"][1:], stop_calls=[r"Future::poll$"])
    R.check(p_ri in sl.upvars and not fresh_types(sl), "retry-keeps-type/insertion", calls[0][0], "ENQUEUE's key = the routine's ScenarioType parameter",
            "the retry insertion does not enqueue under the type it was given (it re-derives or fixes the type): a Serial scenario's retry can run concurrently")
    # (c) RUN hands its own type parameter to the retry insertion
    p_run = st_param(run_fn)
    rc = [(nb, s, t) for nb in F.nested(rs) for s, t in nb.calls() if F.callee_body(t, nb.crate) is ri_fn]
    ok_c = len(rc) == 1
    if ok_c:
        nb, s, t = rc[0]
        a = t["args"][p_ri]
        pl = op_place(a)
        ok_c = False
        if pl is not None:
            body2, cp = A.canon_place_deep(F, nb, pl)
            fs = [e for e in cp["p"] if isinstance(e, dict) and e.get("o", "").startswith("{upvar}")]
            ok_c = (body2 is rs and cp["l"] == 1 and len(fs) == 1 and fs[0]["f"] == p_run) or (body2 is run_fn and cp["l"] == p_run + 1 and not cp["p"])
    R.check(ok_c, "retry-keeps-type/attempt", rc[0][1] if rc else rs, "re-insertion with the attempt's own ScenarioType", "the attempt re-inserts its retry under another type than the one it was dispatched with")
    # (b) EXECUTE hands the batch element's type to RUN
    xc = [(s, t) for s, t in ex.calls() if F.callee_body(t, ex.crate) is run_fn]
    ok_b = len(xc) == 1
    if ok_b:
        s, t = xc[0]
        aw_get, get = role_get(F)
        sl = A.slice_back(ex, [t["args"][p_run]], stop_calls=[r"Future::poll$"])
        ok_b = aw_get.poll_site in sl.sites and not fresh_types(sl)
    R.check(ok_b, "retry-keeps-type/dispatch", xc[0][0] if xc else ex, "RUN(.., ty of the batch element, ..)", "EXECUTE does not dispatch a scenario with the type GET handed it out under")
    R.floor(3)


def r6_clone(F, R):
    """The scenario type is copied from the classifier to the queue key and the attempt: a clone keeps the variant."""
    n = roles.check_clone_faithful_table(F, R, r"^runner::basic::ScenarioType$", "clone-faithful")
    R.floor(1)


def r7_setters(F, R):
    """`which_scenario(f)` installs the classifier (runner) / forwards to it (Cucumber)."""
    roles.check_all_builder_setters(F, R, only=r"^which_scenario$", floor=2)


RULES = [("R1", r1, None), ("R2", r2, None), ("R3", r3, None), ("R4", r4, None), ("R5", r5, None), ("R6", r6_clone, None), ("R7", r7_setters, None)]
