"""C06 — never more scenarios in flight than the concurrency limit (DESIGN §4 C06)."""
import re

from . import analysis as A
from . import roles
from .c04 import role_get, role_run_fn, _reaches_block
from .c07 import drain_invocations
from . import sched as S
from . import deep as D
from .mir import Site, Unverifiable, callee_is, callee_path, const_int, op_fn, op_local, op_place, place_fields, place_str

CFGS = {"quick": ["default", "all"], "thorough": ["default", "all", "nodefault", "tracing"]}

EXPLANATION = """
Static rules over the MIR of the slot accounting: (R1) the limit is `cli.concurrency.or(max_concurrent_scenarios)`
(CLI first), it initialises the slot counter, and Basic::default() stores Some(64); (R2) acquire/release pairing in
EXECUTE: the slot counter S (the ControlFlow<(), Option<usize>> local) has exactly three kinds of writes — one
decrement by Vec::len of the very batch that is pushed (before the pushes of the same loop turn), one increment by 1
guarded by "a completion was received" and executed at most once per loop turn, and the fail-fast Break — and GET
receives the current value of S; (R3) bounded take in GET: Some(0) returns an empty batch before touching the
queues, the drain predicate returns true only while taken < count and increments `taken` by exactly 1 per taken
entry; (R4) each loop turn awaits ONE completion (StreamExt::next of the in-flight set), so slots are refilled
after each completion rather than after all.  The invariant payload + in_flight = k follows from these premises.
Added after the second seeded round: (R5) the hand-written Basic::clone fills every field (the limit included) from the like-named field.
"""
DECLINED = ["user code of a scenario running outside its Started/Finished bracket (covered by C02 ordering rules)"]
ASSUMPTIONS = ["FuturesUnordered::next yields exactly one completed element per Ready(Some)"]

SLOT_TY = "std::ops::ControlFlow<(), std::option::Option<usize>>"


def slot_local(ex):
    ls = [l for l, ty in enumerate(ex.locals) if ty == SLOT_TY and ex.debug_name(l)]
    if len(ls) != 1:
        raise Unverifiable(f"slot counter local (ControlFlow<(), Option<usize>>) in EXECUTE: {len(ls)}")
    return ls[0]


def slot_limit_cases(F, ex, op, S, depth=0):
    """What GET's limit argument is, per state of the slot counter S (ControlFlow<(), Option<usize>>):
    {'Continue': 'payload' | ('ub', n) | '?', 'Break': ...}.  Understands `S.continue_value().unwrap_or(d)`,
    `match S { Continue(x) => x, Break(()) => d }` (a local assigned once per arm) and moves of those."""
    unknown = {"Continue": "?", "Break": "?"}
    l = op_local(op)
    if l is None or depth > 6:
        return unknown
    defs = ex.defs.get(l, [])
    if len(defs) == 1:
        site, kind, payload = defs[0]
        if kind == "assign" and payload["rv"]["k"] == "use":
            return slot_limit_cases(F, ex, payload["rv"]["op"], S, depth + 1)
        if kind == "call" and callee_is(payload, r"Option::<.*>::unwrap_or$"):
            rsl = A.slice_back(ex, [payload["args"][0]])
            if rsl.has_call(r"ControlFlow::<.*>::continue_value$") and S in rsl.locals:
                ub = A.upper_bound(F, ex, payload["args"][1])
                return {"Continue": "payload", "Break": ("ub", ub)}
        return unknown
    out = dict(unknown)
    for site, kind, payload in defs:
        if kind != "assign":
            return unknown
        var = None
        for g in A.guards_of(ex, site):
            d = g.cond_def()
            if d and d[0] == "discr" and A.canon_place(ex, d[1])["l"] == S and not A.canon_place(ex, d[1])["p"]:
                vs = g.variants()
                if vs and len(vs) == 1:
                    var = next(iter(vs))
        if var is None:
            return unknown
        rv = payload["rv"]
        val = "?"
        if rv["k"] == "use":
            src = op_place(rv["op"])
            if src is not None:
                cp = A.canon_place(ex, src)
                if cp["l"] == S and [e.get("v") if isinstance(e, dict) else e for e in cp["p"]][:1] == ["Continue"]:
                    val = "payload"
            if val == "?":
                val = ("ub", A.upper_bound(F, ex, rv["op"]))
        elif rv["k"] == "agg":
            tmp = {"k": "copy", "pl": payload["pl"]}
            if rv.get("adt") == "std::option::Option" and str(rv["variant"]) == "Some" and const_int(rv["ops"][0]) is not None:
                val = ("ub", const_int(rv["ops"][0]))
        out[var] = val
    return out


def slot_writes(ex, S):
    """(site, kind, stmt): kind in init/break/dec/inc/other"""
    out = []
    for site, st in ex.assigns():
        cp = A.canon_place(ex, st["pl"]) if st["pl"]["p"] else st["pl"]
        if cp["l"] != S:
            continue
        rv = st["rv"]
        if not cp["p"]:
            sl = A.slice_back(ex, A.rvalue_operands(rv)) if rv["k"] != "agg" else None
            variant = rv.get("variant") if rv["k"] == "agg" else None
            if variant is None and sl is not None:
                vs = [r["variant"] for _, r in sl.aggs if r.get("adt") == "std::ops::ControlFlow"]
                variant = vs[0] if len(vs) == 1 else None
            out.append((site, {"Continue": "init", "Break": "break"}.get(variant, "other"), st))
            continue
        kind = "other"
        if rv["k"] == "use":
            src = op_place(rv["op"])
            if src is not None:
                sd = ex.single_def(src["l"])
                if sd and sd[1] == "assign" and sd[2]["rv"]["k"] == "bin":
                    b = sd[2]["rv"]
                    a_pl = op_place(b["a"])
                    same = a_pl is not None and A.canon_str(ex, a_pl) == place_str(cp)
                    if same and b["op"] in ("SubWithOverflow", "Sub"):
                        kind = ("dec", b)
                    elif same and b["op"] in ("AddWithOverflow", "Add"):
                        kind = ("inc", b)
        out.append((site, kind, st))
    return out


def r1(F, R):
    runs = [b for adt, b in roles.trait_impl_methods(F, r"runner::Runner$", "run") if adt == "runner::basic::Basic"]
    if len(runs) != 1:
        raise Unverifiable("Runner::run impl")
    run = runs[0]
    ex = roles.execute(F)
    ex_fn = F.parent_body(ex)
    calls = [(s, t) for s, t in run.calls() if F.callee_body(t) is ex_fn]
    if len(calls) != 1:
        raise Unverifiable("call of execute in Runner::run")
    s, t = calls[0]
    # which argument is the Option<usize> limit
    idx = [i for i, ty in enumerate(ex_fn.locals[1:ex_fn.arg_count + 1]) if ty == "std::option::Option<usize>"]
    if len(idx) != 1:
        raise Unverifiable("limit parameter of execute")
    # decided on the deep path table of Runner::run: the limit handed to execute is the CLI value when given, the builder's otherwise
    run2, paths2, H = roles.run_merge_table(F)

    def value_of(p):
        e = H["execute"](p)
        return e[2][idx[0]] if e is not None and idx[0] < len(e[2]) else None
    roles.check_option_merge(R, "cli-over-builder", run2, paths2, H["cli"]("concurrency"), H["builder"]("max_concurrent_scenarios"), value_of,
                             "cli.concurrency.or(max_concurrent_scenarios)")
    # the limit initialises the slot counter
    S = slot_local(ex)
    inits = [(site, st) for site, kind, st in slot_writes(ex, S) if kind == "init"]
    ok_init = False
    if len(inits) == 1:
        sl = A.slice_back(ex, A.rvalue_operands(inits[0][1]["rv"]))
        ok_init = idx[0] in sl.upvars and not sl.calls and not sl.bins
    R.check(ok_init, "limit-initialises-slots", inits[0][0] if inits else ex, "slots = Continue(limit)", "the slot counter is not initialised with the limit parameter")
    # default 64
    ds = [b for b in F.crate_bodies() if b.impl and b.impl.get("trait") == "std::default::Default"
          and b.impl.get("self_adt") == "runner::basic::Basic" and b.name.endswith("::default")]
    okd = False
    if len(ds) == 1:
        for site, st in ds[0].assigns(lambda st: st["rv"]["k"] == "agg" and st["rv"].get("adt") == "runner::basic::Basic"):
            f = dict(zip(st["rv"]["fields"], st["rv"]["ops"]))
            okd = A.upper_bound(F, ds[0], f["max_concurrent_scenarios"]) == 64
    R.check(okd, "default-limit-64", ds[0] if ds else None, "Basic::default(): Some(64)", "the default concurrency limit is not Some(64)")
    R.floor(3)


def r2(F, R):
    ex = roles.execute(F)
    S = slot_local(ex)
    ws = slot_writes(ex, S)
    aw_get, get = role_get(F)
    get_fn = F.parent_body(get)
    get_calls = [(s, t) for s, t in ex.calls() if F.callee_body(t) is get_fn]
    pushes = [(s, t) for s, t in ex.calls(lambda t: callee_is(t, r"FuturesUnordered::<.*>::push$"))]
    if len(get_calls) != 1 or len(pushes) != 1:
        raise Unverifiable("GET call / push site")
    s_get, t_get = get_calls[0]
    s_push = pushes[0][0]
    kinds = [k if isinstance(k, str) else k[0] for _, k, _ in ws]
    R.check(sorted(kinds) == ["break", "dec", "inc", "init"], "slot-writes", ex, f"writes of the slot counter: {sorted(kinds)}",
            f"the slot counter is written by {sorted(kinds)}; expected exactly init, dec (dispatch), inc (completion), break (fail-fast)")
    # batch local: first component of the awaited GET result
    for site, k, st in ws:
        if isinstance(k, tuple) and k[0] == "dec":
            b = k[1]
            bl = op_local(b["b"])
            sd = ex.single_def(bl) if bl is not None else None
            is_len = bool(sd and sd[1] == "call" and callee_is(sd[2], r"Vec::<.*>::len$"))
            from_get = False
            if is_len:
                recv = A.canon_place(ex, {"l": op_local(sd[2]["args"][0]), "p": ["*"]})
                # the receiver is the batch: first component of the awaited GET result, untransformed
                fs = place_fields(recv)
                from_get = recv["l"] == aw_get.poll_term["dest"]["l"] and bool(fs) and fs[-1] == ("{tuple}", "0")
            R.check(is_len and from_get, "acquire-by-batch-size", site, "slots -= batch.len()",
                    "the slots are not decremented by the length of the batch returned by GET")
            # same loop turn, before the pushes
            R.check(not ex.site_reaches(s_push, site, stop=[s_get]), "acquire-before-pushes", site, "decrement precedes the pushes of the turn",
                    "the decrement can happen after pushes of the same loop turn")
            R.check(not ex.site_reaches(site, site, stop=[s_get]), "acquire-once-per-turn", site, "", "slots can be decremented twice per loop turn")
            # not skipped when limited: only guards are the Continue/Some destructuring of S itself
            extra = []
            for g in A.guards_of(ex, site):
                d = g.cond_def()
                if d and d[0] == "discr" and A.canon_place(ex, d[1])["l"] == S:
                    continue
                if g.bb in {gg.bb for gg in A.guards_of(ex, s_push)}:
                    continue
                extra.append(A.describe_operand(ex, g.term["discr"]))
            R.check(not extra, "acquire-unconditional", site, "", f"the decrement is additionally conditioned on {extra}")
        if isinstance(k, tuple) and k[0] == "inc":
            b = k[1]
            R.check(const_int(b["b"]) == 1, "release-by-one", site, "slots += 1", "a completion releases a number of slots different from 1")
            ok = False
            for g in A.guards_of(ex, site):
                d = g.cond_def()
                sl = None
                if d and d[0] == "call" and callee_is(d[2], r"Option::<.*>::is_some$") and g.polarity() is True:
                    sl = A.slice_back(ex, [d[2]["args"][0]])
                elif d and d[0] == "discr" and d[2] == "std::option::Option" and g.variants() == {"Some"}:
                    # `if let Some(..) = finished` / a tuple pattern `(Some(()), ..)`
                    cp = A.canon_place(ex, d[1])
                    sl = A.slice_back(ex, [{"k": "copy", "pl": cp}])
                if sl is not None and any(re.search(r"FuturesUnordered<", aw.fut_type) and aw.poll_site in sl.sites for aw in A.awaits(ex)):
                    ok = True
            R.check(ok, "release-iff-completion", site, "guarded by `a completion was received`",
                    "the slot is released without a completion having been received (or on the wrong edge)")
            R.check(not ex.site_reaches(site, site, stop=[s_get]), "release-once-per-turn", site, "", "slots can be released more than once per loop turn")
    # every completion that leaves the in-flight set gives its slot back: the set is consumed at ONE site (the awaited `next()` the release is
    # guarded by) — a second consumer (`while let Some(..) = run_scenarios.next().now_or_never() {}`, a `clear()`) drops completions whose slots
    # are never returned: the runner keeps fewer scenarios in flight than the limit although more are ready
    inflight = A.canon_place(ex, {"l": op_local(pushes[0][1]["args"][0]), "p": ["*"]})["l"] if op_local(pushes[0][1]["args"][0]) is not None else None
    consumers = []
    for s_, t in ex.calls(lambda t: callee_is(t, r"StreamExt::(next|select_next_some|into_future|poll_next_unpin|collect|for_each|count)$|Stream::poll_next$|FuturesUnordered::<.*>::(clear|into_iter|iter_mut)$")):
        l0 = op_local(t["args"][0]) if t["args"] else None
        if l0 is not None and (A.canon_place(ex, {"l": l0, "p": ["*"]})["l"] == inflight or inflight in A.slice_back(ex, [t["args"][0]]).locals):
            consumers.append((s_, t))
    R.check(len(consumers) == 1, "completions-consumed-at-one-site", consumers[1][0] if len(consumers) > 1 else ex, "the in-flight set is consumed only by the awaited next()",
            f"the in-flight set is consumed at {len(consumers)} sites: completions taken at the extra site(s) never give their slot back")
    # GET receives the current value of S
    cases = slot_limit_cases(F, ex, t_get["args"][1], S)
    R.check(cases.get("Continue") == "payload", "get-receives-slots", s_get, "GET(slots.continue_value()…)",
            "GET is not called with the current slot value")
    R.floor(9)


def r3(F, R):
    aw, get = role_get(F)
    # Some(0) short-circuit
    eqs = [(s, t) for s, t in get.calls(lambda t: callee_is(t, r"PartialEq.*::eq$", r"cmp::PartialEq::eq$"))]
    ok0 = False
    for s, t in eqs:
        sl = A.slice_back(get, t["args"])
        zero = any(rv.get("adt") == "std::option::Option" and rv["variant"] == "Some" and const_int(rv["ops"][0]) == 0 for _, rv in sl.aggs)
        if zero and 1 in sl.upvars:
            sw = get.blocks[t["t"]]["term"]
            if sw["k"] == "switch":
                true_t = sw["otherwise"]
                locks = [ls for ls, lt in get.calls(lambda lt: callee_is(lt, r"Mutex::<.*>::lock$"))]
                reach = get.reachable_blocks(true_t)
                ok0 = all(ls.bb not in reach for ls in locks) and any(get.blocks[x]["term"]["k"] == "return" for x in reach)
                R.check(ok0, "zero-slots-empty-batch", s, "limit == Some(0) returns before touching the queues",
                        "with zero free slots GET still reaches the queues")
    if not eqs:
        R.violation("zero-slots-empty-batch", get, "GET has no `== Some(0)` short-circuit")
    # the drain predicate, as a path table (independent of combinator / match spelling; see deep.py, sched.py)
    PT = S.PredTable(F)
    kb = PT.pred
    R.ok("drain-predicate/found", kb, "closure passed to the drain primitive")
    counters = set()
    for p in PT.true_paths:
        cw = PT.counter_writes(p)
        R.check(len(cw) == 1, "drain-predicate/take-increments-by-one", kb, "taken += 1 per drained entry",
                f"a path that drains an entry performs {len(cw)} increments-by-one of the taken counter")
        counters.update(cw)
    if len(counters) != 1:
        R.violation("drain-predicate/same-counter", kb, f"{len(counters)} different counters are incremented by the drained paths")
        counter = None
    else:
        counter = next(iter(counters))
        R.ok("drain-predicate/same-counter", kb, D.fmt_place(kb, counter))
    if counter is not None:
        for p in PT.false_paths:
            R.check(not PT.counter_writes(p), "drain-predicate/kept-does-not-count", kb, "kept entries are not counted", "a kept entry increments the taken counter")
        opts = PT.limit_option(counter)
        R.check(len(opts) == 1, "drain-predicate/limit-comparison", kb, "taken is compared with the limit's payload",
                f"the taken counter is compared with {len(opts)} limit options (expected: one `taken >= limit` test)")
        lim = next(iter(opts)) if len(opts) == 1 else None
        for p in PT.paths:
            lo = PT.limit_outcome(p, counter)
            if lo and lo.startswith("odd"):
                R.violation("drain-predicate/limit-comparison", kb, f"the limit comparison is {lo[4:]}; expected taken >= limit")
            if lo == "reached":
                R.check(p in PT.false_paths and not [e for e in p.effects if e[0] == "write"], "drain-predicate/full-keeps", kb, "limit reached -> entry kept, nothing recorded",
                        "with the limit reached the predicate still drains the entry (or has side effects)")
        if lim is not None:
            for p in PT.true_paths:
                lo = PT.limit_outcome(p, counter)
                unlimited = any(atom == ("discr", lim) and out == "None" for atom, out in p.conds)
                R.check(lo == "free" or unlimited, "drain-predicate/limit-test", kb, "every drained entry passed `taken < limit` (or there is no limit)",
                        "an entry can be drained without the limit having been tested")
            # the limit option is the drain routine's count parameter (captured)
            R.check(D.mentions(lim, lambda x: x[0] == "field" and x[1] in (("arg", 1), ("deref", ("arg", 1)))), "drain-predicate/limit-is-captured-count", kb,
                    f"limit = {D.fmt(kb, lim)}", "the limit the predicate tests is not the captured count")
    # fall-through: when the Serial drain hands out nothing, the Concurrent queue is still drained
    GT = S.GetTable(F)
    fall = False
    bad = None
    for p in GT.paths:
        ds = GT.drains(p)
        ser = [d for d in ds if d[1] == "Serial"]
        con = [d for d in ds if d[1] == "Concurrent"]
        if ser and GT.gave(p, ser[0]) == "nothing":
            # the serial drain produced nothing: the concurrent queue must be consulted
            looked = any(e[0] == "call" and re.search(r"HashMap::<.*>::get(_mut)?$|HashMap::get(_mut)?$", e[1]) and
                         any(D.is_variant(x, "runner::basic::ScenarioType", "Concurrent") for a in e[2] for x in D.subterms(a))
                         for e in p.effects[ser[0][0]:])
            if con:
                fall = True
            elif not looked:
                bad = p
    con = [(get, Site(get, 0, 0))]
    fall = fall and bad is None
    R.check(fall, "concurrent-fallback", con[0][1] if con else get, "serial.or_else(concurrent): free slots are filled with concurrent scenarios when no serial one can start",
            "when the Serial queue yields nothing (nothing ready / something in flight) GET does not fall through to the Concurrent queue: free slots stay empty")
    R.floor(7)


def r4(F, R):
    ex = roles.execute(F)
    infl = [a for a in A.awaits(ex) if re.search(r"FuturesUnordered<", a.fut_type)]
    ordered = [a for a in A.awaits(ex) if re.search(r"FuturesOrdered<|stream::(Buffered|BufferUnordered)<|JoinAll<|future::Join", a.fut_type)]
    if not infl and ordered:
        R.violation("refill-after-each-completion", ordered[0].poll_site,
                    f"the in-flight set is awaited through {ordered[0].fut_type[:80]}: completions are not reported one by one in completion order, "
                    "so a finished scenario's slot is not refilled until earlier-started ones finish")
        R.floor(1)
        return
    if len(infl) != 1:
        raise Unverifiable("in-flight await")
    a = infl[0]
    R.check(bool(re.search(r"stream::Next<'_, futures::stream::FuturesUnordered<", a.fut_type)), "refill-after-each-completion", a.poll_site,
            "awaits StreamExt::next (one completion)", f"the loop does not await a single completion: {a.fut_type[:120]}")
    # the await is in the scheduling loop together with GET
    aw_get, get = role_get(F)
    R.check(ex.site_reaches(a.poll_site, aw_get.poll_site) and ex.site_reaches(aw_get.poll_site, a.poll_site), "refill-loop", a.poll_site,
            "completion await and GET alternate in one loop", "GET is not called again after a completion")
    R.floor(2)


def r5(F, R):
    """The configured limit survives `Clone` (Cucumber builders and runners are Clone): the hand-written `Basic::clone`
    fills every field from the like-named field."""
    roles.check_field_faithful_clone(F, R, "runner::basic::Basic", "runner")


def r6_setters(F, R):
    """`max_concurrent_scenarios(n)` stores n in the field the scheduler reads (runner) / forwards to it (Cucumber)."""
    roles.check_all_builder_setters(F, R, only=r"^max_concurrent_scenarios$", floor=2)


def r7_cli(F, R):
    """`--concurrency` is declared and read into `Cli.concurrency`."""
    roles.check_cli_surface(F, R, "runner::basic::Cli", only=r"^concurrency$")
    R.floor(1)

RULES = [("R1", r1, None), ("R2", r2, None), ("R3", r3, None), ("R4", r4, None), ("R5", r5, None), ("R6", r6_setters, None), ("R7", r7_cli, None)]
