"""C17 — step matching is keyword-scoped, exact about ambiguity, and order independent (DESIGN §4 C17)."""
import re

from . import analysis as A
from . import roles
from . import c02
from .mir import Site, Unverifiable, callee_is, callee_path, const_int, const_str, op_fn, op_local, op_place, place_fields, place_str

CFGS = {"quick": ["default", "all", "zoo:default"], "thorough": ["default", "all", "nodefault", "zoo:default"]}

EXPLANATION = """
(R1) keyword pairing: Collection::find selects the map `given|when|then` by StepType `Given|When|Then` (path table),
and the builder methods given/when/then insert into the like-named map; (R2) classification: the match on the number
of matching definitions has exactly the arms 0 -> Ok(None), 1 -> Ok(Some(the popped candidate)), otherwise -> Err;
(R3) determinism: the ambiguity error's candidate list passes through a sort before collection and Ord/Eq/Hash of
HashableRegex all use the pattern string; (R4) capture vector: names zipped with once(whole match) chained with the
groups over the range starting at constant 1 up to captures.len(), missing groups defaulting to ""; candidates are
collected from the whole map without order-dependent short-circuit (filter_map + collect, no find/first);
(R5) the runner's mapping of the three outcomes = C02.R7.
Not decided: regex matching itself, behaviour on particular step texts.
Added after the second seeded round: (R6) attribute functions with a slice argument get one element per capture group (= C19.R4, on the zoo).
"""
DECLINED = ["regex engine semantics", "matching results for particular texts"]
ASSUMPTIONS = ["Itertools::sorted sorts by Ord; HashMap iteration order is irrelevant because of collect + sort / exact-count classification"]

COL = "step::Collection"


def find_body(F):
    bs = [b for b in F.crate_bodies() if (b.impl or {}).get("self_adt") == COL and not (b.impl or {}).get("trait") and b.name.endswith("::find")]
    if len(bs) != 1:
        raise Unverifiable("Collection::find")
    return bs[0]


def r1(F, R):
    b = find_body(F)
    # on find's deep path table (the collection's own private helpers inlined, e.g. `steps_of(ty)`): per step type, which of the
    # collection's maps is consulted
    from . import deep as D
    info = F.adt(COL)
    fnames = [f["name"] for f in info["variants"][0]["fields"]]
    own = lambda cb: (cb.impl or {}).get("self_adt") == COL and not (cb.impl or {}).get("trait")
    dp = D.Deep(F, b, max_paths=6000, inline_only=own)
    table = {}
    selfs = (("arg", 1), ("deref", ("arg", 1)))
    for p in dp.run():
        var = [o for a, o in p.conds if a[0] == "discr" and dp.adt_of.get(a, "") == "gherkin::StepType"]
        if not var:
            continue
        flds = set()
        for e in p.effects:
            terms = list(e[2]) if e[0] == "call" else [e[1], e[2]] if e[0] == "write" else []
            for t in terms:
                for x in D.subterms(t) if isinstance(t, tuple) else ():
                    if x[0] == "field" and isinstance(x[2], int) and x[2] < len(fnames) and (x[1] in selfs or x[1] == ("L", 0, 1) or x[1] == ("deref", ("L", 0, 1))):
                        flds.add(fnames[x[2]])
        for v in var[0].split("|"):
            table.setdefault(v, set()).update(flds)
    want = {"Given": {"given"}, "When": {"when"}, "Then": {"then"}}
    R.check(table == want, "find-selects-map-by-keyword", b, f"{ {k: sorted(v) for k, v in table.items()} }",
            f"Collection::find consults { {k: sorted(v) for k, v in table.items()} }; expected Given->given, When->when, Then->then")
    for kw in ("given", "when", "then"):
        ms = [x for x in F.crate_bodies() if (x.impl or {}).get("self_adt") == COL and not (x.impl or {}).get("trait") and x.name.endswith("::" + kw)]
        if len(ms) != 1:
            R.unverifiable(f"builder/{kw}", f"{len(ms)} candidates")
            continue
        m = ms[0]
        # on the builder's deep path table (a private `register(map, ..)` helper is inlined): one insert, into the map named like the builder
        from . import deep as D
        fnames = [f["name"] for f in F.adts[("cucumber", COL)]["variants"][0]["fields"]]
        flds, n_ins = set(), []
        for p in D.Deep(F, m, max_paths=40).run():
            k = 0
            for e in p.effects:
                if e[0] == "call" and re.search(r"HashMap(::<.*>)?::insert$", e[1]):
                    k += 1
                    for x in D.subterms(e[2][0]):
                        if x[0] == "field" and x[1] in (("arg", 1), ("deref", ("arg", 1))) and isinstance(x[2], int) and x[2] < len(fnames):
                            flds.add(fnames[x[2]])
                        if x[0] == "field" and x[1] == ("L", 0, 1) and isinstance(x[2], int) and x[2] < len(fnames):
                            flds.add(fnames[x[2]])
            n_ins.append(k)
        R.check(n_ins and set(n_ins) == {1} and flds == {kw}, f"builder-inserts-into/{kw}", m, f"Collection::{kw} inserts into `{kw}`", f"Collection::{kw} inserts into {sorted(flds)} ({n_ins} inserts per path)")
    # the hand-written Clone keeps the keyword maps apart (runners / Cucumber builders are cloned together with their collection)
    roles.check_field_faithful_clone(F, R, COL, "collection")
    R.floor(7)


def _count_classes(paths):
    """For each path: the set of candidate-count classes {0, 1, 2 (= many)} consistent with what it learned about
    `Vec::len` / `Vec::pop` of the candidate list."""
    from . import deep as D
    listed = {}
    for p in paths:
        for a, o in p.conds:
            if a[0] == "call" and re.search(r"Vec(::<.*>)?::len$", a[1]) and isinstance(o, int) and not isinstance(o, bool):
                listed.setdefault(a, set()).add(o)
    out = []
    for p in paths:
        poss = {0, 1, 2}
        informed = False
        for a, o in p.conds:
            if a[0] == "call" and re.search(r"Vec(::<.*>)?::len$", a[1]):
                informed = True
                if isinstance(o, int) and not isinstance(o, bool):
                    poss &= {min(o, 2)}
                else:
                    poss -= {min(v, 2) for v in listed.get(a, ())}
            elif a[0] == "bin" and isinstance(o, bool) and any(x[0] == "call" and re.search(r"Vec(::<.*>)?::len$", x[1]) for x in (a[2], a[3]) if isinstance(x, tuple)):
                informed = True
                def val(x, n):
                    if x[0] == "const":
                        return x[1]
                    return n
                keep = set()
                for n in poss:
                    l, r = val(a[2], n), val(a[3], n)
                    if not isinstance(l, int) or not isinstance(r, int):
                        keep.add(n)
                        continue
                    # n = 2 stands for "2 or more": comparisons with constants <= 2 are exact for it except Eq/Le/Lt against 2
                    res = {"Eq": l == r, "Lt": l < r, "Le": l <= r}.get(a[1])
                    if res is None or res == o:
                        keep.add(n)
                poss = keep
            elif a[0] == "discr" and a[1][0] == "call" and re.search(r"Vec(::<.*>)?::pop$", a[1][1]):
                informed = True
                poss &= ({1, 2} if o == "Some" else {0})
        out.append((p, poss if informed else None))
    return out


def r2(F, R):
    from . import deep as D
    b = find_body(F)
    paths = D.Deep(F, b, inline=False, max_paths=2000).run()
    seen = {}
    bad = None
    for p, poss in _count_classes(paths):
        if poss is None or p.cut:
            continue
        if D.is_variant(p.ret, "std::result::Result", "Err"):
            kind = "Err"
        elif D.is_variant(p.ret, "std::result::Result", "Ok") and p.ret[3] and D.is_variant(p.ret[3][0], "std::option::Option"):
            kind = f"Ok({p.ret[3][0][2]})"
            if p.ret[3][0][2] == "Some" and not D.mentions(p.ret, lambda x: x[0] == "call" and re.search(r"Vec(::<.*>)?::(pop|remove|swap_remove)$|::next$|::first$|::last$", x[1])):
                bad = "the returned match is not taken from the candidate list"
        else:
            kind = "?"
        if len(poss) != 1:
            bad = f"a path returning {kind} does not tell apart {sorted(poss)} candidates"
            continue
        seen.setdefault(next(iter(poss)), set()).add(kind)
    want = {0: {"Ok(None)"}, 1: {"Ok(Some)"}, 2: {"Err"}}
    show = {("0", "1", "many")[k]: sorted(v) for k, v in seen.items()}
    R.check(seen == want and bad is None, "match-count-classification", b, "0 -> Ok(None), 1 -> Ok(Some(pop)), _ -> Err(ambiguous)",
            f"classification by number of matches is {show}" + (f" ({bad})" if bad else ""))
    # the counted vector collects ALL matching definitions of the selected map
    lens = [(s, t) for s, t in b.calls(lambda t: callee_is(t, r"Vec::<.*>::(len|pop|is_empty)$"))]
    ok = False
    for s, t in lens:
        ch = A.receiver_chain(b, t["args"][0])
        names = [callee_path(c).rsplit("::", 1)[-1] for _, c in ch]
        if names[:3] == ["collect", "filter_map", "iter"]:
            ok = True
    if not ok:
        ok = _loop_collects_all(F, b, lens)
    if not ok:
        # the candidate list comes out of a private helper (`self.candidates(step)`): the helper's returned vector is checked the same way
        for s, t in lens:
            l = op_local(t["args"][0])
            sd = b.single_def(A.canon_place(b, {"l": l, "p": ["*"]})["l"]) if l is not None else None
            hb = F.callee_body(sd[2], b.crate) if sd and sd[1] == "call" else None
            if hb is None:
                continue
            rets = {op_local(st2["rv"]["op"]) for _, st2 in hb.assigns(lambda st2: st2["pl"]["l"] == 0 and not st2["pl"]["p"] and st2["rv"]["k"] == "use")}
            ch = A.receiver_chain(hb, {"k": "copy", "pl": {"l": 0, "p": []}})
            if [callee_path(c).rsplit("::", 1)[-1] for _, c in ch][:3] == ["collect", "filter_map", "iter"]:
                ok = True
            elif rets and None not in rets:
                ok = _loop_collects_all(F, hb, [], counted_locals={A.canon_place(hb, {"l": r_, "p": []})["l"] for r_ in rets})
    R.check(ok, "candidates-are-all-matches", b, "map.iter().filter_map(match).collect()  (or a loop over the whole map pushing every match)",
            "the candidate list is not built from every entry of the selected map (order-dependent or partial)")
    R.floor(2)


def _loop_collects_all(F, b, lens, counted_locals=None):
    """`for entry in map { if let Some(m) = re.captures_read(..) { candidates.push(..) } }`: a loop driven by the map's
    iterator whose only exit is the iterator's end, pushing — guarded by nothing but the match — onto the vector that is
    counted afterwards."""
    nexts = [(s, t) for s, t in b.calls(lambda t: callee_is(t, r"Iterator::next$") and "hash_map::" in (op_fn(t["func"]) or {}).get("self", ""))]
    pushes = [(s, t) for s, t in b.calls(lambda t: callee_is(t, r"Vec::<.*>::push$"))]
    counted = set(counted_locals or ())
    for s, t in lens:
        l = op_local(t["args"][0])
        if l is not None:
            counted.add(A.canon_place(b, {"l": l, "p": ["*"]})["l"])
    good = 0
    for sn, tn in nexts:
        cyc = {x for x in b.live_blocks if b.site_reaches(Site(b, x, 0), sn) and b.site_reaches(sn, Site(b, x, 0))} | {sn.bb}
        # exits of the loop: only the None edge of the switch on next()'s result
        nb = tn["t"]
        exits = [(x, y) for x in cyc for y in b.succ[x] if y not in cyc]
        ok_exit = bool(exits) and all(x == nb and b.blocks[x]["term"]["k"] == "switch" for x, y in exits)
        if not ok_exit:
            continue
        for sp, tp in pushes:
            if sp.bb not in cyc:
                continue
            l = op_local(tp["args"][0])
            if l is None or A.canon_place(b, {"l": l, "p": ["*"]})["l"] not in counted:
                continue
            gs = [g for g in A.guards_of(b, sp) if g.bb in cyc and g.bb != nb]
            only_match = bool(gs) and all((g.cond_def() or [None])[0] == "discr" and _is_call(b, g, r"Regex::captures_read(_at)?$") and g.variants() == {"Some"} for g in gs)
            if only_match:
                good += 1
    return good == len(nexts) and good >= 1


def _is_call(b, g, rx):
    d = g.cond_def()
    if not d or d[0] != "discr":
        return False
    l = d[1]["l"]
    for _ in range(5):
        dd = A.local_def_desc(b, l)
        if dd[0] == "call":
            return callee_is(dd[2], rx)
        if dd[0] == "place":
            l = dd[1]["l"]
            continue
        return False
    return False


def r3(F, R):
    b = find_body(F)
    errs = [(s, st) for s, st in b.assigns(lambda st: st["rv"]["k"] == "agg" and st["rv"].get("adt") == "step::AmbiguousMatchError")]
    R.check(len(errs) == 1, "ambiguity-error-site", b, "", f"{len(errs)} AmbiguousMatchError aggregates")
    if len(errs) == 1:
        s, st = errs[0]
        ch = A.receiver_chain(b, st["rv"]["ops"][0])
        names = [callee_path(c).rsplit("::", 1)[-1] for _, c in ch]
        # the whole reported element (regex AND location) must be the sort key: `sorted()` directly before `collect()`; a custom comparator
        # (sorted_by / sorted_by_key) is not accepted because entries that compare equal keep HashMap order
        ok_sorted = names[:2] in (["collect", "sorted"], ["collect", "sorted_unstable"])
        if not ok_sorted:
            # explicit spelling: `v.sort()` (the whole element is the key) on the very vector, after the last push, before it is reported
            vl = op_local(st["rv"]["ops"][0])
            vl = A.canon_place(b, {"l": vl, "p": []})["l"] if vl is not None else None
            same = lambda t: op_local(t["args"][0]) is not None and A.canon_place(b, {"l": op_local(t["args"][0]), "p": ["*"]})["l"] == vl or \
                vl in A.slice_back(b, [t["args"][0]]).locals
            sorts = [(s2, t2) for s2, t2 in b.calls(lambda t2: callee_is(t2, r"(slice|\[T\]>?)(::<.*>)?::(sort|sort_unstable)$|<impl \[T\]>::(sort|sort_unstable)$")) if same(t2)]
            muts = [(s2, t2) for s2, t2 in b.calls(lambda t2: callee_is(t2, r"Vec::<.*>::(push|insert|extend|append|swap|reverse|dedup\w*|retain|truncate|pop|remove|swap_remove)$")) if same(t2)]
            ok_sorted = len(sorts) == 1 and b.dominates(sorts[0][0], s) and not any(b.site_reaches(sorts[0][0], m) and b.site_reaches(m, s) for m, _ in muts)
            if ok_sorted:
                names = ["sort()"] + names
        R.check(ok_sorted, "candidates-sorted", s,
                f"possible_matches = ….sorted().collect()  ({names[:4]})", f"the ambiguity candidates are not totally ordered (by regex and location) right before being collected ({names[:4]}): "
                "the reported list depends on HashMap iteration order")
    # HashableRegex: Ord, PartialEq, Hash via as_str
    for tr, meth in (("std::cmp::Ord", "cmp"), ("std::cmp::PartialEq", "eq"), ("std::hash::Hash", "hash")):
        ms = [x for x in F.crate_bodies() if (x.impl or {}).get("self_adt") == "step::HashableRegex" and (x.impl or {}).get("trait") == tr and x.name.endswith("::" + meth)]
        if len(ms) != 1:
            R.unverifiable(f"regex-{meth}", f"{len(ms)} impls")
            continue
        m = ms[0]
        # on the method's deep path table (a private `pattern()` helper is inlined): one comparison / hash, of `regex.as_str()` values
        from . import deep as D
        okm = False
        rows = D.Deep(F, m, max_paths=20).run()
        if len(rows) == 1:
            ops = [e for e in rows[0].effects if e[0] == "call" and re.search(r"::(cmp|eq|ne|hash|partial_cmp)$", e[1])]
            n_args = 1 if meth == "hash" else 2
            def is_pat(a, who):
                while isinstance(a, tuple) and a and a[0] in ("ref", "deref", "refto"):
                    a = a[1]
                return isinstance(a, tuple) and a[0] == "call" and re.search(r"Regex::as_str$", a[1]) is not None and D.mentions(a, lambda y: y == ("arg", who))
            pat_ops = [e for e in ops if len(e[2]) >= n_args and all(is_pat(e[2][i], i + 1) for i in range(n_args))]
            if len(pat_ops) == 1:
                po = pat_ops[0]
                is_po = lambda x: isinstance(x, tuple) and len(x) == 4 and x[0] == "call" and x[3] == po[4]
                ret = rows[0].ret
                if meth == "hash":
                    okm = len(ops) == 1
                elif is_po(ret):
                    okm = len(ops) == 1
                else:
                    # `self.cmp(other) == Ordering::Equal` (eq through the total order on the same pattern strings)
                    strip = lambda a: strip(a[1]) if isinstance(a, tuple) and a and a[0] in ("ref", "deref", "refto") else a
                    okm = meth == "eq" and len(ops) == 2 and isinstance(ret, tuple) and ret[0] == "call" and re.search(r"::eq$", ret[1]) is not None and len(ret[2]) == 2 and \
                        any(is_po(strip(x)) for x in ret[2]) and any(D.is_variant(strip(x), "std::cmp::Ordering", "Equal") or (isinstance(strip(x), tuple) and strip(x)[0] == "const") for x in ret[2])
        if not okm and meth == "eq" and len(rows) == 2:
            # `matches!(self.cmp(other), Ordering::Equal)`: equality through the type's own total order (checked above to compare the patterns)
            def via_cmp(p):
                cs = [(a, o) for a, o in p.conds if a[0] == "discr" and a[1][0] == "call" and re.search(r"step::HashableRegex as std::cmp::Ord>::cmp$", a[1][1])
                      and D.mentions(a[1][2][0], lambda y: y == ("arg", 1)) and D.mentions(a[1][2][1], lambda y: y == ("arg", 2))]
                return cs[0][1] if len(cs) == 1 and len(p.conds) == 1 else None
            outs = {via_cmp(p): p.ret for p in rows}
            okm = outs.get("Equal") == ("const", True) and any(k not in (None, "Equal") and v == ("const", False) for k, v in outs.items()) and None not in outs
        R.check(okm, f"regex-{meth}-by-pattern", m, f"{meth} is applied to the pattern strings themselves", f"HashableRegex::{meth} is not computed from the full pattern strings")
    R.floor(4)


def r4(F, R):
    b0 = find_body(F)
    fam = roles.family(F, b0)
    # (the pairing may live in a private helper of `find`: every body of the family is searched)
    zips = [(fb, s, t) for fb in fam for s, t in fb.calls(lambda t: callee_is(t, r"Iterator::zip$"))]
    R.check(len(zips) == 1, "matches/zip", b0, "", f"{len(zips)} zip calls")
    if len(zips) != 1:
        return
    b, s, t = zips[0]
    # left: capture names (mapped), right: once(whole).chain(range.map(..))
    lch = [callee_path(c).rsplit("::", 1)[-1] for _, c in A.receiver_chain(b, t["args"][0])]
    lsl = A.slice_back(b, [t["args"][0]])
    names_ty = any("regex::CaptureNames" in b.locals[l] for l in lsl.locals)
    R.check(lsl.has_call(r"Regex::capture_names$") or names_ty, "matches/names-first", s, "names.zip(values)", f"the left side of the zip is not the regex's capture names ({lch[:3]})")
    _rl = op_local(t["args"][1])
    rsd = b.single_def(A.canon_place(b, {"l": _rl, "p": []})["l"]) if _rl is not None else None
    ok_chain = bool(rsd and rsd[1] == "call" and callee_is(rsd[2], r"Iterator::chain$"))
    R.check(ok_chain, "matches/whole-then-groups", s, "once(whole).chain(groups)", "the values are not `once(whole match).chain(groups)`")
    if ok_chain:
        a0 = A.slice_back(b, [rsd[2]["args"][0]])
        a1 = A.slice_back(b, [rsd[2]["args"][1]])
        R.check(a0.has_call(r"iter::once$") and a0.has_call(r"Match::<.*>::as_str$", r"Match.*::as_str$"), "matches/whole-first", rsd[0], "first value = whole match", "the first value is not the whole match")
        rng = [rv for _, rv in a1.aggs if rv.get("adt") == "std::ops::Range"]
        ok_r = len(rng) == 1 and const_int(rng[0]["ops"][0]) == 1 and A.slice_back(b, [rng[0]["ops"][1]]).has_call(r"CaptureLocations::len$")
        R.check(ok_r, "matches/groups-1-to-len", rsd[0], "groups (1..captures.len())", "the capture groups are not taken over 1..captures.len()")
        # missing group -> ""
        kb = None
        for _, c in a1.calls:
            if callee_is(c, r"Iterator::map$"):
                kb = A.closure_of_operand(F, b, c["args"][1])
        dflt = []
        if kb is not None:
            # the group closure's path table: with `captures.get(i)` None it returns the empty string
            from . import deep as D
            for p in D.Deep(F, kb, max_paths=200).run():
                none = any(a[0] == "discr" and o == "None" and a[1][0] == "call" and re.search(r"CaptureLocations::get$", a[1][1]) for a, o in p.conds)
                if none:
                    lits = [x[1] for x in D.subterms(p.ret) if x[0] == "const" and isinstance(x[1], str)]
                    news = [x for x in D.subterms(p.ret) if x[0] == "call" and re.search(r"String::new$|Default::default$", x[1])]
                    dflt.append(lits[0] if lits else ("" if news else "?"))
        R.check(dflt == [""], "matches/missing-group-empty", kb or rsd[0], 'captures.get(i).map_or("", ..)', f"non-participating groups default to {dflt}")
    # group texts are cut out of the very string the regex was matched against
    reads = [(nb, s, t) for nb in fam for s, t in nb.calls(lambda t: callee_is(t, r"Regex::captures_read(_at)?$"))]
    hay = set()
    for nb, s, t in reads:
        fs, _cs = A.fields_through_callers(F, nb, t["args"][2], fam)
        hay |= {(o, n) for o, n in fs if o == "gherkin::Step"}
    idx = [(nb, s, t) for nb in fam for s, t in nb.calls(lambda t: callee_is(t, r"ops::Index.*::index$") and "str" in (op_fn(t["func"]) or {}).get("full", ""))]
    base = set()
    for nb, s, t in idx:
        fs, cs = A.fields_through_callers(F, nb, t["args"][0], fam)
        base |= {(o, n) for o, n in fs if o == "gherkin::Step"}
        other = any(callee_is(ct, r"Match.*::as_str$") for _, ct in cs)
        R.check(not other, "matches/group-offsets-in-haystack", s, "group text = &step.value[s..e]",
                "capture offsets (relative to the whole step text) are applied to a different string (the match substring): wrong group texts or a panic")
    R.check(len(reads) == 1 and len(idx) == 1 and hay == base == {("gherkin::Step", "value")}, "matches/indexed-string-is-matched-string", b,
            "captures_read(.., &step.value) and &step.value[s..e]", f"regex matched against {sorted(hay)}, groups sliced from {sorted(base)}")
    R.floor(7)


def r5(F, R):
    c02.r7(F, R)


def r6(F, R):
    """"... receives the whole match and every capture group ..., with an empty string for groups that did not participate" also holds
    for functions registered through the attribute macros with a slice argument (C19.R4 on the zoo's expansions)."""
    from . import c19
    c19.r4(F, R)


_LIB = ["default", "all", "nodefault"]
def r7_clone(F, R):
    """Step collections, regex keys, locations and contexts are cloned per lookup: a clone keeps every field (= C19.R6 for the collection)."""
    n = roles.check_clone_faithful_table(F, R, r"^step::", "clone-faithful")
    R.floor(4)


def r8_setters(F, R):
    """`given` / `when` / `then` register under the like-named keyword: runner and Cucumber delegate to the like-named method of the step collection / runner with regex and step."""
    roles.check_all_builder_setters(F, R, only=r"^(given|when|then|steps)$", floor=7)


RULES = [("R1", r1, _LIB), ("R2", r2, _LIB), ("R3", r3, _LIB), ("R4", r4, _LIB), ("R5", r5, _LIB), ("R6", r6, ["zoo:default"]), ("R7", r7_clone, _LIB), ("R8", r8_setters, _LIB)]
