"""C17 — step matching is keyword-scoped, exact about ambiguity, and order independent (DESIGN §4 C17)."""
import re

from . import analysis as A
from . import roles
from . import c02
from .mir import Site, Unverifiable, callee_is, callee_path, const_int, const_str, op_fn, op_local, op_place, place_fields, place_str

CFGS = {"quick": ["default", "all"], "thorough": ["default", "all", "nodefault"]}

EXPLANATION = """
(R1) keyword pairing: Collection::find selects the map `given|when|then` by StepType `Given|When|Then` (path table),
and the builder methods given/when/then insert into the like-named map; (R2) classification: the match on the number
of matching definitions has exactly the arms 0 -> Ok(None), 1 -> Ok(Some(the popped candidate)), otherwise -> Err;
(R3) determinism: the ambiguity error's candidate list passes through a sort before collection and Ord/Eq/Hash of
HashableRegex all use the pattern string; (R4) capture vector: names zipped with once(whole match) chained with the
groups over the range starting at constant 1 up to captures.len(), missing groups defaulting to ""; candidates are
collected from the whole map without order-dependent short-circuit (filter_map + collect, no find/first);
(R5) the runner's mapping of the three outcomes = C02.R7.
Not decided: regex matching itself, behaviour on particular step texts.
"""
DECLINED = ["regex engine semantics", "matching results for particular texts"]
ASSUMPTIONS = ["Itertools::sorted sorts by Ord; HashMap iteration order is irrelevant because of collect + sort / exact-count classification"]

COL = "step::Collection"


def find_body(F):
    bs = [b for b in F.crate_bodies() if (b.impl or {}).get("self_adt") == COL and not (b.impl or {}).get("trait") and b.name.endswith("::find")]
    if len(bs) != 1:
        raise Unverifiable("Collection::find")
    return bs[0]


def r1(F, R):
    b = find_body(F)
    table = {}
    for p in A.enumerate_paths(b):
        var = [o for a, o in p.decisions if "gherkin::StepType" in a]
        refs = [st for s, k, st in p.effects if k == "assign" and st["rv"]["k"] == "ref" and place_fields(st["rv"]["pl"]) and place_fields(st["rv"]["pl"])[-1][0] == COL]
        flds = {place_fields(st["rv"]["pl"])[-1][1] for st in refs}
        if var:
            table.setdefault(var[0], set()).update(flds)
    want = {"Given": {"given"}, "When": {"when"}, "Then": {"then"}}
    R.check(table == want, "find-selects-map-by-keyword", b, f"{ {k: sorted(v) for k, v in table.items()} }",
            f"Collection::find consults { {k: sorted(v) for k, v in table.items()} }; expected Given->given, When->when, Then->then")
    for kw in ("given", "when", "then"):
        ms = [x for x in F.crate_bodies() if (x.impl or {}).get("self_adt") == COL and not (x.impl or {}).get("trait") and x.name.endswith("::" + kw)]
        if len(ms) != 1:
            R.unverifiable(f"builder/{kw}", f"{len(ms)} candidates")
            continue
        m = ms[0]
        ins = [(s, t) for s, t in m.calls(lambda t: callee_is(t, r"HashMap::<.*>::insert$"))]
        flds = set()
        for s, t in ins:
            sl = A.slice_back(m, [t["args"][0]])
            flds |= {n for o, n in sl.fields if o == COL}
        R.check(len(ins) == 1 and flds == {kw}, f"builder-inserts-into/{kw}", m, f"Collection::{kw} inserts into `{kw}`", f"Collection::{kw} inserts into {sorted(flds)}")
    # the hand-written Clone keeps the keyword maps apart (runners / Cucumber builders are cloned together with their collection)
    roles.check_field_faithful_clone(F, R, COL, "collection")
    R.floor(7)


def r2(F, R):
    b = find_body(F)
    table = {}
    for p in A.enumerate_paths(b):
        n = [o for a, o in p.decisions if re.search(r"Vec::len\(", a)]
        if not n:
            continue
        ret = p.ret
        kind = None
        if isinstance(ret, tuple) and ret[1] == "std::result::Result":
            if ret[2] == "Err":
                kind = "Err"
            else:
                # Ok(None) vs Ok(Some(..))
                opt = None
                for s, k, st in reversed(p.effects):
                    if k == "assign" and st["rv"]["k"] == "agg" and st["rv"].get("adt") == "std::option::Option" and b.locals[st["pl"]["l"]].startswith("std::option::Option<(&"):
                        opt = st["rv"]["variant"]
                        break
                kind = f"Ok({opt})"
        pops = len(p.calls(r"Vec::<.*>::pop$"))
        table.setdefault(n[0], set()).add((kind, pops))
    want = {"0": {("Ok(None)", 0)}, "1": {("Ok(Some)", 1)}, "otherwise": {("Err", 0)}}
    R.check(table == want, "match-count-classification", b, "0 -> Ok(None), 1 -> Ok(Some(pop)), _ -> Err(ambiguous)",
            f"classification by number of matches is { {k: sorted(v) for k, v in table.items()} }")
    # the counted vector collects ALL matching definitions of the selected map: iter().filter_map(..).collect(), no early exit
    lens = [(s, t) for s, t in b.calls(lambda t: callee_is(t, r"Vec::<.*>::len$"))]
    ok = False
    for s, t in lens:
        ch = A.receiver_chain(b, t["args"][0])
        names = [callee_path(c).rsplit("::", 1)[-1] for _, c in ch]
        if names[:3] == ["collect", "filter_map", "iter"]:
            ok = True
    R.check(ok, "candidates-are-all-matches", b, "map.iter().filter_map(match).collect()", "the candidate list is not `iter().filter_map(..).collect()` over the whole map (order-dependent or partial)")
    # the filter_map closure keeps a definition iff captures_read matched
    R.floor(2)


def r3(F, R):
    b = find_body(F)
    errs = [(s, st) for s, st in b.assigns(lambda st: st["rv"]["k"] == "agg" and st["rv"].get("adt") == "step::AmbiguousMatchError")]
    R.check(len(errs) == 1, "ambiguity-error-site", b, "", f"{len(errs)} AmbiguousMatchError aggregates")
    if len(errs) == 1:
        s, st = errs[0]
        ch = A.receiver_chain(b, st["rv"]["ops"][0])
        names = [callee_path(c).rsplit("::", 1)[-1] for _, c in ch]
        # the whole reported element (regex AND location) must be the sort key: `sorted()` directly before `collect()`; a custom comparator
        # (sorted_by / sorted_by_key) is not accepted because entries that compare equal keep HashMap order
        R.check(names[:2] in (["collect", "sorted"], ["collect", "sorted_unstable"]), "candidates-sorted", s,
                f"possible_matches = ….sorted().collect()  ({names[:4]})", f"the ambiguity candidates are not totally ordered (by regex and location) right before being collected ({names[:4]}): "
                "the reported list depends on HashMap iteration order")
    # HashableRegex: Ord, PartialEq, Hash via as_str
    for tr, meth in (("std::cmp::Ord", "cmp"), ("std::cmp::PartialEq", "eq"), ("std::hash::Hash", "hash")):
        ms = [x for x in F.crate_bodies() if (x.impl or {}).get("self_adt") == "step::HashableRegex" and (x.impl or {}).get("trait") == tr and x.name.endswith("::" + meth)]
        if len(ms) != 1:
            R.unverifiable(f"regex-{meth}", f"{len(ms)} impls")
            continue
        m = ms[0]
        ops = [(s, t) for s, t in m.calls(lambda t: callee_is(t, r"Ord::cmp$", r"PartialEq.*::eq$", r"Hash::hash$", r"PartialOrd.*::partial_cmp$"))]
        okm = False
        if len(ops) == 1:
            t = ops[0][1]
            n_args = 1 if meth == "hash" else 2
            heads = []
            for a in t["args"][:n_args]:
                ch = A.receiver_chain(m, a)
                heads.append(callee_path(ch[0][1]).rsplit("::", 1)[-1] if ch else None)
            okm = all(h == "as_str" for h in heads)
        R.check(okm, f"regex-{meth}-by-pattern", m, f"{meth} is applied to the pattern strings themselves", f"HashableRegex::{meth} is not computed from the full pattern strings")
    R.floor(4)


def r4(F, R):
    b = find_body(F)
    zips = [(s, t) for s, t in b.calls(lambda t: callee_is(t, r"Iterator::zip$"))]
    R.check(len(zips) == 1, "matches/zip", b, "", f"{len(zips)} zip calls")
    if len(zips) != 1:
        return
    s, t = zips[0]
    # left: capture names (mapped), right: once(whole).chain(range.map(..))
    lch = [callee_path(c).rsplit("::", 1)[-1] for _, c in A.receiver_chain(b, t["args"][0])]
    lsl = A.slice_back(b, [t["args"][0]])
    names_ty = any("regex::CaptureNames" in b.locals[l] for l in lsl.locals)
    R.check(lsl.has_call(r"Regex::capture_names$") or names_ty, "matches/names-first", s, "names.zip(values)", f"the left side of the zip is not the regex's capture names ({lch[:3]})")
    rsd = b.single_def(op_local(t["args"][1])) if op_local(t["args"][1]) is not None else None
    ok_chain = bool(rsd and rsd[1] == "call" and callee_is(rsd[2], r"Iterator::chain$"))
    R.check(ok_chain, "matches/whole-then-groups", s, "once(whole).chain(groups)", "the values are not `once(whole match).chain(groups)`")
    if ok_chain:
        a0 = A.slice_back(b, [rsd[2]["args"][0]])
        a1 = A.slice_back(b, [rsd[2]["args"][1]])
        R.check(a0.has_call(r"iter::once$") and a0.has_call(r"Match::<.*>::as_str$", r"Match.*::as_str$"), "matches/whole-first", rsd[0], "first value = whole match", "the first value is not the whole match")
        rng = [rv for _, rv in a1.aggs if rv.get("adt") == "std::ops::Range"]
        ok_r = len(rng) == 1 and const_int(rng[0]["ops"][0]) == 1 and A.slice_back(b, [rng[0]["ops"][1]]).has_call(r"CaptureLocations::len$")
        R.check(ok_r, "matches/groups-1-to-len", rsd[0], "groups (1..captures.len())", "the capture groups are not taken over 1..captures.len()")
        # missing group -> ""
        kb = None
        for _, c in a1.calls:
            if callee_is(c, r"Iterator::map$"):
                kb = A.closure_of_operand(F, b, c["args"][1])
        dflt = []
        if kb is not None:
            for _, c in kb.calls(lambda c: callee_is(c, r"Option::<.*>::map_or$")):
                dflt.append(const_str(c["args"][1]))
        R.check(dflt == [""], "matches/missing-group-empty", kb or rsd[0], 'captures.get(i).map_or("", ..)', f"non-participating groups default to {dflt}")
    # group texts are cut out of the very string the regex was matched against
    reads = [(nb, s, t) for nb in F.nested(b) for s, t in nb.calls(lambda t: callee_is(t, r"Regex::captures_read(_at)?$"))]
    hay = set()
    for nb, s, t in reads:
        ds = A.deep_slice(F, nb, [t["args"][2]])
        hay |= {(o, n) for o, n in ds.fields if o == "gherkin::Step"}
    idx = [(nb, s, t) for nb in F.nested(b) for s, t in nb.calls(lambda t: callee_is(t, r"ops::Index.*::index$") and "str" in (op_fn(t["func"]) or {}).get("full", ""))]
    base = set()
    for nb, s, t in idx:
        ds = A.deep_slice(F, nb, [t["args"][0]])
        base |= {(o, n) for o, n in ds.fields if o == "gherkin::Step"}
        other = ds.has_call(r"Match.*::as_str$")
        R.check(not other, "matches/group-offsets-in-haystack", s, "group text = &step.value[s..e]",
                "capture offsets (relative to the whole step text) are applied to a different string (the match substring): wrong group texts or a panic")
    R.check(len(reads) == 1 and len(idx) == 1 and hay == base == {("gherkin::Step", "value")}, "matches/indexed-string-is-matched-string", b,
            "captures_read(.., &step.value) and &step.value[s..e]", f"regex matched against {sorted(hay)}, groups sliced from {sorted(base)}")
    R.floor(7)


def r5(F, R):
    c02.r7(F, R)


RULES = [("R1", r1, None), ("R2", r2, None), ("R3", r3, None), ("R4", r4, None), ("R5", r5, None)]
