"""Shared semantic facts about one attempt's step and before-hook routines, from deep path tables (deep.py): what is
called, caught and returned under which conditions — independent of how the code is spelled."""
import re

from . import analysis as A
from . import deep as D
from . import roles
from .mir import Unverifiable, callee_is

FIND_RX = r"step::Collection::<.*>::find$|Collection(::<.*>)?::find$"


def is_world_new(e):
    return e[0] == "call" and re.search(r"World::new$", e[1]) is not None


def is_indirect(e):
    return e[0] == "call" and e[1] == "<indirect>"


def panic_sources(F, body, p):
    """For each panic caught on path p: what the guarded future runs — 'world' (World::new), 'callback' (an indirect
    call: step fn / hook) or '?'."""
    out = []
    for e in p.effects:
        if e[0] != "caught-panic":
            continue
        kinds = set()
        for x in D.subterms(e[1]):
            if x[0] in ("coroutine", "closure"):
                cb = F.body(x[1], body.crate)
                for nb in (F.nested(cb) if cb is not None else []):
                    for s, t in nb.calls():
                        if callee_is(t, r"World::new$"):
                            kinds.add("world")
                        elif t["func"].get("k") != "fn" or callee_is(t, r"ops::Fn(Once|Mut)?::call(_once|_mut)?$"):
                            kinds.add("callback")
        out.append("world" if kinds == {"world"} else "callback" if kinds == {"callback"} else "?")
    return out


def panics_of(p):
    """uids of the catch_unwind sites that caught a panic on this path."""
    return [a[1] for a, out in p.conds if a[0] == "panics" and out is True]


class StepTable:
    """The async block of RUN_STEP that looks the step up, creates the World lazily and calls the step fn."""

    def __init__(self, F):
        rs, root, tree = roles.attempt_tree(F)
        blocks = [b for b in tree if b.is_coroutine and any(True for _ in b.calls(lambda t: callee_is(t, FIND_RX)))]
        if len(blocks) != 1:
            raise Unverifiable(f"step block (coroutine calling Collection::find): {len(blocks)}")
        self.F, self.block = F, blocks[0]
        # the table is built for the whole step routine (the coroutine of the `async fn` the look-up block belongs to, the block
        # inlined at its await): what the routine RETURNS — Ok(world) | Err(failure carrying the World and a StepError) | Err(skipped
        # carrying the World) — is the same whether the inner block hands its outcome over as a Result of tuples or as a private enum
        outer = self.block
        while True:
            pb = F.parent_body(outer)
            if pb is None or pb.kind in ("Fn", "AssocFn"):
                break
            outer = pb
        # ... and when the look-up lives in a private helper that emits nothing itself (`find_and_exec_step().await`), for the routine
        # that awaits it and sends the step's events
        for _ in range(2):
            root_fn = F.root_fn(outer)
            if roles.reaches_send(F, root_fn):
                break
            callers = [site.body for site in F.callers_of(root_fn) if site.body.key in {b.key for b in tree}]
            if len(callers) != 1:
                break
            outer = callers[0]
            while True:
                pb = F.parent_body(outer)
                if pb is None or pb.kind in ("Fn", "AssocFn"):
                    break
                outer = pb
        self.body = outer if outer.is_coroutine else self.block
        # the threaded World: the routine's captured `Option<W>` parameter
        self.world_opt_term = None
        for i in self.body.upvar_names():
            if "Option<W>" in self._upvar_ty(i):
                self.world_opt_term = ("field", ("arg", 1), i)
        self.paths = D.Deep(F, self.body, opaque=FIND_RX + r"|wait_for_span_close$|::(step|hook|scenario)_span$|unbounded_send$", max_paths=8000).run()
        if not self.paths or any(p.cut for p in self.paths):
            raise Unverifiable("step routine: empty path table or a loop")
        self.rows = [self.classify(p) for p in self.paths]

    def classify(self, p):
        find = [("call", e[1], e[2], e[4]) for e in p.effects if e[0] == "call" and re.search(FIND_RX, e[1])]
        ft = find[0] if find else None
        r = {"p": p, "find": None, "found": None, "world_opt": None, "world_opt_term": self.world_opt_term, "world_new": [i for i, e in enumerate(p.effects) if is_world_new(e)],
             "step_call": [i for i, e in enumerate(p.effects) if is_indirect(e) and (ft is None or not e[2] or D.mentions(e[2][0], lambda x: x == ft))],
             "panics": panics_of(p), "world_err": None, "find_term": ft,
             "panic_src": panic_sources(self.F, self.body, p)}
        for a, out in p.conds:
            if a[0] != "discr":
                continue
            x = a[1]
            if ft is not None and x == ft:
                r["find"] = out
            elif ft is not None and x == ("field", ("as", ft, "Ok"), 0):
                r["found"] = out
            elif x[0] == "field" and x[1] in (("arg", 1), ("deref", ("arg", 1))) and out in ("Some", "None") and r["world_opt"] is None and \
                    "Option<W>" in self._upvar_ty(x[2]):
                r["world_opt"] = out
                r["world_opt_term"] = x
            elif x[0] == "await" and x[1][0] == "call" and re.search(r"World::new$", x[1][1]):
                r["world_err"] = (out == "Err")
                r["world_term"] = x
        ret = p.ret
        # outcome of the routine: passed (Ok(world)), skipped (a failure value without StepError) or failed (one carrying a StepError)
        r["step_error"] = None
        for x in D.subterms(ret):
            if D.is_variant(x, "event::StepError"):
                r["step_error"] = x
                break
        r["world_out"] = None
        if D.is_variant(ret, "std::result::Result", "Ok") and not D.mentions(ret, lambda x: isinstance(x, tuple) and x and x[0] == "variant" and x[1].endswith("ExecutionFailure")):
            payload = ret[3][0]
            if payload[0] == "tuple":      # (the inner block tabulated on its own: Ok((captures, loc, world)))
                r["outcome"] = "passed" if r["step_call"] else "skipped"
                r["world_out"] = payload[1][-1] if payload[1] else None
            else:
                r["outcome"] = "passed"
                r["world_out"] = payload
        else:
            r["outcome"] = "failed" if r["step_error"] is not None else "skipped"
            fv = [x for x in D.subterms(ret) if isinstance(x, tuple) and x and x[0] == "variant" and (x[1].endswith("ExecutionFailure") or x[1].endswith("StepOutcome"))]
            src = fv[0][3] if fv else (ret[3][0][1] if D.is_variant(ret, "std::result::Result") and ret[3] and ret[3][0][0] == "tuple" else ())
            wo = [x for x in src if x == r.get("world_opt_term") or D.is_variant(x, "std::option::Option") or
                  (isinstance(x, tuple) and x and x[0] == "field" and x[1] in (("arg", 1), ("deref", ("arg", 1))) and "Option<W>" in self._upvar_ty(x[2]))]
            # the World component: the Option among the failure's fields that is / wraps the attempt's World (or is None)
            cands = [x for x in wo if not D.is_variant(x, "std::option::Option") or x[2] == "None" or self._is_world(x[3][0], r)]
            r["world_out"] = cands[0] if cands else None
        r["ret"] = "Err" if r["step_error"] is not None else "Ok"
        return r

    def _is_world(self, t, r):
        """Is term t the attempt's World on this row: the threaded one's payload or the one just created?"""
        if r.get("world_opt_term") is not None and t == ("field", ("as", r["world_opt_term"], "Some"), 0):
            return True
        wt = r.get("world_term")
        return wt is not None and t == ("field", ("as", wt, "Ok"), 0)

    def _upvar_ty(self, idx):
        # type of the captured variable idx of the block
        for d in self.body.debug:
            pl = d["pl"]
            if pl["l"] == 1:
                for e in pl["p"]:
                    if isinstance(e, dict) and e.get("f") == idx and e.get("o", "").startswith("{upvar}"):
                        return e.get("t", "")
        return ""


class BeforeTable:
    """RUN_BEFORE_HOOK's coroutine: World creation and the before hook."""

    def __init__(self, F, co):
        self.F, self.body = F, co
        self.paths = D.Deep(F, co, max_paths=4000).run()
        if not self.paths or any(p.cut for p in self.paths):
            raise Unverifiable("before-hook routine: empty path table or a loop")
