"""C13 — writer combinators are transparent: fail_on_skipped, repeat, tee, or (DESIGN §4 C13)."""
import re

from . import analysis as A
from . import roles
from . import tags
from .mir import Site, Unverifiable, callee_is, callee_path, const_int, const_str, op_fn, op_local, op_place, place_fields, place_str

CFGS = {"quick": ["default", "all"], "thorough": ["default", "all", "nodefault", "libtest"]}

WITNESS = ["WriterOrder"]  # doctests of engine/witness run in the thorough tier

EXPLANATION = """
Path tables and pairing rules over the MIR of the writer combinators: (R1) FailOnSkipped: the event mapping has
exactly four transforming paths — (rule-level | feature-level) x (Background | Step) with Step::Skipped — each
calling the mapper that rebuilds the same kind (Background stays Background, Step stays Step) with Some(rule) iff
rule-level; every other path returns the event unchanged; the mapper yields Step::Failed(None, None, None, NotFound)
exactly on the predicate's true edge and Step::Skipped otherwise; the default predicate is
`!(scenario ∪ rule ∪ feature tags).any(== "allow.skipped")`; the inner handle_event is called exactly once;
(R2) Repeat: the incoming event is forwarded exactly once on every path before any replay, buffered iff the filter
accepts it, replay happens only for Ok(Cucumber::Finished) and walks mem::take(events) front to back, calling the
inner writer per element; the accepted sets of `skipped` / `failed` filters equal the specified variant sets;
(R3) Tee forwards events and writes to both children through one join; Or calls exactly one child per path, the
left one on the predicate's true edge; discard wrappers forward handle_event unchanged; Stats algebra = C01.R4.
(R4) type-level ordering (FailOnSkipped cannot sit inside Summarize/Repeat) is shown by the witness crate.
Added after the second seeded round: (R6) Tee / Repeat hand out clones: Clone of every event:: and writer:: type keeps variant and fields (path tables; PhantomData fields excepted).
"""
DECLINED = ["behaviour of user-supplied predicates / filters"]
ASSUMPTIONS = ["future::join polls both operands to completion"]

FOS = "writer::fail_on_skipped::FailOnSkipped"
REP = "writer::repeat::Repeat"


def handle_event_co(F, adt):
    hs = [b for a, b in roles.trait_impl_methods(F, r"^writer::Writer$", "handle_event") if a == adt]
    if len(hs) != 1:
        raise Unverifiable(f"Writer::handle_event for {adt}: {len(hs)}")
    return hs[0], roles.coroutine_of(F, hs[0])


def short_dec(p):
    out = {}
    for a, o in p.decisions:
        m = re.search(r":(?:event|std::result)::(\w+)\)$", a)
        if m:
            out[m.group(1)] = o
    return out


def r1(F, R):
    """FailOnSkipped's transformation, decided on the deep path table of its handle_event (deep.py): per event shape, what
    is asked of the predicate and what is forwarded to the inner writer."""
    from . import deep as D
    fn, co = handle_event_co(F, FOS)
    only = lambda cb: cb.name.startswith("event::") or cb.name.startswith("writer::fail_on_skipped::") or bool(cb.impl and cb.impl.get("self_adt") == FOS and not cb.impl.get("trait"))
    dp = D.Deep(F, co, inline_only=only, max_paths=4000)
    paths = dp.run()
    if not paths or any(p.cut for p in paths):
        raise Unverifiable("FailOnSkipped::handle_event: empty path table or a loop")
    ev_root = None
    for i, nm in co.upvar_names().items():
        if nm in ("event", "ev"):
            ev_root = ("field", ("arg", 1), i)
    if ev_root is None:
        raise Unverifiable("event parameter of FailOnSkipped::handle_event")
    transforming = []
    n_fwd_bad = 0
    for p in paths:
        d = {}
        for a, o in p.conds:
            if a[0] == "discr" and isinstance(o, str):
                adt = dp.adt_of.get(a, "")
                if adt.startswith("event::") and D.mentions(a[1], lambda x: x == ev_root):
                    d[adt.rsplit("::", 1)[-1]] = o
        preds = [(i, e) for i, e in enumerate(p.effects) if e[0] == "call" and e[1] == "<indirect>"]
        fwds = [(i, e) for i, e in enumerate(p.effects) if e[0] == "call" and re.search(r"Writer::handle_event$", e[1])]
        if len(fwds) != 1:
            n_fwd_bad += 1
            continue
        sent = fwds[0][1][2][1]
        is_target = d.get("Cucumber") == "Feature" and d.get("Feature") in ("Rule", "Scenario") and (d.get("Feature") != "Rule" or d.get("Rule") == "Scenario") \
            and d.get("Scenario") in ("Background", "Step") and d.get("Step") == "Skipped"
        if is_target:
            inst = f"transforms/{d.get('Feature')}-level/{d.get('Scenario')}"
            ok = len(preds) == 1 and preds[0][0] < fwds[0][0]
            why = f"{len(preds)} predicate calls"
            if ok:
                pe = preds[0][1]
                pterm = ("call", pe[1], pe[2], pe[4])
                verdict = [o for a, o in p.conds if a == pterm]
                # the predicate's rule argument: Some(..) for rule-level, None for feature-level scenarios
                rule_arg = [x for x in pe[2] if D.is_variant(x, "std::option::Option")]
                want_rule = "Some" if d.get("Feature") == "Rule" else "None"
                kinds = {x[2] for x in D.subterms(sent) if D.is_variant(x, "event::Scenario")}
                steps = [x for x in D.subterms(sent) if D.is_variant(x, "event::Step")]
                level_ok = (d.get("Feature") == "Rule") == any(D.is_variant(x, "event::Feature", "Rule") for x in D.subterms(sent))
                ok = len(verdict) == 1 and len(rule_arg) == 1 and rule_arg[0][2] == want_rule and kinds == {d.get("Scenario")} and len(steps) == 1 and level_ok
                why = f"forwards Scenario::{sorted(kinds)} with predicate rule argument {[x[2] for x in rule_arg]}"
                if ok:
                    st_ev = steps[0]
                    if verdict[0] is True:
                        nf = st_ev[2] == "Failed" and D.is_variant(st_ev[3][3] if len(st_ev[3]) > 3 else None, "event::StepError", "NotFound") and \
                            all(D.is_variant(x, "std::option::Option", "None") for x in st_ev[3][:3])
                        R.check(nf, "failed-iff-predicate", T_site(F, pe), "should_fail => Failed(None, None, None, NotFound)",
                                f"with the predicate true the step is forwarded as Step::{st_ev[2]} (expected Failed(None, None, None, NotFound))")
                    else:
                        R.check(st_ev[2] == "Skipped", "skipped-otherwise", T_site(F, pe), "!should_fail => Skipped", f"with the predicate false the step is forwarded as Step::{st_ev[2]}")
                    # the event's own feature / scenario / retries are kept
                    ok = D.mentions(sent, lambda x: x == ev_root)
                    why = "the forwarded event is not built from the received one"
            R.check(ok, inst, co, f"Skipped {d.get('Scenario')} step -> predicate asked, same kind and level forwarded",
                    f"{d.get('Feature')}-level {d.get('Scenario')} Skipped event: {why}")
            transforming.append((d.get("Feature"), d.get("Scenario"), d.get("Step")))
        else:
            inst = "identity/" + "/".join(f"{k}={v}" for k, v in sorted(d.items()))
            same = not preds and _is_rewrap_of(sent, ev_root)
            R.check(same, inst, co, "event passes through unchanged", f"a non-Skipped event ({d}) is transformed (or the predicate is consulted)")
    R.check(sorted(set(map(str, transforming))) == sorted(map(str, [("Rule", "Background", "Skipped"), ("Rule", "Step", "Skipped"), ("Scenario", "Background", "Skipped"), ("Scenario", "Step", "Skipped")])),
            "four-transforming-arms", co, "4 (level x kind) arms", f"transforming arms: {sorted(set(transforming))}")
    R.check(n_fwd_bad == 0, "forward-once", co, "inner.handle_event(mapped) exactly once", f"{n_fwd_bad} paths do not forward exactly one event to the inner writer")
    # default predicate: every predicate (closure or private fn item) that can become `should_fail` on a way from the documented entries
    # `Ext::fail_on_skipped` / `FailOnSkipped::from` — stored by a constructor they call or passed on by them — is `!tagged @allow.skipped`
    def preds_of(cb, op):
        c = A.closure_of_operand(F, cb, op)
        if c is not None:
            return [c]
        out = []
        for f_ in A.slice_back(cb, [op]).fns:
            if f_.get("local"):
                fb = F.body(f_.get("res") or f_["path"], cb.crate) or F.body(f_["path"], cb.crate)
                if fb is not None and fb.locals[0] == "bool":
                    out.append(fb)
        return out
    entries = [eb for eb in F.crate_bodies() if ((eb.impl or {}).get("trait") == "writer::Ext" and re.search(r"::fail_on_skipped$", eb.name)) or
               ((eb.impl or {}).get("self_adt") == FOS and (eb.impl or {}).get("trait") == "std::convert::From")]
    if len(entries) < 2:
        raise Unverifiable(f"entries of the default fail_on_skipped (Ext::fail_on_skipped, From<Writer>): {len(entries)}")
    for eb in entries:
        found, seen, work = [], set(), [(eb, 0)]
        while work:
            cb, d = work.pop()
            if cb.key in seen:
                continue
            seen.add(cb.key)
            for _, st in cb.assigns(lambda st: st["rv"]["k"] == "agg" and st["rv"].get("adt") == FOS):
                f = dict(zip(st["rv"]["fields"], st["rv"]["ops"]))
                found += preds_of(cb, f["should_fail"])
            for _, t in cb.calls():
                for a_ in t["args"]:
                    found += preds_of(cb, a_)
                nb = F.callee_body_impl(t)
                if nb is not None and d < 3:
                    work.append((nb, d + 1))
        uniq = {c.key: c for c in found}
        is_ext = (eb.impl or {}).get("trait") == "writer::Ext"
        for c in uniq.values():
            _check_default_predicate(F, R, c, "ext-default-predicate" if is_ext else "default-predicate")
        R.check(bool(uniq), ("ext-default-predicate" if is_ext else "default-predicate") + "/source", eb, f"{eb.short[-40:]} reaches {len(uniq)} predicate(s), each checked",
                f"no predicate is reachable from `{eb.short[-60:]}`")
    R.floor(22)


def _check_default_predicate(F, R, pred, pre):
    pb = F.nested(pred)
    anys = [(b, s, t) for b in pb for s, t in b.calls(lambda t: callee_is(t, r"Iterator::(any|find|position|all)$"))]
    strs = [const_str(a) for nb in pb for _, tt in nb.calls() for a in tt["args"] if const_str(a) is not None] + \
           [const_str(op) for nb in pb for _, stt in nb.assigns() for op in A.rvalue_operands(stt["rv"]) if const_str(op) is not None]
    cmps = [(b, s, t) for b in pb for s, t in b.calls(lambda t: callee_is(t, r"PartialEq.*::(eq|ne)$")) if b.in_cycle(s)]
    if not anys and cmps and pred.kind in ("Fn", "AssocFn", "Closure"):
        # explicit-loop spelling (`for tag in &sc.tags { if tag == LIT { return false } } ..`): every comparison inside a loop is with the
        # literal; together they look at the tags of all three levels; `false` is answered only on the positive edge of such a comparison and
        # `true` is answered somewhere (weaker than the union rule below: which level is consulted when is not decided in this form)
        lits, owners = [], set()
        for b, s, t in cmps:
            lits += [F.const_str_of(c, b.crate) for c in A.slice_back(b, list(t["args"])).consts if F.const_str_of(c, b.crate) is not None]
            owners |= {o for o, n in A.deep_slice(F, b, list(t["args"])).fields if n == "tags"}
        R.ok(pre + "/search", pred, f"{len(cmps)} comparison(s) with the literal inside loops")
        R.check({"gherkin::Scenario", "gherkin::Rule", "gherkin::Feature"} <= owners, pre + "/tags/covers-three-levels", cmps[0][1], "tags of scenario, rule and feature are compared",
                f"the allow.skipped tag is looked for in the tags of {sorted(owners)} only")
        R.check(set(lits) == {"allow.skipped"}, pre + "/literal", cmps[0][1], '== "allow.skipped"', f"default predicate compares with {sorted(set(lits))}")
        rets = [(s, const_int(st["rv"]["op"])) for s, st in pred.assigns(lambda st: st["pl"]["l"] == 0 and not st["pl"]["p"] and st["rv"]["k"] == "use" and const_int(st["rv"]["op"]) is not None)]
        pos = lambda s: any(g.polarity() is True and g.cond_def() and g.cond_def()[0] == "call" and callee_is(g.cond_def()[2], r"PartialEq.*::eq$") for g in A.guards_of(pred, s))
        ok = any(v == 1 for _, v in rets) and any(v == 0 for _, v in rets) and all(pos(s) for s, v in rets if v == 0) and not any(pos(s) for s, v in rets if v == 1)
        R.check(ok, pre + "/negated", pred, "false exactly where the tag was found", "the default predicate is not the negation of `tagged @allow.skipped`")
        return
    R.check(len(anys) == 1 and callee_is(anys[0][2], r"Iterator::any$"), pre + "/search", pred, "tags.any(..)", f"{len(anys)} searches in the default predicate")
    if len(anys) == 1:
        b, s, t = anys[0]
        tags.check_tag_union(F, R, b, t["args"][0], pre + "/tags", s, "allow.skipped tag")
        R.check(strs == ["allow.skipped"], pre + "/literal", s, '== "allow.skipped"', f"default predicate compares with {strs}")
        sd = pred.single_def(0)
        neg = bool(sd and sd[1] == "assign" and sd[2]["rv"]["k"] == "un" and sd[2]["rv"]["op"] == "Not" and op_local(sd[2]["rv"]["a"]) == t["dest"]["l"])
        R.check(neg, pre + "/negated", pred, "should_fail = !tagged", "the default predicate is not the negation of `tagged @allow.skipped`")


def T_site(F, e):
    key, bb, idx = e[3]
    b = F.bodies.get(key)
    return Site(b, bb, idx) if b is not None else None


def _is_rewrap_of(sent, ev_root):
    """Is the forwarded term the received event itself, possibly taken apart and put together again
    (`Ok(Event(value of the received Ok event))`, `Err(error of the received Err)`)?"""
    from . import deep as D
    if sent == ev_root:
        return True
    # every leaf of the term is a projection of the received event, and no event variant is constructed anew
    for x in D.subterms(sent):
        if x[0] == "variant" and x[1].startswith("event::") and x[1] not in ("event::Event", "event::Metadata"):
            return False
        if x[0] in ("call", "const", "await", "unknown"):
            return False
    return D.mentions(sent, lambda x: x == ev_root)


def filter_true_sets(F, kb):
    """The event shapes a filter closure accepts: for every path of its deep table (helpers inlined) returning true, the
    {ADT: variant} it learned about its argument."""
    from . import deep as D
    dp = D.Deep(F, kb, max_paths=2000)
    out = []
    for p in dp.run():
        if p.ret == ("const", True):
            d = {}
            for a, o in p.conds:
                if a[0] == "discr" and isinstance(o, str):
                    adt = dp.adt_of.get(a, "")
                    if adt.startswith("event::") or adt == "std::result::Result":
                        if D.mentions(a[1], lambda x: x == ("arg", 2 if kb.kind == "Closure" else 1)):
                            d[adt.rsplit("::", 1)[-1]] = o
            out.append(frozenset(d.items()))
        elif p.ret != ("const", False):
            out.append(frozenset([("?", "unknown-result")]))
    return set(out)


def r2(F, R):
    """Repeat::handle_event on its deep path table (the replay loop may live in a private async helper)."""
    from . import deep as D
    from .spans import upvar_types
    fn, co = handle_event_co(F, REP)
    ev_idx = [i for i, ty in upvar_types(co).items() if ty.startswith("std::result::Result<event::Event<event::Cucumber<")]
    if len(ev_idx) != 1:
        raise Unverifiable(f"Repeat::handle_event: {len(ev_idx)} captured event parameters")
    EV = ("field", ("arg", 1), ev_idx[0])

    def norm(t):
        if isinstance(t, tuple) and t:
            if t[0] in ("conv", "refto", "ref", "deref") and len(t) == 2:
                return norm(t[1])
            return tuple(norm(x) for x in t)
        return t
    rows = D.Deep(F, co, max_paths=600).run()
    if not rows:
        raise Unverifiable("Repeat::handle_event: empty path table")
    bad = {}
    n_fin = n_loop = 0
    for p in rows:
        eff = p.effects
        inner = [(i, e) for i, e in enumerate(eff) if e[0] == "call" and re.search(r"Writer(<.*>)?(>)?::handle_event$", e[1])]
        fwd = [(i, e) for i, e in inner if len(e[2]) > 1 and norm(e[2][1]) == EV]
        rep = [(i, e) for i, e in inner if len(e[2]) > 1 and D.mentions(e[2][1], lambda y: y[0] == "call" and re.search(r"Iterator::next$", y[1]))]
        if len(fwd) != 1 or len(fwd) + len(rep) != len(inner) or any(i < fwd[0][0] for i, _ in rep):
            bad.setdefault("forward-once-first", "the incoming event is not forwarded exactly once (unchanged) before any replay")
            continue
        fil = [(a, o) for a, o in p.conds if a[0] == "call" and a[1] == "<indirect>" and isinstance(o, bool) and D.mentions(a, lambda y: norm(y) == EV)]
        pushes = [(i, e) for i, e in enumerate(eff) if e[0] == "call" and re.search(r"Vec(::<.*>)?::push$", e[1])]
        if len(fil) != 1 or len(pushes) != (1 if fil[0][1] else 0) or any(norm(e[2][1]) != EV for _, e in pushes):
            bad.setdefault("buffer-iff-filter", "buffering is not conditioned exactly on the filter (or does not store a clone of the event)")
        finished = any(o == "Finished" and a[0] == "discr" and D.mentions(a, lambda y: norm(y) == EV) for a, o in p.conds)
        takes = [(i, e) for i, e in enumerate(eff) if e[0] == "call" and re.search(r"mem::take$", e[1])]
        if (takes or rep) and not finished:
            bad.setdefault("replay-on-finished", "the replay is not restricted to Ok(Cucumber::Finished)")
        if finished:
            n_fin += 1
            nexts = [(i, e) for i, e in enumerate(eff) if e[0] == "call" and re.search(r"Iterator::next$", e[1])]
            ok = len(takes) == 1 and len(nexts) >= 1
            if ok:
                it = norm(nexts[0][1][2][0])
                tk = ("call", takes[0][1][1], takes[0][1][2], takes[0][1][4])
                ok = it[0] == "call" and re.search(r"IntoIterator::into_iter$", it[1]) is not None and it[2][0] == norm(tk) and norm(tk)[2][0][0] == "field"
                for i, e in rep:
                    nx = [n_ for n_ in nexts if n_[0] < i]
                    want = ("field", ("as", ("call", nx[-1][1][1], nx[-1][1][2], nx[-1][1][4]), "Some"), 0) if nx else None
                    ok = ok and want is not None and norm(e[2][1]) == norm(want)
                    looped = p.cut or any(e2[0] == "loop-back" for e2 in eff[i:])
                    ok = ok and looped
                    n_loop += 1
            if not ok:
                bad.setdefault("replay-in-order-once", "the replay does not walk mem::take(events) front to back, handing each element to the inner writer in a loop")
            if takes and takes[0][0] < fwd[0][0]:
                bad.setdefault("replay-after-finished-forwarded", "replay precedes forwarding Finished")
    if n_fin == 0 or n_loop == 0:
        bad.setdefault("replay-on-finished", "no path replays the buffer after Ok(Cucumber::Finished)")
    R.check(True, "inner-call-sites", co, f"forward + replay on {len(rows)} paths")
    for key, txt in (("forward-once-first", "the event is forwarded exactly once, before any replay"), ("forward-unchanged", ""), ("buffer-iff-filter", "events.push(event.clone()) iff filter(&event)"),
                     ("replay-on-finished", "replay loop only after Ok(Cucumber::Finished)"), ("replay-in-order-once", "for ev in mem::take(&mut self.events)"),
                     ("replay-after-finished-forwarded", "")):
        k2 = "forward-once-first" if key == "forward-unchanged" else key
        R.check(k2 not in bad, key, co, txt, bad.get(k2, ""))
    # accepted sets
    ctors = {}
    for b in F.crate_bodies():
        if (b.impl or {}).get("self_adt") == REP and not (b.impl or {}).get("trait") and b.kind == "AssocFn":
            for s, st in b.assigns(lambda st: st["rv"]["k"] == "agg" and st["rv"].get("adt") == REP):
                f = dict(zip(st["rv"]["fields"], st["rv"]["ops"]))
                kb = A.closure_of_operand(F, b, f["filter"])
                if kb is not None:
                    ctors[b.name.rsplit("::", 1)[-1]] = kb
            # ... or the constructor delegates: `Self::new(writer, is_skipped)` with the filter as a closure or a fn item
            if b.name.rsplit("::", 1)[-1] not in ctors:
                for s, t in b.calls():
                    cb = F.callee_body(t, b.crate)
                    if cb is None or (cb.impl or {}).get("self_adt") != REP:
                        continue
                    for a in t["args"]:
                        kb = A.closure_of_operand(F, b, a)
                        if kb is None:
                            fi = op_fn(a)
                            if fi is None:
                                l = op_local(a)
                                sd = b.single_def(A.canon_place(b, {"l": l, "p": []})["l"]) if l is not None else None
                                if sd and sd[1] == "assign" and sd[2]["rv"]["k"] in ("use", "cast"):
                                    fi = op_fn(sd[2]["rv"]["op"])
                            if fi is not None and fi.get("local"):
                                kb = F.body(fi.get("res") or fi["path"], b.crate) or F.body(fi["path"], b.crate)
                        if kb is not None and kb.locals[0] == "bool":
                            ctors[b.name.rsplit("::", 1)[-1]] = kb

    def lv(level, kind, var, key):
        base = {"Result": "Ok", "Cucumber": "Feature", "Feature": level, "Scenario": kind, key: var}
        if level == "Rule":
            base["Rule"] = "Scenario"
        return frozenset(base.items())
    want_sk = {lv(l, k, "Skipped", "Step") for l in ("Rule", "Scenario") for k in ("Step", "Background")}
    want_fa = {lv(l, k, "Failed", "Step") for l in ("Rule", "Scenario") for k in ("Step", "Background")} | \
              {lv(l, "Hook", "Failed", "Hook") for l in ("Rule", "Scenario")} | {frozenset({"Result": "Err"}.items())}
    for name, want in (("skipped", want_sk), ("failed", want_fa)):
        kb = ctors.get(name)
        if kb is None:
            R.unverifiable(f"filter/{name}", "constructor or its filter closure not found")
            continue
        got = filter_true_sets(F, kb)
        missing = [dict(x) for x in want - got]
        extra = [dict(x) for x in got - want]
        R.check(not missing and not extra, f"filter-accepts/{name}", kb, f"{len(got)} accepted variant combinations",
                f"Repeat::{name} filter: not accepted {missing[:2]}, wrongly accepted {extra[:2]}")
    R.floor(9)


def r3(F, R):
    # Tee
    for method, trait in (("handle_event", r"^writer::Writer$"), ("write", r"^writer::Arbitrary$")):
        hs = [b for a, b in roles.trait_impl_methods(F, trait, method) if a == "writer::tee::Tee"]
        if len(hs) != 1:
            raise Unverifiable(f"Tee::{method}")
        co = roles.coroutine_of(F, hs[0])
        calls = [(s, t) for s, t in co.calls(lambda t: (op_fn(t["func"]) or {}).get("trait") in ("writer::Writer", "writer::Arbitrary"))]
        fields = []
        for s, t in calls:
            sl = A.slice_back(co, [t["args"][0]], stop_calls=[r"Future::poll$"])
            fields.append(sorted(n for o, n in sl.fields if o == "writer::tee::Tee"))
        joins = [(s, t) for s, t in co.calls(lambda t: callee_is(t, r"future::join$", r"::join$") and len(t["args"]) == 2)]
        ok = sorted(map(tuple, fields)) == [("left",), ("right",)] and len(joins) == 1
        if ok:
            js, jt = joins[0]
            both = [any(cs == s for cs, _ in A.slice_back(co, [a], stop_calls=[r"Future::poll$"]).calls) for a, (s, t) in zip(jt["args"], calls)] if False else None
            a0 = {cs for cs, _ in A.slice_back(co, [jt["args"][0]], stop_calls=[r"Future::poll$"]).calls}
            a1 = {cs for cs, _ in A.slice_back(co, [jt["args"][1]], stop_calls=[r"Future::poll$"]).calls}
            ok = {calls[0][0], calls[1][0]} <= (a0 | a1) and not ({calls[0][0], calls[1][0]} <= a0) and not ({calls[0][0], calls[1][0]} <= a1)
            aw = [x for x in A.awaits(co) if x.src_op is not None and js in A.slice_back(co, [x.src_op]).sites]
            ok = ok and len(aw) == 1 and not co.entry_reaches_return(stop=[aw[0].poll_site])
            unguarded = all(not [g for g in A.guards_of(co, s) if g.cond_def() and g.cond_def()[0] != "discr"] for s, _ in calls)
            ok = ok and unguarded
        R.check(ok, f"tee/{method}-to-both", co, f"join(left.{method}, right.{method}).await", f"Tee::{method} does not deliver to both children unconditionally through one join (children: {fields})")
    # Or
    hs = [b for a, b in roles.trait_impl_methods(F, r"^writer::Writer$", "handle_event") if a == "writer::or::Or"]
    if len(hs) != 1:
        raise Unverifiable("Or::handle_event")
    co = roles.coroutine_of(F, hs[0])
    calls = [(s, t) for s, t in co.calls(lambda t: (op_fn(t["func"]) or {}).get("trait") == "writer::Writer")]
    sides = {}
    for s, t in calls:
        sl = A.slice_back(co, [t["args"][0]], stop_calls=[r"Future::poll$"])
        fld = sorted(n for o, n in sl.fields if o == "writer::or::Or" and n in ("left", "right"))
        pol = None
        for g in A.guards_of(co, s):
            d = g.cond_def()
            if d and d[0] == "call" and re.search(r"ops::Fn", (op_fn(d[2]["func"]) or {}).get("trait", "")):
                pol = g.polarity()
        sides[tuple(fld)] = (s, pol)
    ok = set(sides) == {("left",), ("right",)} and sides[("left",)][1] is True and sides[("right",)][1] is False
    R.check(ok, "or/exactly-one-child", co, "predicate ? left : right", f"Or::handle_event routing: { {k: v[1] for k, v in sides.items()} }")
    if ok:
        a, b = sides[("left",)][0], sides[("right",)][0]
        R.check(not co.site_reaches(a, b) and not co.site_reaches(b, a), "or/never-both", a, "", "an event can be delivered to both children of Or")
        aws = [x for x in A.awaits(co)]
        R.check(len(aws) == 2 and not co.entry_reaches_return(stop=[x.poll_site for x in aws]), "or/always-one", co, "", "an event can be dropped by Or")
    # discard wrappers forward handle_event unchanged
    for adt in ("writer::discard::Arbitrary", "writer::discard::Stats"):
        hs = [b for a, b in roles.trait_impl_methods(F, r"^writer::Writer$", "handle_event") if a == adt]
        if len(hs) != 1:
            R.unverifiable(f"discard/{adt}", "impl not found")
            continue
        co = roles.coroutine_of(F, hs[0])
        calls = [(s, t) for s, t in co.calls(lambda t: (op_fn(t["func"]) or {}).get("trait") == "writer::Writer")]
        ok = len(calls) == 1 and not co.entry_reaches_return(stop=[calls[0][0]])
        if ok:
            sl = A.slice_back(co, [calls[0][1]["args"][1]], stop_calls=[r"Future::poll$"])
            ok = bool(sl.upvars) and not sl.calls
        R.check(ok, f"discard/{adt.rsplit('::', 1)[-1]}-forwards-events", co, "inner.handle_event(event, cli)", f"{adt} does not forward events unchanged exactly once")
    # arbitrary writes (`writer.write(val)`: the summary, user output) pass through every wrapper of ONE writer unchanged, exactly once — all
    # but `discard::Arbitrary`, which is documented to drop them
    LEAF = {"writer::basic::Basic", "writer::libtest::Libtest", "writer::json::Json", "writer::junit::JUnit", "writer::tee::Tee"}
    n_w = 0
    for adt, hb in sorted(roles.trait_impl_methods(F, r"^writer::Arbitrary$", "write"), key=lambda x: x[0]):
        if adt in LEAF or not adt.startswith("writer::"):
            continue
        co = roles.coroutine_of(F, hb)
        calls = [(s_, t) for s_, t in co.calls(lambda t: (op_fn(t["func"]) or {}).get("trait") == "writer::Arbitrary")]
        short = adt.replace("writer::", "")
        if adt == "writer::discard::Arbitrary":
            R.check(not calls, f"write/{short}-discards", co, "documented: drops arbitrary writes", f"{adt}::write forwards although it is documented to discard")
            continue
        n_w += 1
        ok = len(calls) == 1 and not co.entry_reaches_return(stop=[calls[0][0]])
        why = f"{len(calls)} forwarding call(s), or a path round it"
        if ok:
            sl = A.slice_back(co, [calls[0][1]["args"][1]], stop_calls=[r"Future::poll$"])
            ok = bool(sl.upvars) and not sl.calls
            why = "the value handed on is not the received one"
        if ok:
            aw = [x for x in A.awaits(co) if x.src_op is not None and calls[0][0] in A.slice_back(co, [x.src_op]).sites]
            ok = len(aw) == 1 and not co.entry_reaches_return(stop=[aw[0].poll_site])
            why = "the inner write is not awaited on every path"
        R.check(ok, f"write/{short}-forwards", co, "inner.write(val).await", f"{adt}::write does not pass the arbitrary write on to the wrapped writer exactly once ({why}): output written through it "
                f"(the summary, a Tee arm's copy) is lost")
    R.check(n_w >= 6, "write/forwarders", None, f"{n_w} forwarding wrappers", f"only {n_w} wrappers implementing Arbitrary found")
    R.floor(14)


def r4(F, R):
    """Type-level ordering from the trait-impl table: a transforming writer (FailOnSkipped) can never sit inside Summarize or
    Repeat, because those require `NonTransforming`/`Summarizable` of their inner writer and FailOnSkipped has no such impl."""
    impls = [i for i in F.impls if i["crate"] == "cucumber"]
    nt = [i for i in impls if i["trait"] == "writer::NonTransforming"]
    bad = [i["self"] for i in nt if i["self_adt"] == FOS]
    R.check(not bad, "fail-on-skipped-is-transforming", None, "no `impl NonTransforming for FailOnSkipped`", f"FailOnSkipped is declared NonTransforming: {bad}")
    # wrappers are NonTransforming only if every inner writer is
    for i in nt:
        m = re.match(r"^[\w:]+<(.*)>$", i["self"])
        params = [x.strip() for x in m.group(1).split(",")] if m else []
        a = F.adt(i["self_adt"]) if i["self_adt"] else None
        if a is None:
            continue
        # type params that are the type of a field and have a Writer-ish role: those constrained anywhere in the crate by Writer bounds
        writer_params = set()
        for j in impls:
            if j["self_adt"] == i["self_adt"] and j["trait"] == "writer::Writer":
                mj = re.match(r"^[\w:]+<(.*)>$", j["self"])
                pj = [x.strip() for x in mj.group(1).split(",")] if mj else []
                for pos, pn in enumerate(pj):
                    if any(re.match(rf"^{re.escape(pn)}: writer::Writer<", pr) for pr in j["preds"]):
                        writer_params.add(pos)
        need = [params[pos] for pos in sorted(writer_params) if pos < len(params)]
        missing = [pn for pn in need if f"{pn}: writer::NonTransforming" not in i["preds"]]
        R.check(not missing, f"non-transforming-is-structural/{i['self_adt'].replace('writer::', '')}", None, f"requires NonTransforming of {need}",
                f"`impl NonTransforming for {i['self']}` does not require NonTransforming of its inner writer(s) {missing}: a transforming writer could hide inside it")
    sw = [i for i in impls if i["trait"] == "writer::Writer" and i["self_adt"] == "writer::summarize::Summarize"]
    R.check(len(sw) == 1 and any(re.search(r": writer::summarize::Summarizable$", pr) for pr in sw[0]["preds"]), "summarize-requires-summarizable", None,
            "impl Writer for Summarize<Wr> where Wr: Summarizable", "Summarize no longer requires its inner writer to be Summarizable")
    rw = [i for i in impls if i["trait"] == "writer::Writer" and i["self_adt"] == REP]
    R.check(len(rw) == 1 and any(re.search(r": writer::NonTransforming$", pr) for pr in rw[0]["preds"]), "repeat-requires-non-transforming", None,
            "impl Writer for Repeat<_, Wr, _> where Wr: NonTransforming", "Repeat no longer requires its inner writer to be NonTransforming")
    for i in [i for i in impls if i["trait"] == "writer::summarize::Summarizable"]:
        if i["self_adt"] == "":
            R.check(any(re.search(r": writer::NonTransforming$", pr) for pr in i["preds"]), "summarizable-blanket-needs-non-transforming", None,
                    "impl<T: NonTransforming> Summarizable for T", "the blanket Summarizable impl does not require NonTransforming")
        else:
            R.check(i["self_adt"] != FOS, f"summarizable/{i['self_adt'].replace('writer::', '')}", None, "", "FailOnSkipped is declared Summarizable")
    R.floor(10)


def r5(F, R):
    """Stats algebra of the combinators (Tee = max, Or = sum, wrappers delegate getter-for-getter) — the same rule as C01.R4."""
    from . import c01
    c01.r4(F, R)


def r6(F, R):
    """Tee / Repeat deliver *clones* of the events: cloning an event keeps its variant and every field (path tables of the
    Clone impls of the event types)."""
    roles.check_clone_faithful_table(F, R, "event::", "event-clone-faithful")
    roles.check_clone_faithful_table(F, R, "writer::", "writer-clone-faithful")
    R.floor(30)


def r7(F, R):
    """FailOnSkipped re-wraps every event through `Event::map`; `Event`'s transformers keep the stored metadata."""
    n = roles.check_event_metadata_kept(F, R)
    if n:
        R.floor(3)


def r8_setters(F, R):
    """Cucumber's writer-wrapping builders forward to the like-named `writer::Ext` method; `Ext::repeat_skipped` / `repeat_failed` call the like-named `Repeat` constructor."""
    roles.check_all_builder_setters(F, R, only=r"^(fail_on_skipped|fail_on_skipped_with|repeat_skipped|repeat_failed|repeat_if)$", floor=5)
    for b in F.crate_bodies():
        if (b.impl or {}).get("trait") == "writer::Ext" and re.search(r"::repeat_(skipped|failed)$", b.name):
            want = re.search(r"::repeat_(skipped|failed)$", b.name).group(1)
            callees = [re.sub(r"<[^<>]*(<[^<>]*(<[^<>]*>[^<>]*)*>[^<>]*)*>", "", callee_path(t) or "").replace("::::", "::").rsplit("::", 1)[-1] for _, t in b.calls() if "Repeat" in (callee_path(t) or "")]
            R.check(callees == [want], f"ext-constructor/repeat_{want}", b, f"Ext::repeat_{want} -> Repeat::{want}", f"`Ext::repeat_{want}` builds its wrapper with {callees} (expected Repeat::{want})")

RULES = [("R5", r5, None), ("R4", r4, None), ("R1", r1, None), ("R2", r2, None), ("R3", r3, None), ("R6", r6, None), ("R7", r7, ["all", "timestamps"]), ("R8", r8_setters, None)]
