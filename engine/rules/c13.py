"""C13 — writer combinators are transparent: fail_on_skipped, repeat, tee, or (DESIGN §4 C13)."""
import re

from . import analysis as A
from . import roles
from . import tags
from .mir import Site, Unverifiable, callee_is, callee_path, const_int, const_str, op_fn, op_local, op_place, place_fields, place_str

CFGS = {"quick": ["default", "all"], "thorough": ["default", "all", "nodefault", "libtest"]}

WITNESS = ["WriterOrder"]  # doctests of engine/witness run in the thorough tier

EXPLANATION = """
Path tables and pairing rules over the MIR of the writer combinators: (R1) FailOnSkipped: the event mapping has
exactly four transforming paths — (rule-level | feature-level) x (Background | Step) with Step::Skipped — each
calling the mapper that rebuilds the same kind (Background stays Background, Step stays Step) with Some(rule) iff
rule-level; every other path returns the event unchanged; the mapper yields Step::Failed(None, None, None, NotFound)
exactly on the predicate's true edge and Step::Skipped otherwise; the default predicate is
`!(scenario ∪ rule ∪ feature tags).any(== "allow.skipped")`; the inner handle_event is called exactly once;
(R2) Repeat: the incoming event is forwarded exactly once on every path before any replay, buffered iff the filter
accepts it, replay happens only for Ok(Cucumber::Finished) and walks mem::take(events) front to back, calling the
inner writer per element; the accepted sets of `skipped` / `failed` filters equal the specified variant sets;
(R3) Tee forwards events and writes to both children through one join; Or calls exactly one child per path, the
left one on the predicate's true edge; discard wrappers forward handle_event unchanged; Stats algebra = C01.R4.
(R4) type-level ordering (FailOnSkipped cannot sit inside Summarize/Repeat) is shown by the witness crate.
"""
DECLINED = ["behaviour of user-supplied predicates / filters"]
ASSUMPTIONS = ["future::join polls both operands to completion"]

FOS = "writer::fail_on_skipped::FailOnSkipped"
REP = "writer::repeat::Repeat"


def handle_event_co(F, adt):
    hs = [b for a, b in roles.trait_impl_methods(F, r"^writer::Writer$", "handle_event") if a == adt]
    if len(hs) != 1:
        raise Unverifiable(f"Writer::handle_event for {adt}: {len(hs)}")
    return hs[0], roles.coroutine_of(F, hs[0])


def short_dec(p):
    out = {}
    for a, o in p.decisions:
        m = re.search(r":(?:event|std::result)::(\w+)\)$", a)
        if m:
            out[m.group(1)] = o
    return out


def r1(F, R):
    fn, co = handle_event_co(F, FOS)
    nested = F.nested(co)
    # the mapping closure: the nested closure with the largest decision tree over event ADTs
    cands = []
    for b in nested:
        if b.kind != "Closure" or b.is_coroutine:
            continue
        ps = A.enumerate_paths(b)
        if any("Step" in short_dec(p) for p in ps) and len(ps) >= 8:
            cands.append((b, ps))
    if len(cands) != 1:
        raise Unverifiable(f"FailOnSkipped mapping closure: {len(cands)}")
    mb, paths = cands[0]
    transforming = []
    for p in paths:
        d = short_dec(p)
        calls = [(s, t) for s, t in p.calls() if callee_is(t, r"ops::Fn(Mut|Once)?::call(_mut|_once)?$")]
        key = (d.get("Feature"), d.get("Scenario"), d.get("Step"))
        is_target = d.get("Cucumber") == "Feature" and d.get("Feature") in ("Rule", "Scenario") and (d.get("Feature") != "Rule" or d.get("Rule") == "Scenario") \
            and d.get("Scenario") in ("Background", "Step") and d.get("Step") == "Skipped"
        if is_target:
            inst = f"transforms/{d.get('Feature')}-level/{d.get('Scenario')}"
            ok = len(calls) == 1
            why = f"{len(calls)} mapper calls"
            if ok:
                s, t = calls[0]
                kb = A.closure_of_operand(F, mb, t["args"][0])
                # what does the mapper build
                built = set()
                if kb is not None:
                    for nb in F.nested(kb):
                        for _, st in nb.assigns(lambda st: st["rv"]["k"] == "agg" and st["rv"].get("adt") == "event::Scenario"):
                            built.add(st["rv"]["variant"])
                tup = op_local(t["args"][1])
                sd = mb.single_def(tup) if tup is not None else None
                rule_arg = None
                if sd and sd[1] == "assign" and sd[2]["rv"]["k"] == "agg":
                    for o in sd[2]["rv"]["ops"]:
                        l = op_local(o)
                        if l is not None and mb.locals[l].startswith("std::option::Option<event::Source<gherkin::Rule>>"):
                            sdd = mb.single_def(l)
                            if sdd and sdd[1] == "assign" and sdd[2]["rv"]["k"] == "agg":
                                rule_arg = sdd[2]["rv"]["variant"]
                want_rule = "Some" if d.get("Feature") == "Rule" else "None"
                ok = built == {d.get("Scenario")} and rule_arg == want_rule
                why = f"mapper builds Scenario::{sorted(built)} with rule = {rule_arg}"
            R.check(ok, inst, Site(mb, p.blocks[-1], "T"), f"Skipped {d.get('Scenario')} step -> mapper of the same kind, rule {'' if d.get('Feature') == 'Rule' else 'not '}passed",
                    f"{d.get('Feature')}-level {d.get('Scenario')} Skipped event: {why}")
            transforming.append(key)
        else:
            inst = "identity/" + "/".join(f"{k}={v}" for k, v in sorted(d.items()))
            R.check(not calls, inst, Site(mb, p.blocks[-1], "T"), "event passes through unchanged", f"a non-Skipped event ({d}) is transformed")
    R.check(sorted(map(str, transforming)) == sorted(map(str, [("Rule", "Background", "Skipped"), ("Rule", "Step", "Skipped"), ("Scenario", "Background", "Skipped"), ("Scenario", "Step", "Skipped")])),
            "four-transforming-arms", mb, "4 (level x kind) arms", f"transforming arms: {transforming}")
    # map_failed: Failed(None,None,None,NotFound) iff predicate
    mf = None
    for b in nested:
        aggs = [(s, st) for s, st in b.assigns(lambda st: st["rv"]["k"] == "agg" and st["rv"].get("adt") == "event::Step")]
        if {st["rv"]["variant"] for _, st in aggs} == {"Failed", "Skipped"}:
            mf = (b, aggs)
    if mf is None:
        R.violation("mapper-found", co, "no closure building both Step::Failed and Step::Skipped")
    else:
        b, aggs = mf
        for s, st in aggs:
            pol = None
            for g in A.guards_of(b, s):
                d = g.cond_def()
                if d and d[0] == "call" and re.search(r"ops::Fn", (op_fn(d[2]["func"]) or {}).get("trait", "")) and (op_fn(d[2]["func"]) or {}).get("self", "").lstrip("&") == "F":
                    pol = g.polarity()
            if st["rv"]["variant"] == "Failed":
                sl = A.slice_back(b, st["rv"]["ops"])
                nf = [rv for _, rv in sl.aggs if rv.get("adt") == "event::StepError"]
                nones = [rv for _, rv in sl.aggs if rv.get("adt") == "std::option::Option" and rv["variant"] == "None"]
                R.check(pol is True and len(nf) == 1 and nf[0]["variant"] == "NotFound" and len(nones) >= 3, "failed-iff-predicate", s, "should_fail => Failed(None, None, None, NotFound)",
                        f"Step::Failed is produced on the {pol} edge of the predicate / with payload {[rv['variant'] for rv in nf]}")
            else:
                R.check(pol is False, "skipped-otherwise", s, "!should_fail => Skipped", f"Step::Skipped is produced on the {pol} edge of the predicate")
    # inner writer called exactly once with the mapped event
    inner = [(s, t) for s, t in co.calls(lambda t: (op_fn(t["func"]) or {}).get("trait") == "writer::Writer")]
    R.check(len(inner) == 1 and not co.entry_reaches_return(stop=[inner[0][0]]) and not co.in_cycle(inner[0][0]), "forward-once", inner[0][0] if inner else co,
            "inner.handle_event(mapped) exactly once", f"{len(inner)} inner handle_event call sites / not on every path")
    # default predicate
    froms = [b for b in F.crate_bodies() if (b.impl or {}).get("self_adt") == FOS and (b.impl or {}).get("trait") == "std::convert::From"]
    if len(froms) != 1:
        raise Unverifiable("From<Writer> for FailOnSkipped")
    pred = None
    for s, st in froms[0].assigns(lambda st: st["rv"]["k"] == "agg" and st["rv"].get("adt") == FOS):
        f = dict(zip(st["rv"]["fields"], st["rv"]["ops"]))
        pred = A.closure_of_operand(F, froms[0], f["should_fail"])
    if pred is None:
        raise Unverifiable("default should_fail closure")
    pb = F.nested(pred)
    anys = [(b, s, t) for b in pb for s, t in b.calls(lambda t: callee_is(t, r"Iterator::(any|find|position|all)$"))]
    R.check(len(anys) == 1 and callee_is(anys[0][2], r"Iterator::any$"), "default-predicate/search", pred, "tags.any(..)", f"{len(anys)} searches in the default predicate")
    if len(anys) == 1:
        b, s, t = anys[0]
        tags.check_tag_union(F, R, b, t["args"][0], "default-predicate/tags", s, "allow.skipped tag")
        strs = [const_str(a) for nb in pb for _, tt in nb.calls() for a in tt["args"] if const_str(a) is not None] + \
               [const_str(op) for nb in pb for _, stt in nb.assigns() for op in A.rvalue_operands(stt["rv"]) if const_str(op) is not None]
        R.check(strs == ["allow.skipped"], "default-predicate/literal", s, '== "allow.skipped"', f"default predicate compares with {strs}")
        sd = pred.single_def(0)
        neg = bool(sd and sd[1] == "assign" and sd[2]["rv"]["k"] == "un" and sd[2]["rv"]["op"] == "Not" and op_local(sd[2]["rv"]["a"]) == t["dest"]["l"])
        R.check(neg, "default-predicate/negated", pred, "should_fail = !tagged", "the default predicate is not the negation of `tagged @allow.skipped`")
    R.floor(22)


def filter_true_sets(F, kb):
    out = []
    for p in A.enumerate_paths(kb):
        if p.ret is True:
            out.append(frozenset(short_dec(p).items()))
        elif p.ret is None:
            out.append(frozenset([("?", "unknown-result")]))
    return set(out)


def r2(F, R):
    fn, co = handle_event_co(F, REP)
    inner = [(s, t) for s, t in co.calls(lambda t: (op_fn(t["func"]) or {}).get("trait") == "writer::Writer")]
    R.check(len(inner) == 2, "inner-call-sites", co, "forward + replay", f"{len(inner)} inner handle_event call sites")
    if len(inner) != 2:
        return
    if co.dominates(inner[1][0], inner[0][0]):
        inner = [inner[1], inner[0]]
    (s_fwd, t_fwd), (s_rep, t_rep) = inner
    R.check(co.dominates(s_fwd, s_rep) and not co.entry_reaches_return(stop=[s_fwd]) and not co.in_cycle(s_fwd), "forward-once-first", s_fwd,
            "the event is forwarded exactly once, before any replay", "the incoming event is not forwarded exactly once before the replay")
    # forwarded value is the parameter itself
    fsl = A.slice_back(co, [t_fwd["args"][1]], stop_calls=[r"Future::poll$"])
    R.check(bool(fsl.upvars) and not [c for _, c in fsl.calls if not callee_is(c, r"Deref", r"Clone::clone$")], "forward-unchanged", s_fwd, "", "the forwarded event is transformed")
    # buffering iff filter
    pushes = [(s, t) for s, t in co.calls(lambda t: callee_is(t, r"Vec::<.*>::push$"))]
    okp = False
    if len(pushes) == 1:
        s, t = pushes[0]
        gs = A.guards_of(co, s)
        fil = [g for g in gs if g.cond_def() and g.cond_def()[0] == "call" and (op_fn(g.cond_def()[2]["func"]) or {}).get("self", "").lstrip("&") == "F" and g.polarity() is True]
        others = [g for g in gs if g not in fil and g.cond_def() and g.cond_def()[0] != "discr"]
        okp = len(fil) == 1 and not others
        psl = A.slice_back(co, [t["args"][1]], stop_calls=[r"Future::poll$"])
        okp = okp and psl.has_call(r"Clone::clone$") and bool(psl.upvars)
    R.check(okp, "buffer-iff-filter", pushes[0][0] if pushes else co, "events.push(event.clone()) iff filter(&event)", "buffering is not conditioned exactly on the filter (or does not store a clone of the event)")
    # replay only on Finished, over mem::take(events), in order
    vc = A.vc_at(co, s_rep)
    fin = any(v == frozenset(["Finished"]) for v in vc.values())
    R.check(fin and co.in_cycle(s_rep), "replay-on-finished", s_rep, "replay loop only after Ok(Cucumber::Finished)", "the replay is not restricted to Ok(Cucumber::Finished) (or is not a loop over the buffer)")
    rsl = A.slice_back(co, [t_rep["args"][1]], stop_calls=[r"Future::poll$"])
    takes = rsl.calls_matching(r"mem::take$")
    bad = [callee_path(c).rsplit("::", 1)[-1] for _, c in rsl.calls if (op_fn(c["func"]) or {}).get("trait", "").endswith(("Iterator", "Itertools", "DoubleEndedIterator"))
           and callee_path(c).rsplit("::", 1)[-1] not in ("next", "into_iter")]
    R.check(len(takes) == 1 and not bad and rsl.has_call(r"IntoIterator::into_iter$"), "replay-in-order-once", s_rep, "for ev in mem::take(&mut self.events)",
            f"the replay does not walk mem::take(events) front to back (adaptors: {bad}, takes: {len(takes)})")
    R.check(co.dominates(s_fwd, s_rep), "replay-after-finished-forwarded", s_rep, "", "replay precedes forwarding Finished")
    # accepted sets
    ctors = {}
    for b in F.crate_bodies():
        if (b.impl or {}).get("self_adt") == REP and not (b.impl or {}).get("trait") and b.kind == "AssocFn":
            for s, st in b.assigns(lambda st: st["rv"]["k"] == "agg" and st["rv"].get("adt") == REP):
                f = dict(zip(st["rv"]["fields"], st["rv"]["ops"]))
                kb = A.closure_of_operand(F, b, f["filter"])
                if kb is not None:
                    ctors[b.name.rsplit("::", 1)[-1]] = kb

    def lv(level, kind, var, key):
        base = {"Result": "Ok", "Cucumber": "Feature", "Feature": level, "Scenario": kind, key: var}
        if level == "Rule":
            base["Rule"] = "Scenario"
        return frozenset(base.items())
    want_sk = {lv(l, k, "Skipped", "Step") for l in ("Rule", "Scenario") for k in ("Step", "Background")}
    want_fa = {lv(l, k, "Failed", "Step") for l in ("Rule", "Scenario") for k in ("Step", "Background")} | \
              {lv(l, "Hook", "Failed", "Hook") for l in ("Rule", "Scenario")} | {frozenset({"Result": "Err"}.items())}
    for name, want in (("skipped", want_sk), ("failed", want_fa)):
        kb = ctors.get(name)
        if kb is None:
            R.unverifiable(f"filter/{name}", "constructor or its filter closure not found")
            continue
        got = filter_true_sets(F, kb)
        missing = [dict(x) for x in want - got]
        extra = [dict(x) for x in got - want]
        R.check(not missing and not extra, f"filter-accepts/{name}", kb, f"{len(got)} accepted variant combinations",
                f"Repeat::{name} filter: not accepted {missing[:2]}, wrongly accepted {extra[:2]}")
    R.floor(9)


def r3(F, R):
    # Tee
    for method, trait in (("handle_event", r"^writer::Writer$"), ("write", r"^writer::Arbitrary$")):
        hs = [b for a, b in roles.trait_impl_methods(F, trait, method) if a == "writer::tee::Tee"]
        if len(hs) != 1:
            raise Unverifiable(f"Tee::{method}")
        co = roles.coroutine_of(F, hs[0])
        calls = [(s, t) for s, t in co.calls(lambda t: (op_fn(t["func"]) or {}).get("trait") in ("writer::Writer", "writer::Arbitrary"))]
        fields = []
        for s, t in calls:
            sl = A.slice_back(co, [t["args"][0]], stop_calls=[r"Future::poll$"])
            fields.append(sorted(n for o, n in sl.fields if o == "writer::tee::Tee"))
        joins = [(s, t) for s, t in co.calls(lambda t: callee_is(t, r"future::join$", r"::join$") and len(t["args"]) == 2)]
        ok = sorted(map(tuple, fields)) == [("left",), ("right",)] and len(joins) == 1
        if ok:
            js, jt = joins[0]
            both = [any(cs == s for cs, _ in A.slice_back(co, [a], stop_calls=[r"Future::poll$"]).calls) for a, (s, t) in zip(jt["args"], calls)] if False else None
            a0 = {cs for cs, _ in A.slice_back(co, [jt["args"][0]], stop_calls=[r"Future::poll$"]).calls}
            a1 = {cs for cs, _ in A.slice_back(co, [jt["args"][1]], stop_calls=[r"Future::poll$"]).calls}
            ok = {calls[0][0], calls[1][0]} <= (a0 | a1) and not ({calls[0][0], calls[1][0]} <= a0) and not ({calls[0][0], calls[1][0]} <= a1)
            aw = [x for x in A.awaits(co) if x.src_op is not None and js in A.slice_back(co, [x.src_op]).sites]
            ok = ok and len(aw) == 1 and not co.entry_reaches_return(stop=[aw[0].poll_site])
            unguarded = all(not [g for g in A.guards_of(co, s) if g.cond_def() and g.cond_def()[0] != "discr"] for s, _ in calls)
            ok = ok and unguarded
        R.check(ok, f"tee/{method}-to-both", co, f"join(left.{method}, right.{method}).await", f"Tee::{method} does not deliver to both children unconditionally through one join (children: {fields})")
    # Or
    hs = [b for a, b in roles.trait_impl_methods(F, r"^writer::Writer$", "handle_event") if a == "writer::or::Or"]
    if len(hs) != 1:
        raise Unverifiable("Or::handle_event")
    co = roles.coroutine_of(F, hs[0])
    calls = [(s, t) for s, t in co.calls(lambda t: (op_fn(t["func"]) or {}).get("trait") == "writer::Writer")]
    sides = {}
    for s, t in calls:
        sl = A.slice_back(co, [t["args"][0]], stop_calls=[r"Future::poll$"])
        fld = sorted(n for o, n in sl.fields if o == "writer::or::Or" and n in ("left", "right"))
        pol = None
        for g in A.guards_of(co, s):
            d = g.cond_def()
            if d and d[0] == "call" and re.search(r"ops::Fn", (op_fn(d[2]["func"]) or {}).get("trait", "")):
                pol = g.polarity()
        sides[tuple(fld)] = (s, pol)
    ok = set(sides) == {("left",), ("right",)} and sides[("left",)][1] is True and sides[("right",)][1] is False
    R.check(ok, "or/exactly-one-child", co, "predicate ? left : right", f"Or::handle_event routing: { {k: v[1] for k, v in sides.items()} }")
    if ok:
        a, b = sides[("left",)][0], sides[("right",)][0]
        R.check(not co.site_reaches(a, b) and not co.site_reaches(b, a), "or/never-both", a, "", "an event can be delivered to both children of Or")
        aws = [x for x in A.awaits(co)]
        R.check(len(aws) == 2 and not co.entry_reaches_return(stop=[x.poll_site for x in aws]), "or/always-one", co, "", "an event can be dropped by Or")
    # discard wrappers forward handle_event unchanged
    for adt in ("writer::discard::Arbitrary", "writer::discard::Stats"):
        hs = [b for a, b in roles.trait_impl_methods(F, r"^writer::Writer$", "handle_event") if a == adt]
        if len(hs) != 1:
            R.unverifiable(f"discard/{adt}", "impl not found")
            continue
        co = roles.coroutine_of(F, hs[0])
        calls = [(s, t) for s, t in co.calls(lambda t: (op_fn(t["func"]) or {}).get("trait") == "writer::Writer")]
        ok = len(calls) == 1 and not co.entry_reaches_return(stop=[calls[0][0]])
        if ok:
            sl = A.slice_back(co, [calls[0][1]["args"][1]], stop_calls=[r"Future::poll$"])
            ok = bool(sl.upvars) and not sl.calls
        R.check(ok, f"discard/{adt.rsplit('::', 1)[-1]}-forwards-events", co, "inner.handle_event(event, cli)", f"{adt} does not forward events unchanged exactly once")
    R.floor(7)


def r4(F, R):
    """Type-level ordering from the trait-impl table: a transforming writer (FailOnSkipped) can never sit inside Summarize or
    Repeat, because those require `NonTransforming`/`Summarizable` of their inner writer and FailOnSkipped has no such impl."""
    impls = [i for i in F.impls if i["crate"] == "cucumber"]
    nt = [i for i in impls if i["trait"] == "writer::NonTransforming"]
    bad = [i["self"] for i in nt if i["self_adt"] == FOS]
    R.check(not bad, "fail-on-skipped-is-transforming", None, "no `impl NonTransforming for FailOnSkipped`", f"FailOnSkipped is declared NonTransforming: {bad}")
    # wrappers are NonTransforming only if every inner writer is
    for i in nt:
        m = re.match(r"^[\w:]+<(.*)>$", i["self"])
        params = [x.strip() for x in m.group(1).split(",")] if m else []
        a = F.adt(i["self_adt"]) if i["self_adt"] else None
        if a is None:
            continue
        # type params that are the type of a field and have a Writer-ish role: those constrained anywhere in the crate by Writer bounds
        writer_params = set()
        for j in impls:
            if j["self_adt"] == i["self_adt"] and j["trait"] == "writer::Writer":
                mj = re.match(r"^[\w:]+<(.*)>$", j["self"])
                pj = [x.strip() for x in mj.group(1).split(",")] if mj else []
                for pos, pn in enumerate(pj):
                    if any(re.match(rf"^{re.escape(pn)}: writer::Writer<", pr) for pr in j["preds"]):
                        writer_params.add(pos)
        need = [params[pos] for pos in sorted(writer_params) if pos < len(params)]
        missing = [pn for pn in need if f"{pn}: writer::NonTransforming" not in i["preds"]]
        R.check(not missing, f"non-transforming-is-structural/{i['self_adt'].replace('writer::', '')}", None, f"requires NonTransforming of {need}",
                f"`impl NonTransforming for {i['self']}` does not require NonTransforming of its inner writer(s) {missing}: a transforming writer could hide inside it")
    sw = [i for i in impls if i["trait"] == "writer::Writer" and i["self_adt"] == "writer::summarize::Summarize"]
    R.check(len(sw) == 1 and any(re.search(r": writer::summarize::Summarizable$", pr) for pr in sw[0]["preds"]), "summarize-requires-summarizable", None,
            "impl Writer for Summarize<Wr> where Wr: Summarizable", "Summarize no longer requires its inner writer to be Summarizable")
    rw = [i for i in impls if i["trait"] == "writer::Writer" and i["self_adt"] == REP]
    R.check(len(rw) == 1 and any(re.search(r": writer::NonTransforming$", pr) for pr in rw[0]["preds"]), "repeat-requires-non-transforming", None,
            "impl Writer for Repeat<_, Wr, _> where Wr: NonTransforming", "Repeat no longer requires its inner writer to be NonTransforming")
    for i in [i for i in impls if i["trait"] == "writer::summarize::Summarizable"]:
        if i["self_adt"] == "":
            R.check(any(re.search(r": writer::NonTransforming$", pr) for pr in i["preds"]), "summarizable-blanket-needs-non-transforming", None,
                    "impl<T: NonTransforming> Summarizable for T", "the blanket Summarizable impl does not require NonTransforming")
        else:
            R.check(i["self_adt"] != FOS, f"summarizable/{i['self_adt'].replace('writer::', '')}", None, "", "FailOnSkipped is declared Summarizable")
    R.floor(10)


def r5(F, R):
    """Stats algebra of the combinators (Tee = max, Or = sum, wrappers delegate getter-for-getter) — the same rule as C01.R4."""
    from . import c01
    c01.r4(F, R)


RULES = [("R5", r5, None), ("R4", r4, None), ("R1", r1, None), ("R2", r2, None), ("R3", r3, None)]
