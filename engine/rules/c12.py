"""C12 — summary counters (clauses): per-event increment table, counting window, final-only classification."""
import re

from . import analysis as A
from . import roles
from . import writers as W
from . import writers_deep as WD
from . import deep as D
from .mir import Site, Unverifiable, callee_is, callee_path, const_int, op_fn, op_local, op_place, place_fields

CFGS = {"quick": ["default", "all"], "thorough": ["default", "all", "nodefault", "libtest"]}

EXPLANATION = """
Static rules over the MIR of writer::Summarize: (R1) counter <-> event-variant table: every write of a counter field
is classified by the event variants under which it executes (variant-constraint dataflow composed along
handle_event -> handle_scenario -> handle_step), its operation (+1/-1) and the polarity of the retry predicate; the
observed set of (counter, op, variant, polarity) must equal the table, both Background and Step and both rule-level and
feature-level scenarios must reach the same handler, and no write may sit under an extra condition; (R2) counting
window: every counter write executes only while state == InProgress, Cucumber::Finished switches the state, the inner
handle_event is called exactly once on every path, the summary is written only in state FinishedButNotOutput, after
the inner call and after the state was advanced (hence once); (R3) scenario-level `failed` is final-only (C01.R3
guard); (R4) `scenarios.retried` is incremented only when the scenario was not yet marked.
Decides the per-event increments and the state machine; numeric equality with a concrete stream is not decided.
Added after the second seeded round: (R6) the counters read through writer::Stats of combined / wrapped writers follow the getter algebra (= C01.R4).
"""
DECLINED = ["numeric equality of the counters with a concrete event stream", "text of the summary"]
ASSUMPTIONS = ["HashMap::insert returns None iff the key was absent"]

SUM = "writer::summarize::Summarize"

# (counter, op, leaf adt, variants, retry polarity) -> allowed extra guard atoms (regexes)
# conditions on the per-scenario marker map (whatever API reads it: get / insert / remove / entry + Occupied / Vacant) and on the marker's value
MARK = [r"HashMap::\w+\(", r"hash_map::", r"summarize::Indicator"]
TABLE = {
    ("parsing_errors", "+1", "Result", "Err", None): [],
    ("features", "+1", "Feature", "Started", None): [],
    ("rules", "+1", "Rule", "Started", None): [],
    ("steps.passed", "+1", "Step", "Passed", None): [],
    ("steps.skipped", "+1", "Step", "Skipped", None): [],
    ("scenarios.skipped", "+1", "Step", "Skipped", None): [],
    ("steps.failed", "+1", "Step", "Failed", "final"): [],
    ("scenarios.failed", "+1", "Step", "Failed", "final"): [],
    ("steps.retried", "+1", "Step", "Failed", "retry"): [],
    ("scenarios.retried", "+1", "Step", "Failed", "retry"): MARK,
    ("failed_hooks", "+1", "Hook", "Failed", None): [],
    ("scenarios.failed", "+1", "Hook", "Failed", None): MARK,
    ("scenarios.skipped", "-1", "Hook", "Failed", None): MARK,
    ("scenarios.passed", "+1", "Scenario", "Finished", None): MARK,
}
COUNTERS = {"parsing_errors", "features", "rules", "failed_hooks", "steps.passed", "steps.skipped", "steps.failed",
            "steps.retried", "scenarios.passed", "scenarios.skipped", "scenarios.failed", "scenarios.retried"}


def summarize_writes(F):
    root, bodies = W.handler_bodies(F, SUM)
    ws = [w for w in W.counter_writes(F, SUM, bodies) if w.name in COUNTERS]
    return root, bodies, ws


leaf = W.leaf


MANDATORY = {
    ("event::Step", "Passed"): {"steps.passed"},
    ("event::Step", "Skipped"): {"steps.skipped"},
    ("event::Step", "Failed"): {"steps.failed", "steps.retried"},
    ("event::Hook", "Failed"): {"failed_hooks"},
    ("event::Feature", "Started"): {"features"},
    ("event::Rule", "Started"): {"rules"},
    ("std::result::Result", "Err"): {"parsing_errors"},
}


def r1(F, R):
    WD.check_counter_table(F, R, SUM, TABLE, COUNTERS)
    WD.check_mandatory(F, R, SUM, MANDATORY)
    R.floor(36)


def r2(F, R):
    root, bodies, ws = summarize_writes(F)
    for w in WD.table(F, SUM).writes:
        if w.name not in COUNTERS:
            continue
        st = w.ctx.get("writer::summarize::State")
        ladt, lvar = leaf(w.ctx)
        R.check(st == frozenset(["InProgress"]), f"window/{w.name}{w.op}@{ladt}::{lvar}",
                w.site, "counts only while InProgress", f"`{w.name}` is written while state ∈ {sorted(st) if st else 'any'} (replayed events would be counted)")
    # the state machine, the forwarding and the summary: on the handler's deep path table (writers_deep.py)
    T = WD.table(F, SUM)
    co = T.co
    n_fin = n_out = 0
    for r in T.rows:
        p = r.p
        st_in = r.ctx.get("writer::summarize::State")
        inner = [i for i, e in enumerate(p.effects) if e[0] == "await" and e[1][0] == "call" and re.search(r"Writer::handle_event$", e[1][1])]
        summ = [i for i, e in enumerate(p.effects) if e[0] == "await" and e[1][0] == "call" and re.search(r"Arbitrary::write$", e[1][1])]
        sw = [(i, e[2][2]) for i, e in enumerate(p.effects) if e[0] == "write" and T.self_path(e[1]) == ("state",) and D.is_variant(e[2], "writer::summarize::State")]
        R.check(len(inner) == 1 and not p.cut, "inner-once/every-path", co, "every path forwards the event exactly once",
                f"a path through Summarize::handle_event forwards the event {len(inner)} times to the inner writer")
        if inner:
            ev = p.effects[inner[0]][1][2][1]
            R.check(ev == T.event_root or D.mentions(ev, lambda x: x == T.event_root), "inner-once/same-event", co, "forwards the received event", "the forwarded event is not the received one")
        fbno = [x for x in sw if x[1] == "FinishedButNotOutput"]
        fao = [x for x in sw if x[1] == "FinishedAndOutput"]
        other = [x for x in sw if x[1] not in ("FinishedButNotOutput", "FinishedAndOutput")]
        is_finished_ev = r.ctx.get("event::Cucumber") == frozenset(["Finished"]) and st_in == frozenset(["InProgress"])
        R.check(bool(fbno) == is_finished_ev and not other, "finished-advances-state", co, "Cucumber::Finished: InProgress -> FinishedButNotOutput",
                "the state is not advanced to FinishedButNotOutput exactly on Cucumber::Finished (while InProgress)")
        n_fin += 1 if fbno else 0
        pending = bool(fbno) or st_in == frozenset(["FinishedButNotOutput"])
        R.check(bool(fao) == pending and (not fao or not fbno or fbno[0][0] < fao[0][0]), "output-advances-state", co, "FinishedButNotOutput -> FinishedAndOutput",
                "the state is not advanced to FinishedAndOutput exactly when it is FinishedButNotOutput")
        R.check(bool(summ) == pending and len(summ) <= 1, "summary-once/state", co, "summary written only in FinishedButNotOutput",
                f"the summary is written {len(summ)} times on a path whose state is {'pending output' if pending else 'not pending output'}")
        if summ:
            n_out += 1
            R.check(bool(inner) and inner[0] < summ[0], "summary-once/after-inner", co, "summary follows the forwarding of Finished", "the summary is written before the event is forwarded to the inner writer")
            R.check(bool(fao) and fao[0][0] < summ[0], "summary-once/after-state-advance", co, "state advanced before writing",
                    "the summary write is not preceded by the transition to FinishedAndOutput (it could be written twice)")
    R.check(n_fin >= 1 and n_out >= 1, "summary-once/sites", co, "", f"{n_fin} paths advance the state on Finished, {n_out} write the summary")
    R.floor(20)


def r3(F, R):
    n = 0
    for w in WD.table(F, SUM).writes:
        if w.name != "scenarios.failed" or w.op != "+1":
            continue
        ctx = w.ctx
        ladt, lvar = leaf(ctx)
        ind = ctx.get("writer::summarize::Indicator")
        inst = f"Summarize/scenarios.failed/{ladt}::{lvar}@{'+'.join(sorted(ind)) if ind else 'None'}"
        rg = w.rg
        n += 1
        if rg is None:
            R.violation(inst, w.site, f"a scenario is classified `failed` on a {ladt}::{lvar} event without testing whether a retry is "
                        "left: a scenario whose last attempt passes is still counted failed")
        else:
            R.check(rg[0] == "final" and rg[1], inst, w.site, "failed only when no retry is left",
                    f"scenarios.failed is incremented on the {rg[0]} edge")
    R.floor(3)


def r4(F, R):
    """scenarios.retried is incremented only on a path where marking the scenario (HashMap::insert) found it unmarked."""
    n = 0
    for w in WD.table(F, SUM).writes:
        if w.name != "scenarios.retried":
            continue
        n += 1
        p = w.row.p
        ok = False
        for (a, o), pos in zip(p.conds, p.cond_pos):
            if pos <= w.idx and a[0] == "discr" and o == "None" and a[1][0] == "call" and re.search(r"HashMap(::<.*>)?::insert$", a[1][1]):
                ok = True
        R.check(ok, "retried-once", w.site, "scenarios.retried += 1 only if the insert returned None",
                "scenarios.retried can be incremented for a scenario that is already marked (counted more than once)")
    R.floor(1)


def r5(F, R):
    """The per-scenario marker is cleared when the scenario's LAST step passed: the "is this the last step" test must
    identify the step itself (whole-Step equality or its position), not just some attribute that other steps may share.
    Decided on the handler's path table: a HashMap::remove effect under Step::Passed needs the conditions
    `scenario.steps.last()` is Some and `last == step` (PartialEq of gherkin::Step, or equal positions)."""
    T = WD.table(F, SUM)
    n = 0
    sites = set()
    for r in T.rows:
        if r.ctx.get("event::Step") != frozenset(["Passed"]):
            continue
        p = r.p
        for idx, e in enumerate(p.effects):
            if not (e[0] == "call" and re.search(r"HashMap(::<.*>)?::remove$", e[1])):
                continue
            sites.add(e[3])
            ok, why = False, "the marker removal in the Step::Passed arm is not guarded by a last-step test"
            last_t = None
            for (a, o), pos in zip(p.conds, p.cond_pos):
                if pos > idx:
                    continue
                if a[0] == "discr" and o == "Some" and D.mentions(a[1], lambda x: x[0] == "call" and re.search(r"::last$", x[1])):
                    last_t = a[1]
                if a[0] == "call" and o is True and re.search(r"::eq$", a[1]):
                    f = T.deep.call_info.get(a[3], {})
                    selfty = f.get("self", "")
                    if re.fullmatch(r"&*gherkin::Step", selfty):
                        ok = last_t is not None
                        if not ok:
                            why = "the tested element is not `scenario.steps.last()`"
                    elif re.fullmatch(r"std::option::Option<&*gherkin::Step>", selfty):
                        # `scenario.steps.last() == Some(step)`: whole-Step equality under the Option
                        ok = any(D.mentions(x, lambda y: y[0] == "call" and re.search(r"::last$", y[1])) for x in a[2])
                        if not ok:
                            why = "the tested element is not `scenario.steps.last()`"
                    else:
                        why = f"the last-step test compares `{selfty}` values, which different steps of a scenario may share"
                if a[0] == "bin" and a[1] == "Eq" and o is True:
                    names = _field_names(T, a)
                    if "position" in names and last_t is not None:
                        ok = True
                    elif last_t is not None:
                        why = f"the last-step test compares {sorted(names)} only"
            R.check(ok, "marker-cleared-on-last-step-only", T.site_of(e[3]), "remove(..) iff steps.last() == this step (whole-Step equality)", why +
                    ": an earlier step can clear the scenario's retried/failed marker, so the scenario is counted again")
    n = len(sites)
    R.check(n == 1, "marker-removal-site", T.root, "", f"{n} marker removals in the Step::Passed arm")
    R.floor(2)


def _field_names(T, atom):
    """Names of gherkin::Step fields read in a comparison atom (by index in the ADT)."""
    a = T.F.adts.get(("gherkin", "gherkin::Step")) or T.F.adts.get(("cucumber", "gherkin::Step"))
    out = set()
    for x in D.subterms(atom):
        if x[0] == "field" and isinstance(x[2], int) and a:
            fs = a["variants"][0]["fields"]
            if x[2] < len(fs):
                out.add(fs[x[2]]["name"])
    return out


def r6(F, R):
    """The counters read through `writer::Stats` of a wrapped / combined writer are the summary's own, getter for getter
    (Tee = max, Or = sum, wrappers delegate) — C01.R4's algebra; a getter wired to another counter reports numbers the stream
    does not contain."""
    from . import c01
    c01.r4(F, R)


def r7(F, R):
    """Each scenario is counted in exactly ONE of passed / skipped / failed: whenever an attempt is classified as failed, skipped or
    retried (`scenarios.<k> += 1`), the per-scenario marker must be present when the handler returns — inserted on that path, or
    learned to be there already (`get(..)` / `insert(..)` returned `Some`) and not removed afterwards — because `Scenario::Finished`
    counts a scenario as passed exactly when it finds no marker; and `passed` is incremented only where the marker is learned absent."""
    T = WD.table(F, SUM)
    info = F.adt(SUM)
    marker = [i for i, f in enumerate(info["variants"][0]["fields"]) if "HashMap<" in f.get("ty", "") and "Indicator" in f.get("ty", "")]
    if len(marker) != 1:
        raise Unverifiable(f"Summarize's per-scenario marker map: {len(marker)} candidate fields")
    mi = marker[0]

    def on_marker(args):
        return bool(args) and D.mentions(args[0], lambda x: x[0] == "field" and x[2] == mi and D.mentions(x[1], lambda y: y == T.self_root))
    n = 0
    for r in T.rows:
        cls = [w for w in r.writes if w.path[0] == "scenarios" and w.path[-1] in ("failed", "skipped", "retried", "passed") and w.op == "+1"]
        if not cls:
            continue
        p = r.p
        ops = [(i, re.search(r"::(insert|remove|get|get_mut|contains_key|entry)$", e[1]).group(1), e) for i, e in enumerate(p.effects)
               if e[0] == "call" and re.search(r"HashMap(::<.*>)?::(insert|remove|get|get_mut|contains_key|entry)$", e[1]) and on_marker(e[2])]
        present = None     # None unknown, True, False: what the row knows about the marker at its end
        for i, op, e in ops:
            term = ("call", e[1], e[2], e[4])
            learned = [o for a, o in p.conds if a[0] == "discr" and a[1] == term]
            truth = [o for a, o in p.conds if a == term]
            if op == "insert":
                present = True
            elif op == "remove":
                present = False
            elif op in ("get", "get_mut") and learned:
                present = learned[0] == "Some"
            elif op == "contains_key" and truth:
                present = bool(truth[0])
            elif op == "entry":
                present = True
        # an existing marker is not overwritten by a different one: an `insert` used as a look-up (`match map.insert(k, Failed) { Some(Retried) => ..`)
        # has already replaced the marker the row then learns about
        for i, op, e in ops:
            if op != "insert" or len(e[2]) < 3:
                continue
            term = ("call", e[1], e[2], e[4])
            newv = e[2][2][2] if D.is_variant(e[2][2], "writer::summarize::Indicator") else None
            prev = [o for a, o in p.conds if a[0] == "discr" and a[1] == ("field", ("as", term, "Some"), 0)]
            if newv is not None and prev and not set(str(prev[0]).split("|")) <= {newv}:
                ctx = "/".join(f"{k.rsplit('::', 1)[-1]}={'|'.join(sorted(v))}" for k, v in sorted(r.ctx.items()) if k in ("event::Scenario", "event::Step", "event::Hook"))
                R.violation(f"marker-not-overwritten/{ctx}", T.site_of(e[3]), f"the scenario's marker `{prev[0]}` is overwritten with `{newv}` ({ctx}): a scenario marked as retried loses that "
                            "mark, is counted as retried again by its next failing attempt (or as passed / failed twice)")
        removed_none = any(op == "remove" and [o for a, o in p.conds if a[0] == "discr" and a[1] == ("call", e[1], e[2], e[4])] == ["None"] for i, op, e in ops)
        absent_learned = any(op in ("get", "get_mut") and [o for a, o in p.conds if a[0] == "discr" and a[1] == ("call", e[1], e[2], e[4])] == ["None"] for i, op, e in ops)
        for w in cls:
            n += 1
            ctx = "/".join(f"{k.rsplit('::', 1)[-1]}={'|'.join(sorted(v))}" for k, v in sorted(r.ctx.items()) if k in ("event::Scenario", "event::Step", "event::Hook"))
            if w.path[-1] == "passed":
                R.check(removed_none or (absent_learned and present is not True), f"passed-only-if-unmarked/{ctx}", w.site, "passed += 1 only where no marker was found",
                        f"`scenarios.passed` is incremented ({ctx}) on a path that did not learn the scenario's marker to be absent: a scenario already counted as failed / skipped is counted as passed too")
            else:
                R.check(present is True, f"classified-stays-marked/{w.path[-1]}/{ctx}", w.site, f"scenarios.{w.path[-1]} += 1 leaves the marker in place",
                        f"`scenarios.{w.path[-1]}` is incremented ({ctx}) but the scenario's marker is not in place when the handler returns "
                        f"({'learned absent / removed, and not inserted' if present is False else 'never inserted nor found'}): Scenario::Finished will count the same scenario as passed as well")
    R.floor(4)


def r8_init(F, R):
    """The counters equal the stream only if they start from nothing: a fresh `Summarize` has every counter at 0 and is `InProgress` (counting)."""
    fr = [b for b in F.crate_bodies() if (b.impl or {}).get("trait") == "std::convert::From" and (b.impl or {}).get("self_adt") == SUM and b.name.endswith("::from")]
    if len(fr) != 1:
        raise Unverifiable(f"From<Writer> for Summarize: {len(fr)}")
    roles.check_initial_state(F, R, fr[0], SUM, {"features": 0, "rules": 0, "parsing_errors": 0, "failed_hooks": 0, "scenarios": "zeros", "steps": "zeros", "state": "InProgress"}, "summary-starts-empty")
    R.floor(1)

RULES = [("R5", r5, None), ("R1", r1, None), ("R2", r2, None), ("R3", r3, None), ("R4", r4, None), ("R6", r6, None), ("R7", r7, None), ("R8", r8_init, None)]
