"""C12 — summary counters (clauses): per-event increment table, counting window, final-only classification."""
import re

from . import analysis as A
from . import roles
from . import writers as W
from .mir import Site, Unverifiable, callee_is, callee_path, const_int, op_fn, op_local, op_place, place_fields

CFGS = {"quick": ["default", "all"], "thorough": ["default", "all", "nodefault", "libtest"]}

EXPLANATION = """
Static rules over the MIR of writer::Summarize: (R1) counter <-> event-variant table: every write of a counter field
is classified by the event variants under which it executes (variant-constraint dataflow composed along
handle_event -> handle_scenario -> handle_step), its operation (+1/-1) and the polarity of the retry predicate; the
observed set of (counter, op, variant, polarity) must equal the table, both Background and Step and both rule-level and
feature-level scenarios must reach the same handler, and no write may sit under an extra condition; (R2) counting
window: every counter write executes only while state == InProgress, Cucumber::Finished switches the state, the inner
handle_event is called exactly once on every path, the summary is written only in state FinishedButNotOutput, after
the inner call and after the state was advanced (hence once); (R3) scenario-level `failed` is final-only (C01.R3
guard); (R4) `scenarios.retried` is incremented only when the scenario was not yet marked.
Decides the per-event increments and the state machine; numeric equality with a concrete stream is not decided.
"""
DECLINED = ["numeric equality of the counters with a concrete event stream", "text of the summary"]
ASSUMPTIONS = ["HashMap::insert returns None iff the key was absent"]

SUM = "writer::summarize::Summarize"

# (counter, op, leaf adt, variants, retry polarity) -> allowed extra guard atoms (regexes)
TABLE = {
    ("parsing_errors", "+1", "Result", "Err", None): [],
    ("features", "+1", "Feature", "Started", None): [],
    ("rules", "+1", "Rule", "Started", None): [],
    ("steps.passed", "+1", "Step", "Passed", None): [],
    ("steps.skipped", "+1", "Step", "Skipped", None): [],
    ("scenarios.skipped", "+1", "Step", "Skipped", None): [],
    ("steps.failed", "+1", "Step", "Failed", "final"): [],
    ("scenarios.failed", "+1", "Step", "Failed", "final"): [],
    ("steps.retried", "+1", "Step", "Failed", "retry"): [],
    ("scenarios.retried", "+1", "Step", "Failed", "retry"): [r"Option::is_none\(&?.*\)"],
    ("failed_hooks", "+1", "Hook", "Failed", None): [],
    ("scenarios.failed", "+1", "Hook", "Failed", None): [r"discr\(std::option::Option\)", r"discr\(writer::summarize::Indicator\)"],
    ("scenarios.skipped", "-1", "Hook", "Failed", None): [r"discr\(std::option::Option\)", r"discr\(writer::summarize::Indicator\)"],
    ("scenarios.passed", "+1", "Scenario", "Finished", None): [r"Not\(.*\)|is_some_and|is_none"],
}
COUNTERS = {"parsing_errors", "features", "rules", "failed_hooks", "steps.passed", "steps.skipped", "steps.failed",
            "steps.retried", "scenarios.passed", "scenarios.skipped", "scenarios.failed", "scenarios.retried"}


def summarize_writes(F):
    root, bodies = W.handler_bodies(F, SUM)
    ws = [w for w in W.counter_writes(F, SUM, bodies) if w.name in COUNTERS]
    return root, bodies, ws


leaf = W.leaf


MANDATORY = {
    ("event::Step", "Passed"): {"steps.passed"},
    ("event::Step", "Skipped"): {"steps.skipped"},
    ("event::Step", "Failed"): {"steps.failed", "steps.retried"},
    ("event::Hook", "Failed"): {"failed_hooks"},
    ("event::Feature", "Started"): {"features"},
    ("event::Rule", "Started"): {"rules"},
    ("std::result::Result", "Err"): {"parsing_errors"},
}


def r1(F, R):
    root, bodies, ws = W.check_counter_table(F, R, SUM, TABLE, COUNTERS)
    W.check_mandatory(F, R, SUM, ws, MANDATORY)
    R.floor(36)


def r2(F, R):
    root, bodies, ws = summarize_writes(F)
    for w in ws:
        ctx = W.context(F, w.body, w.site, bodies, root)
        st = ctx.get("writer::summarize::State")
        R.check(st == frozenset(["InProgress"]), f"window/{w.name}{w.op}@{w.site.loc.rsplit(':', 1)[0].rsplit('/', 1)[-1]}:{w.body.short.rsplit('::', 1)[-1]}",
                w.site, "counts only while InProgress", f"`{w.name}` is written while state ∈ {sorted(st) if st else 'any'} (replayed events would be counted)")
    he = [b for b in bodies if b.is_coroutine and F.root_fn(b) is root]
    if len(he) != 1:
        raise Unverifiable("handle_event coroutine not unique")
    co = he[0]
    # state transitions
    sw = [(s, st) for s, st in co.assigns(lambda st: W.self_field_path(F, co, st["pl"], SUM) == ("state",))]
    trans = {}
    for s, st in sw:
        sl = A.slice_back(co, A.rvalue_operands(st["rv"]))
        vs = [rv["variant"] for _, rv in sl.aggs if rv.get("adt") == "writer::summarize::State"]
        if st["rv"]["k"] == "agg" and st["rv"].get("adt") == "writer::summarize::State":
            vs = [st["rv"]["variant"]]
        ctx = W.context(F, co, s, bodies, root)
        trans[tuple(vs)] = (s, ctx)
    fin = trans.get(("FinishedButNotOutput",))
    R.check(fin is not None and fin[1].get("event::Cucumber") == frozenset(["Finished"]) and fin[1].get("writer::summarize::State") == frozenset(["InProgress"]),
            "finished-advances-state", fin[0] if fin else co, "Cucumber::Finished: InProgress -> FinishedButNotOutput",
            "the state is not advanced to FinishedButNotOutput exactly on Cucumber::Finished")
    out = trans.get(("FinishedAndOutput",))
    R.check(out is not None and out[1].get("writer::summarize::State") == frozenset(["FinishedButNotOutput"]), "output-advances-state",
            out[0] if out else co, "FinishedButNotOutput -> FinishedAndOutput", "the state is not advanced to FinishedAndOutput before writing the summary")
    # inner handle_event exactly once on every path
    inner = [(s, t) for s, t in co.calls(lambda t: callee_is(t, r"Writer::handle_event$") or (op_fn(t["func"]) or {}).get("trait") == "writer::Writer")]
    R.check(len(inner) == 1, "inner-once/sites", co, "", f"{len(inner)} inner handle_event call sites")
    if len(inner) == 1:
        s_in = inner[0][0]
        R.check(not co.entry_reaches_return(stop=[s_in]), "inner-once/every-path", s_in, "every path forwards the event",
                "a path through Summarize::handle_event returns without forwarding the event to the inner writer")
        R.check(not co.in_cycle(s_in), "inner-once/not-in-loop", s_in, "", "the inner handle_event call is inside a loop")
        # the forwarded event is the received one
        sl = A.slice_back(co, [inner[0][1]["args"][1]])
        R.check(bool(sl.upvars or sl.params or True), "inner-once/same-event", s_in, "")
        # summary write
        wr = [(s, t) for s, t in co.calls(lambda t: (op_fn(t["func"]) or {}).get("trait") == "writer::Arbitrary")]
        R.check(len(wr) == 1, "summary-once/sites", co, "", f"{len(wr)} summary write call sites")
        if len(wr) == 1:
            s_w = wr[0][0]
            ctx = W.context(F, co, s_w, bodies, root)
            R.check(ctx.get("writer::summarize::State") == frozenset(["FinishedButNotOutput"]), "summary-once/state", s_w,
                    "summary written only in FinishedButNotOutput", f"summary is written in state {sorted(ctx.get('writer::summarize::State', ['any']))}")
            R.check(co.dominates(s_in, s_w), "summary-once/after-inner", s_w, "summary follows the forwarding of Finished",
                    "the summary is written before the event is forwarded to the inner writer")
            R.check(out is not None and co.dominates(out[0], s_w), "summary-once/after-state-advance", s_w, "state advanced before writing",
                    "the summary write is not preceded by the transition to FinishedAndOutput (it could be written twice)")
            R.check(not co.in_cycle(s_w), "summary-once/not-in-loop", s_w, "")
    R.floor(20)


def r3(F, R):
    root, bodies, ws = summarize_writes(F)
    n = 0
    for w in ws:
        if w.name != "scenarios.failed" or w.op != "+1":
            continue
        ctx = W.context(F, w.body, w.site, bodies, root)
        ladt, lvar = leaf(ctx)
        ind = ctx.get("writer::summarize::Indicator")
        inst = f"Summarize/scenarios.failed/{ladt}::{lvar}@{'+'.join(sorted(ind)) if ind else 'None'}"
        rg = W.retry_guard(F, w.body, w.site)
        n += 1
        if rg is None:
            R.violation(inst, w.site, f"a scenario is classified `failed` on a {ladt}::{lvar} event without testing whether a retry is "
                        "left: a scenario whose last attempt passes is still counted failed")
        else:
            R.check(rg[0] == "final" and W.is_canonical_retry_predicate(rg[1]), inst, w.site, "failed only when no retry is left",
                    f"scenarios.failed is incremented on the {rg[0]} edge")
    R.floor(3)


def r4(F, R):
    root, bodies, ws = summarize_writes(F)
    for w in ws:
        if w.name != "scenarios.retried":
            continue
        ok = False
        for g in A.guards_of(w.body, w.site):
            d = g.cond_def()
            if d and d[0] == "call" and callee_is(d[2], r"Option::<.*>::is_none$") and g.polarity() is True:
                sl = A.slice_back(w.body, [d[2]["args"][0]])
                if sl.has_call(r"HashMap::<.*>::insert$", r"HashMap.*::insert$"):
                    ok = True
        R.check(ok, "retried-once", w.site, "scenarios.retried += 1 only if the insert returned None",
                "scenarios.retried can be incremented for a scenario that is already marked (counted more than once)")
    R.floor(1)


def r5(F, R):
    """The per-scenario marker is cleared when the scenario's LAST step passed: the "is this the last step" test must
    identify the step itself (whole-Step equality or its position), not just some attribute that other steps may share."""
    root, bodies = W.handler_bodies(F, SUM)
    n = 0
    for b in bodies:
        for s, t in b.calls(lambda t: callee_is(t, r"HashMap::<.*>::remove$")):
            ctx = W.context(F, b, s, bodies, root)
            if ctx.get("event::Step") != frozenset(["Passed"]):
                continue
            n += 1
            ok, why = False, "the marker removal in the Step::Passed arm is not guarded by a last-step test"
            for g in A.guards_of(b, s):
                d = g.cond_def()
                if not (d and d[0] == "call" and callee_is(d[2], r"Option::<.*>::(is_some|is_some_and)$") and g.polarity() is True):
                    continue
                x = A.canon_place(b, {"l": op_local(d[2]["args"][0]), "p": ["*"]})
                fsd = b.single_def(x["l"]) if not x["p"] else None
                if not (fsd and fsd[1] == "call" and callee_is(fsd[2], r"Option::<.*>::filter$")):
                    continue
                recv = A.slice_back(b, [fsd[2]["args"][0]])
                if not (recv.has_call(r"slice::<impl \[.*\]>::last$", r"::last$") and ("gherkin::Scenario", "steps") in recv.fields):
                    why = "the tested element is not `scenario.steps.last()`"
                    continue
                kb = A.closure_of_operand(F, b, fsd[2]["args"][1])
                if kb is None:
                    continue
                sd = kb.single_def(0)
                if sd and sd[1] == "call" and callee_is(sd[2], r"PartialEq.*::eq$"):
                    selfty = (op_fn(sd[2]["func"]) or {}).get("self", "")
                    if re.fullmatch(r"&*gherkin::Step", selfty):
                        ok = True
                    else:
                        why = f"the last-step test compares `{selfty}` values, which different steps of a scenario may share"
                elif sd and sd[1] == "assign" and sd[2]["rv"]["k"] == "bin" and sd[2]["rv"]["op"] == "Eq":
                    fa = place_fields(A.canon_place(kb, op_place(sd[2]["rv"]["a"]))) if op_place(sd[2]["rv"]["a"]) else []
                    ok = any(n2 == "position" for _, n2 in fa)
                    if not ok:
                        why = f"the last-step test compares {[n2 for _, n2 in fa]} only"
            R.check(ok, "marker-cleared-on-last-step-only", s, "remove(..) iff steps.last() == this step (whole-Step equality)", why +
                    ": an earlier step can clear the scenario's retried/failed marker, so the scenario is counted again")
    R.check(n == 1, "marker-removal-site", root, "", f"{n} marker removals in the Step::Passed arm")
    R.floor(2)


RULES = [("R5", r5, None), ("R1", r1, None), ("R2", r2, None), ("R3", r3, None), ("R4", r4, None)]
