"""C08 — fail-fast stops dispatching after the first final failure, yet closes cleanly (DESIGN §4 C08)."""
import re

from . import analysis as A
from . import roles
from . import c05
from .c04 import role_get, role_is_finished, _reaches_block
from .c06 import slot_local, slot_writes
from .mir import Site, Unverifiable, callee_is, callee_path, const_int, op_fn, op_local, op_place, place_fields, place_str

CFGS = {"quick": ["default", "all"], "thorough": ["default", "all", "nodefault", "tracing"]}

EXPLANATION = """
Static rules over the MIR of the fail-fast path: (R1) trip condition: the only Break of the slot state is guarded by
exactly three conditions — the fail_fast flag (true), component 3 of the completion message (failed: true) and
component 4 (retried: false) — and the producer fills component 3 with the attempt's is_failed and component 4 with
next_try.is_some(); component 4 is also what the bracket bookkeeping receives as `is_retried`; (R2) fail_fast =
cli.fail_fast || builder flag, and the same value reaches both ingestion and execution; (R3) after the trip GET is
called with Some(0) (empty batch, queues untouched — C06.R3), the finished test receives is_break() and then ignores
queued entries, and the loop is left only when the in-flight set is empty; (R4) leftover brackets are closed before
run-Finished; (R5) ingestion stops at the first parser error when fail-fast is on.
Not decided: equivalence with a normal run when nothing fails (a relation between two runs).
Added after the second seeded round: (R4, extended) the closing sweep closes leftover rules before leftover features; (R6) the verdict that trips fail-fast classifies failed before hooks, steps and after hooks as failed (= C05.R2).
"""
DECLINED = ["same per-scenario outcomes as a non-fail-fast run when nothing fails (behavioural equivalence of two runs)"]
ASSUMPTIONS = []


def bool_param_upvar(F, co):
    """Index of the unique `bool` parameter of an async fn (= upvar index in its coroutine)."""
    fn = F.parent_body(co)
    idx = [i for i, ty in enumerate(fn.locals[1:fn.arg_count + 1]) if ty == "bool"]
    if len(idx) != 1:
        raise Unverifiable(f"{fn.short}: {len(idx)} bool parameters")
    return idx[0]


def _has_bool_param(F, co):
    fn = F.parent_body(co)
    return len([1 for ty in fn.locals[1:fn.arg_count + 1] if ty == "bool"]) == 1


def guard_source(F, body, g):
    """Classify a bool guard: ('upvar', idx) | ('tuple', idx) | ('other', desc)"""
    l = g.discr_local
    if l is None:
        return ("other", "?")
    cp = A.canon_place(body, {"l": l, "p": []})
    if cp["l"] == 1 and cp["p"] and isinstance(cp["p"][0], dict) and cp["p"][0].get("o", "").startswith("{upvar}"):
        return ("upvar", cp["p"][0]["f"])
    fs = place_fields(cp)
    if fs and fs[-1][0] == "{tuple}":
        return ("tuple", int(fs[-1][1]), cp)
    return ("other", A.describe_operand(body, g.term["discr"]))


def r1(F, R):
    """Trip condition, on the one-turn table of the completion receive loop (completions.py) — the loop may live in
    EXECUTE or in a private helper EXECUTE calls."""
    from . import completions as CP
    ex = roles.execute(F)
    S = slot_local(ex)
    brk = [(s, st) for s, k, st in slot_writes(ex, S) if k == "break"]
    R.check(len(brk) == 1, "single-trip-site", ex, "", f"{len(brk)} Break writes")
    if len(brk) != 1:
        return
    s_b = brk[0][0]
    C = CP.table(F)
    want = {"ff": True, "m3": True, "m4": False}
    bad = None
    places = set()
    for r in C.msg_rows:
        at = C.atoms(r)
        full = all(at.get(k) is v for k, v in want.items())
        neg = any(k in at and at[k] is not v for k, v in want.items())
        places |= {e[1] for _, e in r["trip"]}
        if full and not neg:
            if not r["trip"]:
                bad = bad or "a final failure under fail-fast does not trip it on some path (an extra condition)"
        elif neg:
            if r["trip"]:
                bad = bad or f"fail-fast trips although {sorted((k, v) for k, v in at.items() if want[k] is not v)}"
        else:
            bad = bad or f"a path decides without examining fail_fast / failed / retried of the message (knows only {at})"
    if bad is None and len(places) != 1:
        bad = f"{len(places)} trip variables"
    linked = True
    if bad is None:
        pl = next(iter(places))
        if C.in_execute:
            linked = pl == ("L", 0, S)
            if not linked:
                bad = "the Break is not written to the slot counter"
        else:
            # helper form: the flag is a bool local, false before the loop, returned; EXECUTE breaks iff the helper says so
            hb = C.body
            n = pl[2] if pl[0] == "L" else None
            defs = hb.defs.get(n, []) if n is not None else []
            vals = [const_int(p_["rv"]["op"]) if k_ == "assign" and p_["rv"]["k"] == "use" else None for s_, k_, p_ in defs]
            loop = A.natural_loop(hb, C.site.bb)
            init_outside = [s_ for (s_, k_, p_), v in zip(defs, vals) if v == 0 and s_.bb not in loop]
            rets = [(s_, p_) for s_, k_, p_ in hb.defs.get(0, []) if k_ == "assign"]
            ret_is_flag = len(rets) == 1 and rets[0][1]["rv"]["k"] == "use" and op_local(rets[0][1]["rv"]["op"]) is not None and \
                A.canon_place(hb, {"l": op_local(rets[0][1]["rv"]["op"]), "p": []})["l"] == n
            gs = [g for g in A.guards_of(ex, s_b) if not ((g.cond_def() or [None])[0] == "discr")]
            from_helper = bool(gs) and all(g.polarity() is True and g.discr_local is not None and
                                           C.ex_site in A.slice_back(ex, start_locals=[g.discr_local], stop_calls=[r"Future::poll$"]).sites for g in gs)
            linked = n is not None and None not in vals and set(vals) == {0, 1} and len(init_outside) == 1 and ret_is_flag and from_helper
            if not linked:
                bad = "the helper's flag is not (false before the loop, set only by the trip, returned) or EXECUTE does not break exactly when it is true"
    R.check(bad is None, "trip-condition", s_b, "Break ⇐ fail_fast ∧ failed ∧ ¬retried",
            f"fail-fast trip condition: {bad}; expected exactly fail_fast ∧ message.3 ∧ ¬message.4 (a retried failure must not trip it, a final one must)")
    # after an in-flight completion was awaited, the drain loop is entered before the next scheduling round
    infl = [aw for aw in A.awaits(ex) if re.search(r"FuturesUnordered<", aw.fut_type)]
    aw_get0, get0 = role_get(F)
    okx = len(infl) == 1
    if okx:
        ready = Site(ex, infl[0].ready_bb, 0)
        okx = ex.site_reaches(ready, C.ex_site) and not ex.site_reaches(ready, aw_get0.poll_site, stop=[C.ex_site])
    R.check(okx, "completions-are-examined", C.ex_site, "every completion is followed by the message drain loop",
            "after a completion the scheduler can start the next round without examining the completion messages (fail-fast would not trip)")
    R.ok("trip-on-completion-message", s_b, "conditions read the message received by try_next (table construction)")
    # producer side
    rs = roles.run_scenario(F)
    s_no, t_no, no_fn, s_send, t_send = c05.notify_call(F, rs)
    tup = op_local(t_send["args"][1])
    sd = no_fn.single_def(tup) if tup is not None else None
    ok_p = False
    if sd and sd[1] == "assign" and sd[2]["rv"]["k"] == "agg" and sd[2]["rv"].get("agg") == "tuple" and len(sd[2]["rv"]["ops"]) == 5:
        ops = sd[2]["rv"]["ops"]
        p3 = A.slice_back(no_fn, [ops[3]]).params
        p4 = A.slice_back(no_fn, [ops[4]]).params
        if len(p3) == 1 and len(p4) == 1:
            a3 = t_no["args"][list(p3)[0] - 1]
            a4 = t_no["args"][list(p4)[0] - 1]
            s3 = A.slice_back(rs, [a3])
            s4 = A.slice_back(rs, [a4])
            is_failed_aw = [aw for aw in A.awaits(rs) if re.search(r"YieldThenReturn<bool>", aw.fut_type)]
            ok3 = any(aw.poll_site in s3.sites for aw in is_failed_aw) and not s3.has_call(r"Option::<.*>::is_some$")
            ok4 = s4.has_call(r"Option::<.*>::is_some$") and not any(aw.poll_site in s4.sites and False for aw in is_failed_aw)
            R.check(ok3, "producer/failed-is-is_failed", s_no, "message.3 = is_failed", "component 3 of the completion message is not the attempt's is_failed")
            R.check(ok4, "producer/retried-is-next-try", s_no, "message.4 = next_try.is_some()", "component 4 of the completion message is not next_try.is_some()")
            ok_p = True
    if not ok_p:
        R.violation("producer/message-shape", s_send, "completion message is not a 5-tuple built from the notification's parameters")
    # bracket bookkeeping receives component 4
    kinds = {}
    for r in C.msg_rows:
        for i, cb, e in r["bk"]:
            bidx = [j for j, ty in enumerate(cb.locals[1:cb.arg_count + 1]) if ty == "bool"]
            nm = cb.short.rsplit("::", 1)[-1]
            ok = len(bidx) == 1 and bidx[0] < len(e[2]) and CP._strip(e[2][bidx[0]]) == C.component(r, 4)
            kinds[nm] = kinds.get(nm, True) and ok
    for nm, ok in sorted(kinds.items()):
        R.check(ok, f"brackets-get-retried/{nm}", C.body, "is_retried = message.4", f"{nm} does not receive component 4 of the completion message as is_retried")
    R.check(len(kinds) == 2, "brackets-get-retried/sites", C.body, "", f"{len(kinds)} bracket bookkeeping calls with a bool argument")
    R.floor(8)


def merged_flag(F):
    """fail_fast as handed to ingestion and execution, on the deep path table of `Runner::run` (roles.run_merge_table; the runner's own
    private helpers inlined, so a `Cli::or_configured(..) -> ResolvedOptions` in between does not matter).  Returns
    (run, same, inputs, disj, why): both routines get the same term on every row; the value depends on the CLI flag and on the builder
    flag; for every assignment of the two consistent with what a row learned the value is `cli || builder`."""
    run, paths, H = roles.run_merge_table(F)
    ie = bool_param_upvar(F, roles.execute(F))
    try:
        ii = bool_param_upvar(F, roles.insert_features(F))
    except Unverifiable:
        ii = None        # the ingestion routine takes no flag of its own (it then can only read the CLI's): reported by the callers
    cli_t, b_t = H["cli"]("fail_fast"), H["builder"]("fail_fast")

    def val(t, env):
        if t == ("const", True) or t == ("const", False) or (isinstance(t, tuple) and t[0] == "const" and t[1] in (0, 1)):
            return bool(t[1])
        if t == cli_t:
            return env["c"]
        if t == b_t:
            return env["b"]
        if isinstance(t, tuple) and t and t[0] == "bin" and t[1] in ("BitOr", "BitAnd"):
            x, y = val(t[2], env), val(t[3], env)
            return None if x is None or y is None else ((x or y) if t[1] == "BitOr" else (x and y))
        if isinstance(t, tuple) and t and t[0] == "un" and t[1] == "Not":
            x = val(t[2], env)
            return None if x is None else (not x)
        return None
    same, disj, why, covered, mention = True, True, "", set(), set()
    for p in paths:
        e1, e2 = H["execute"](p), H["ingest"](p)
        if e1 is None or e2 is None:
            raise Unverifiable("Runner::run: a path does not start ingestion and execution exactly once")
        v1 = e1[2][ie]
        v2 = e2[2][ii] if ii is not None else None
        same = same and v1 == v2
        learned = {}
        for a, o in p.conds:
            if a == cli_t and isinstance(o, bool):
                learned["c"] = o
            if a == b_t and isinstance(o, bool):
                learned["b"] = o
        for t in [v1] + [a for a, _ in p.conds]:
            if H["D"].mentions(t, lambda y: y == cli_t):
                mention.add("cli")
            if H["D"].mentions(t, lambda y: y == b_t):
                mention.add("builder")
        for c in (True, False):
            for b in (True, False):
                if learned.get("c", c) != c or learned.get("b", b) != b:
                    continue
                got = val(v1, {"c": c, "b": b})
                covered.add((c, b))
                if got is None:
                    disj, why = False, f"the flag handed on is {H['D'].fmt(run, v1)[:60]}"
                elif got != (c or b):
                    disj, why = False, f"with --fail-fast {'given' if c else 'absent'} and the builder flag {'set' if b else 'unset'} the runner gets {got}"
    if len(covered) != 4:
        disj, why = False, why or f"only the cases {sorted(covered)} are handled"
    return run, same, mention, disj, why


def r2(F, R):
    run, same, mention, disj, why = merged_flag(F)
    R.check(same, "same-flag-to-both", run, "ingestion and execution get the same fail_fast", "ingestion and execution receive different fail_fast values (the ingestion routine is not "
            "handed the merged flag: with fail-fast set one way only, one of the two does not stop)")
    R.check(mention == {"cli", "builder"}, "cli-or-builder/inputs", run, "reads cli.fail_fast and the builder flag", f"fail_fast depends on {sorted(mention)} only")
    R.check(disj, "cli-or-builder/disjunction", run, "cli.fail_fast || builder", f"fail_fast is not the disjunction of the CLI flag and the builder flag: {why}")
    R.floor(3)


def r3(F, R):
    ex = roles.execute(F)
    S = slot_local(ex)
    aw_get, get = role_get(F)
    get_fn = F.parent_body(get)
    calls = [(s, t) for s, t in ex.calls() if F.callee_body(t) is get_fn]
    s_get, t_get = calls[0]
    # GET arg = S.continue_value().unwrap_or(Some(0))
    from .c06 import slot_limit_cases
    cases = slot_limit_cases(F, ex, t_get["args"][1], S)
    ok = cases.get("Break") == ("ub", 0) and cases.get("Continue") == "payload"
    R.check(ok, "zero-slots-after-trip", s_get, "GET(slots.continue_value().unwrap_or(Some(0)))", "after the trip GET is not called with Some(0)")
    # IS_FINISHED receives is_break(S)
    aw_fin, fin = role_is_finished(F)
    fin_fn = F.parent_body(fin)
    fcalls = [(s, t) for s, t in ex.calls() if F.callee_body(t) is fin_fn]
    s_f, t_f = fcalls[0]
    fsl = A.slice_back(ex, [t_f["args"][1]])
    R.check(fsl.has_call(r"ControlFlow::<.*>::is_break$") and S in fsl.locals, "finished-gets-is-break", s_f, "is_finished(slots.is_break())",
            "the finished test is not told whether fail-fast tripped")
    # IS_FINISHED: with the flag set the queues are ignored: the queue inspection is on the flag's false edge
    ff = bool_param_upvar(F, fin)
    locks = [(s, t) for s, t in fin.calls(lambda t: callee_is(t, r"Mutex::<.*>::lock$"))]
    okq = False
    for s, t in locks:
        for g in A.guards_of(fin, s):
            src = guard_source(F, fin, g)
            if src[0] == "upvar" and src[1] == ff and g.polarity() is False:
                okq = True
    R.check(okq, "tripped-ignores-queues", fin, "fail_fast || queues empty", "IS_FINISHED still requires empty queues after a fail-fast trip (the run would never end)")
    loads = [(s, t) for s, t in fin.calls(lambda t: callee_is(t, r"Atomic.*::load$"))]
    okl = bool(loads) and all(any(g for g in A.guards_of(fin, s2) if g.discr_local is not None and
                                  any(sl == loads[0][0] for sl, _ in A.slice_back(fin, start_locals=[g.discr_local]).calls) and g.polarity() is True)
                              for s2, _ in locks)
    R.check(okl, "finished-flag-first", fin, "finished && (…)", "IS_FINISHED can be true before the parser finished")
    from .c04 import check_finished_requires_flag
    check_finished_requires_flag(F, R, "tripped-still-waits-for-parser")
    check_exit_requires_empty_in_flight(F, R, "exit-only-when-nothing-in-flight")
    R.floor(5)


def check_exit_requires_empty_in_flight(F, R, inst):
    """The scheduling loop is left (run-Finished emitted, in-flight futures dropped) only when the in-flight set is empty."""
    ex = roles.execute(F)
    fin_ev = [(s, st) for s, st in ex.assigns(lambda st: st["rv"]["k"] == "agg" and st["rv"].get("adt") == "event::Cucumber" and st["rv"]["variant"] == "Finished")]
    ok_e = False
    if len(fin_ev) == 1:
        for g in A.guards_of(ex, fin_ev[0][0]):
            d = g.cond_def()
            if d and d[0] == "call" and callee_is(d[2], r"FuturesUnordered::<.*>::is_empty$") and g.polarity() is True:
                ok_e = True
    R.check(ok_e, inst, fin_ev[0][0] if fin_ev else ex, "run-Finished ⇐ in-flight set empty",
            "the loop can be left (run-Finished emitted) while attempts are still in flight: their futures are dropped, so a started attempt "
            "never gets its step result, after hook and Finished event")


def r4(F, R):
    ex = roles.execute(F)
    fin_ev = [(s, st) for s, st in ex.assigns(lambda st: st["rv"]["k"] == "agg" and st["rv"].get("adt") == "event::Cucumber" and st["rv"]["variant"] == "Finished")]
    if len(fin_ev) != 1:
        raise Unverifiable("Cucumber::Finished aggregate")
    drains = []
    for s, t in ex.calls():
        cb = F.callee_body(t)
        if cb is not None and sum(1 for _, t2 in cb.calls(lambda t2: callee_is(t2, r"HashMap::<.*>::drain$"))) == 2:
            drains.append((s, t, cb))
    R.check(len(drains) == 1, "leftover-drain/found", ex, "", f"{len(drains)} calls draining both bracket maps")
    if len(drains) == 1:
        s_d, t_d, cb = drains[0]
        R.check(ex.dominates(s_d, fin_ev[0][0]), "leftovers-closed-before-finished", s_d, "leftover brackets are closed before run-Finished",
                "run-Finished can be emitted without closing the leftover feature/rule brackets first")
        # its result is sent
        sends = [(s, t) for s, t in ex.calls() if F.callee_body(t) is not None and roles.reaches_send(F, F.callee_body(t))]
        sent = []
        for s, t in sends:
            al = op_local(t["args"][1]) if len(t["args"]) > 1 else None
            if al is None:
                continue
            cp = A.canon_place(ex, {"l": al, "p": []})
            sd = ex.single_def(cp["l"]) if not cp["p"] else None
            if sd and sd[0] == s_d:
                sent.append(s)
        R.check(len(sent) == 1 and ex.dominates(sent[0], fin_ev[0][0]), "leftovers-sent", s_d, "", "the leftover Finished events are not sent before run-Finished")
        # nesting of the leftovers: every open rule is closed before any open feature (a rule's bracket lies inside its feature's)
        def drained_kind(b, t2):
            sl = A.slice_back(b, [t2["args"][0]])
            tys = " ".join(e.get("t", "") for _, st in b.assigns() for pl in A.rvalue_places(st["rv"]) for e in pl["p"] if isinstance(e, dict) and "t" in e
                           and (e.get("o"), e.get("n")) in sl.fields)
            return "rule" if "gherkin::Rule" in tys else "feature"
        chains = [(s, t) for s, t in cb.calls(lambda t: callee_is(t, r"Iterator::chain$"))]
        order_ok = None
        if len(chains) == 1:
            t = chains[0][1]
            kinds = []
            for a in t["args"][:2]:
                sl = A.slice_back(cb, [a])
                ds = [drained_kind(cb, t2) for _, t2 in sl.calls if callee_is(t2, r"HashMap::<.*>::drain$")]
                kinds.append(ds)
            order_ok = kinds == [["rule"], ["feature"]]
            why = f"chain({kinds[0]}, {kinds[1]})"
        else:
            # sequential form: the rule map is drained (and its events pushed / extended) before the feature map
            ds = [(s, drained_kind(cb, t2)) for s, t2 in cb.calls(lambda t2: callee_is(t2, r"HashMap::<.*>::drain$"))]
            if len(ds) == 2 and not chains:
                (s1, k1), (s2, k2) = ds
                if cb.dominates(s2, s1):
                    (s1, k1), (s2, k2) = (s2, k2), (s1, k1)
                order_ok = (k1, k2) == ("rule", "feature") and cb.dominates(s1, s2)
                why = f"{k1} map drained first"
        if order_ok is None:
            R.unverifiable("leftovers-rules-before-features", "the closing sweep is neither rules.chain(features) nor two sequential drains", cb)
        else:
            R.check(order_ok, "leftovers-rules-before-features", cb, "rules.drain().chain(features.drain())",
                    f"the closing sweep closes features before the rules inside them ({why}): under fail-fast Rule::Finished arrives after its Feature::Finished")
    R.floor(4)


def r5(F, R):
    ing = roles.insert_features(F)
    ing_fn = F.parent_body(ing)
    nexts = [a for a in A.awaits(ing) if re.search(r"stream::Next<", a.fut_type)]
    if len(nexts) != 1:
        raise Unverifiable("stream next await in ingestion")
    nx = nexts[0]
    runs = [b for adt, b in roles.trait_impl_methods(F, r"runner::Runner$", "run") if adt == "runner::basic::Basic"]
    if len(runs) != 1:
        raise Unverifiable("Runner::run impl")
    run = runs[0]
    calls = [(s, t) for s, t in run.calls() if F.callee_body(t) is ing_fn]
    if len(calls) != 1:
        raise Unverifiable("call of insert_features")
    found = None
    for bb in sorted(ing.live_blocks):
        t = ing.blocks[bb]["term"]
        if t["k"] != "switch":
            continue
        vc = A.vc_at(ing, Site(ing, bb, "T"))
        if not any(v == frozenset(["Err"]) for v in vc.values()):
            continue
        l = op_local(t["discr"])
        if l is None or ing.locals[l] != "bool":
            continue
        true_t = t["otherwise"]
        if nx.poll_site.bb in ing.reachable_blocks(true_t):
            continue  # this edge does not leave the loop
        # sources of the condition
        ds = A.deep_slice(F, ing, start_locals=[l])
        fields = {(o, n) for o, n in ds.fields if n == "fail_fast"}
        for k, p in ds.root_params:
            if k == ing_fn.key and _has_bool_param(F, ing) and p - 1 == bool_param_upvar(F, ing):
                # the condition is the routine's bool parameter: what Runner::run hands in there is decided by R2's table
                _, same_, mention_, disj_, _ = merged_flag(F)
                if disj_:
                    fields |= {("runner::basic::Cli", "fail_fast"), ("runner::basic::Basic", "fail_fast")}
                else:
                    fields |= {("runner::basic::Cli" if m_ == "cli" else "runner::basic::Basic", "fail_fast") for m_ in mention_}
        if fields:
            found = (bb, fields)
    R.check(found is not None, "ingestion-stops-on-first-error", nx.poll_site, "Err ∧ fail_fast ⇒ leave the ingestion loop",
            "with fail-fast on, ingestion continues after a parser error (no fail_fast-dependent exit in the Err arm)")
    if found:
        want = {("runner::basic::Cli", "fail_fast"), ("runner::basic::Basic", "fail_fast")}
        R.check(found[1] >= want, "ingestion-stop-uses-merged-flag", Site(ing, found[0], "T"), "the exit uses cli.fail_fast || builder flag",
                f"ingestion's stop condition reads only {sorted(o for o, n in found[1])}: fail-fast given the other way does not stop ingestion")
    R.floor(2)


def r6(F, R):
    """What trips fail-fast is the attempt's verdict: message.3 = is_failed (R1) and is_failed classifies a failed before hook, a failed
    step and a failed after hook as failed (C05.R2's table) — a final failure the verdict does not see cannot stop the run."""
    from . import c05
    c05.r2(F, R)


def r7_setters(F, R):
    """`fail_fast()` stores `true` in the flag (runner) / forwards to it (Cucumber)."""
    roles.check_all_builder_setters(F, R, only=r"^fail_fast$", floor=2)


def r8_cli(F, R):
    """`--fail-fast` is declared and read into `Cli.fail_fast`."""
    roles.check_cli_surface(F, R, "runner::basic::Cli", only=r"^fail_fast$")
    R.floor(1)

def r9_init(F, R):
    """Fail-fast is off unless asked for: `Basic::default()` stores `fail_fast: false` (= C18.R12)."""
    from . import c18
    c18.r12_init(F, R)

RULES = [("R1", r1, None), ("R2", r2, None), ("R3", r3, None), ("R4", r4, None), ("R5", r5, None), ("R6", r6, None), ("R7", r7_setters, None), ("R8", r8_cli, None), ("R9", r9_init, None)]
