"""C19 — step attributes register and dispatch functions as written (clauses; DESIGN §4 C19).

Checked on the MIR of the macro expansion of a verif-owned zoo crate (/verif/zoo, built against the current /repo):
nothing is executed; the rules read what the attribute macros generated."""
import re

from . import analysis as A
from . import roles
from .mir import Site, Unverifiable, callee_is, callee_path, const_int, const_str, op_fn, op_local, op_place, place_fields, place_str

CFGS = {"quick": ["default", "zoo:default"], "thorough": ["default", "all", "zoo:default"]}

EXPLANATION = """
(R1) World::collection(): the loop over inventory::iter::<Self::Given> feeds Collection::given, When -> when,
Then -> then, each passing Some(loc), the regex and the fn of the registered item (checked on the cucumber crate).
(R2) on the expansion of the zoo (12 annotated functions: sync/async, unit/Result, typed args, slice, #[step],
literal/regex/expr, custom Parameter, three stacked attributes): each attribute yields exactly one submission whose
type is the World's <.. as WorldInventory>::{Given|When|Then} matching the attribute; its `func` calls the
annotated fn with the World first; the regex constant is `^` + regex::escape(literal) + `$` for literals, the text
as written for `regex =`, and Expression::regex_with_parameters(text) for `expr =`; the matches iterator skips the
whole match (skip(1)); the k-th next() feeds the k-th `str::parse::<T_k>` whose expect()ed result is the k-th typed
argument, T_k being the declared type; slice functions receive as_slice() of a vector of parsed elements; a #[step]
/ `step` argument receives Borrow::borrow(&ctx.step); Result-returning functions go through unwrap_or_else(panic),
unit ones do not; async functions are awaited.
Not decided: Cucumber-Expression semantics (regex generation lives in the cucumber-expressions crate) and matching
behaviour for arbitrary step texts.
Added after the second seeded round: (R4) slice functions: the loop over capture groups pushes one element per group on every way round; (R5) groups are merged by name prefix only under starts_with("__") (the reserved names of multi-group expression parameters); (R6) Collection::clone is field-faithful.
"""
DECLINED = ["Cucumber Expression -> regex semantics (external crate)", "behaviour for arbitrary step texts", "signatures outside the zoo"]
ASSUMPTIONS = ["the zoo is representative of supported signatures (see zoo/src/lib.rs)", "inventory::submit! registers the static it is given exactly once"]

S = "std::string::String"
ZOO = {
    "lit_sync_unit": {"attrs": [("Given", "lit", "a plain literal step")]},
    "lit_async_unit": {"attrs": [("When", "lit", "literal with (parens) and a . dot+")], "async": True},
    "lit_sync_result": {"attrs": [("Then", "lit", "a literal returning result")], "result": True},
    "re_two_typed": {"attrs": [("Given", "re", r"^(\d+) cucumbers and (\S+) names$")], "args": ["u32", S]},
    "re_three_async": {"attrs": [("When", "re", r"^(\d+) then (\d+) then (\d+)$")], "args": ["i8", "u64", "usize"], "async": True},
    "re_slice": {"attrs": [("Then", "re", r"^slice of (\d+) (\d+)$")], "slice": "u16"},
    "re_with_step": {"attrs": [("Given", "re", r"^with step (\d+)$")], "args": ["u8"], "step": True},
    "lit_with_step": {"attrs": [("When", "lit", "literal with step arg")], "step": True},
    "expr_custom": {"attrs": [("Then", "expr", "{int} animals of kind {animal}")], "args": ["i32", "Animal"]},
    "expr_async_result": {"attrs": [("Given", "expr", "{word} is {float}")], "args": [S, "f64"], "async": True, "result": True},
    "stacked": {"attrs": [("Given", "lit", "stacked one"), ("When", "re", r"^stacked (\d+)?$"), ("Then", "lit", "stacked three")]},
    "re_slice_with_step": {"attrs": [("Then", "re", r"^slice with step (\w+) (\w+)$")], "slice": S, "step": True},
    # an expression WITHOUT parameters is still an expression (optional text, alternation): not a literal
    "expr_no_params": {"attrs": [("When", "expr", "there is/are (a )cucumber(s) in the basket")]},
    # a `Result` spelled through a type alias (whatever its name) is still a fallible step: its `Err` must make the step fail
    "alias_sync_result": {"attrs": [("Given", "lit", "a step returning an aliased result")], "result": True},
    "alias_async_result": {"attrs": [("When", "re", r"^an async step (\d+) returning an aliased result$")], "args": ["i64"], "async": True, "result": True},
    "io_result": {"attrs": [("Then", "lit", "a step returning an io result")], "result": True},
    "expr_edge_params": {"attrs": [("Then", "expr", "the light is{negation} on and costs {currency}")], "args": ["Negation", "Currency"]},
}

# #[derive(Parameter)] in the zoo: type -> (regex as written in the attribute, name)
ZOO_PARAMS = {"Animal": ("cat|dog", "animal"), "Negation": (" not|", "negation"), "Currency": ("\u20ac|\u00a3|\\$", "currency")}


def regex_escape(s):
    """regex::escape: backslash-escape the regex meta characters."""
    return "".join("\\" + c if c in "\\.+*?()|[]{}^$#&-~" else c for c in s)


def unescape_rust(s):
    """Undo Rust's Debug escaping of a str constant as printed in MIR."""
    out, i = [], 0
    while i < len(s):
        if s[i] == "\\" and i + 1 < len(s):
            n = s[i + 1]
            out.append({"\\": "\\", '"': '"', "n": "\n", "t": "\t", "'": "'"}.get(n, "\\" + n))
            i += 2
        else:
            out.append(s[i])
            i += 1
    return "".join(out)


# ---- R1: cucumber crate -------------------------------------------------------------------------------

def r1(F, R):
    if "cucumber" not in F.crates:
        return
    cs = [b for b in F.crate_bodies() if (b.impl or {}).get("provided") and (b.impl or {}).get("trait") == "World" and b.name.endswith("::collection")]
    if len(cs) != 1:
        raise Unverifiable(f"World::collection: {len(cs)}")
    b = cs[0]
    for kw in ("given", "when", "then"):
        calls = [(nb, s, t) for nb in F.nested(b) for s, t in nb.calls(lambda t: callee_is(t, r"step::Collection::<.*>::" + kw + "$"))]
        ok = False
        why = f"{len(calls)} calls of Collection::{kw}"
        if len(calls) == 1:
            nb, s, t = calls[0]
            STOP = [r"step::Collection::<.*>::(given|when|then)$"]
            sl = A.slice_back(nb, t["args"][1:], stop_calls=STOP)
            inner = sl.has_call(r"StepConstructor::inner$")
            some = any(rv.get("adt") == "std::option::Option" and rv["variant"] == "Some" for _, rv in sl.aggs)
            src_calls = list(sl.calls)
            if nb is not b:
                # registered from a closure (`.fold(out, |out, given| out.given(..))`, `for_each`): the items come from the receiver of the
                # adaptor the closure is handed to
                cc = A.closure_creation(F, nb)
                if cc is not None and cc[0] is b:
                    uses, _ = A.forward_uses(b, cc[2]["pl"]["l"])
                    for _, ut, idx in uses:
                        if idx >= 1 and callee_is(ut, r"Iterator::(fold|for_each|try_fold|map)$"):
                            src_calls += list(A.slice_back(b, [ut["args"][0]], stop_calls=STOP).calls)
            its = [(op_fn(c["func"]) or {}).get("full", "") for _, c in src_calls if callee_is(c, r"IntoIterator::into_iter$")]
            kinds = {m.group(1) for x in its for m in [re.search(r"WorldInventory>::(\w+)", x)] if m}
            ok = kinds == {kw.capitalize()} and inner and some
            why = f"fed from inventory::iter::<{sorted(kinds)}>, inner()={inner}, Some(loc)={some}"
        calls = [(c[1], c[2]) for c in calls]
        R.check(ok, f"collection/{kw}", calls[0][0] if calls else b, f"Self::{kw.capitalize()} -> Collection::{kw}(Some(loc), regex(), fn)",
                f"World::collection registers into `{kw}` items {why}")
    R.floor(3)


# ---- R2: zoo expansion --------------------------------------------------------------------------------

def inventory_types(F):
    imp = [i for i in F.impls if i["trait"].endswith("codegen::WorldInventory") and i["self"] == "Zoo"]
    if len(imp) != 1:
        raise Unverifiable("impl WorldInventory for Zoo")
    return {name: adt for name, ty, adt in imp[0].get("assoc_types", [])}


def submissions(F):
    """(static body, keyword, rvalue) for every `submit!`-ed step item in the zoo."""
    kinds = {adt: kw for kw, adt in inventory_types(F).items()}
    out = []
    for b in F.bodies.values():
        for s, st in b.assigns(lambda st: st["rv"]["k"] == "agg" and st["rv"].get("adt") in kinds):
            out.append((b, kinds[st["rv"]["adt"]], st["rv"], s))
    return out


def expansion_of(F, static_body, rv):
    f = dict(zip(rv["fields"], rv["ops"]))
    func = A.closure_of_operand(F, static_body, f["func"])
    regex = A.closure_of_operand(F, static_body, f["regex"])
    return func, regex, f


def r2(F, R):
    if "cucumber_verif_zoo" not in F.crates:
        return
    subs = submissions(F)
    R.check(len(subs) == sum(len(v["attrs"]) for v in ZOO.values()), "submission-count", None, f"{len(subs)} submissions for {sum(len(v['attrs']) for v in ZOO.values())} attributes",
            f"{len(subs)} step submissions in the zoo; the zoo has {sum(len(v['attrs']) for v in ZOO.values())} attributes")
    by_fn = {}
    for sb, kw, rv, site in subs:
        func, regex, fields = expansion_of(F, sb, rv)
        if func is None:
            R.violation(f"func-closure/{sb.name}", site, "submission's `func` is not a closure")
            continue
        blk = [nb for nb in F.nested(func) if nb.is_coroutine]
        callee = None
        for nb in F.nested(func):
            for s, t in nb.calls():
                p = callee_path(t)
                if p in ZOO:
                    callee = (nb, s, t, p)
        if callee is None:
            R.violation(f"calls-annotated-fn/{sb.name}", site, "the submitted `func` does not call any annotated function")
            continue
        by_fn.setdefault(callee[3], []).append((sb, kw, rv, site, func, regex, callee))
    for fn, spec in ZOO.items():
        got = by_fn.get(fn, [])
        want_kws = sorted(a[0] for a in spec["attrs"])
        R.check(sorted(x[1] for x in got) == want_kws, f"{fn}/registered-once-per-attribute", got[0][3] if got else None, f"registered under {want_kws}",
                f"`{fn}` is registered under {sorted(x[1] for x in got)}; its attributes are {want_kws}")
        for (kw, kind, text) in spec["attrs"]:
            mine = [x for x in got if x[1] == kw]
            if len(mine) != 1:
                continue
            sb, _, rv, site, func, regex, (cb, cs, ct, _) = mine[0]
            inst = f"{fn}/{kw}"
            # ---- regex
            consts, exprs = [], []
            # (the lazily compiled regex lives in a static nested in the `regex` closure, or next to it in the same `submit!` block)
            lazies = [b for b in F.bodies.values() if b.crate == sb.crate and b.name.startswith(sb.name + "::") and not (func is not None and (b is func or b.name.startswith(func.name + "::")))]
            for lb in lazies:
                for s, t in lb.calls():
                    if callee_is(t, r"Regex::new$"):
                        consts += [unescape_rust(const_str(a)) for a in t["args"] if const_str(a) is not None]
                        sl = A.slice_back(lb, t["args"])
                        consts += [unescape_rust(x) for x in sl.const_strs()]
                    if callee_is(t, r"Expression::regex_with_parameters$", r"regex_with_parameters$"):
                        sl = A.slice_back(lb, t["args"][:1])
                        exprs += [unescape_rust(x) for x in sl.const_strs()] + [unescape_rust(const_str(a)) for a in t["args"][:1] if const_str(a) is not None]
            consts = sorted(set(consts))
            exprs = sorted(set(exprs))
            if kind == "lit":
                want = "^" + regex_escape(text) + "$"
                R.check(consts == [want] and not exprs, f"{inst}/regex-literal", site, f"Regex::new({want!r})", f"literal attribute `{text}` is compiled to {consts or exprs}; expected {want!r}")
            elif kind == "re":
                R.check(consts == [text] and not exprs, f"{inst}/regex-as-written", site, "Regex::new(<as written>)", f"`regex = {text!r}` is compiled to {consts or exprs}")
            else:
                R.check(exprs == [text] and not consts, f"{inst}/expression-as-written", site, "Expression::regex_with_parameters(<as written>, Provider)", f"`expr = {text!r}` is compiled from {exprs or consts}")
            # ---- dispatch
            args = ct["args"]
            wsl = A.slice_back(cb, [args[0]])
            world_ups = set()
            for pl in wsl.places:
                if pl["l"] == 1 and pl["p"] and isinstance(pl["p"][0], dict) and pl["p"][0].get("o", "").startswith("{upvar}") and pl["p"][0]["t"] == "&mut Zoo":
                    world_ups.add(pl["p"][0]["f"])
            R.check(bool(world_ups) and wsl.upvars == world_ups and not wsl.calls_matching(r"parse$"), f"{inst}/world-first", cs, "fn(world, ..)", "the World is not passed as the first argument")
            typed = spec.get("args", [])
            n_extra = len(typed) + (1 if spec.get("slice") else 0) + (1 if spec.get("step") else 0)
            R.check(len(args) == 1 + n_extra, f"{inst}/arity", cs, "", f"{len(args)} arguments passed; expected {1 + n_extra}")
            # one `next()` per typed argument on the iterator over the captures (further `next()`s inside a loop merge the groups of one
            # multi-group parameter; iterators over characters etc. are not the capture iterator)
            nexts = sorted([(s, t) for s, t in cb.calls(lambda t: callee_is(t, r"Iterator::next$") and "Skip<" in (op_fn(t["func"]) or {}).get("full", "") and
                                                         "Enumerate<" not in (op_fn(t["func"]) or {}).get("full", "") and "Chars" not in (op_fn(t["func"]) or {}).get("full", ""))
                            if not cb.in_cycle(s) or spec.get("slice")], key=lambda x: _dom_rank(cb, x[0]))
            parses = sorted([(s, t) for s, t in cb.calls(lambda t: callee_is(t, r"str::<impl str>::parse$", r"::parse$"))], key=lambda x: _dom_rank(cb, x[0]))
            skips = [(s, t) for s, t in cb.calls(lambda t: callee_is(t, r"Iterator::skip$") and "Chars" not in (op_fn(t["func"]) or {}).get("full", ""))]
            if typed:
                R.check(len(skips) == 1 and const_int(skips[0][1]["args"][1]) == 1, f"{inst}/skips-whole-match", skips[0][0] if skips else cs, "matches.iter().skip(1)",
                        "the capture iterator does not skip exactly the whole match")
                if skips:
                    ssl = A.deep_slice(F, cb, [skips[0][1]["args"][0]])
                    R.check(("cucumber::step::Context", "matches") in ssl.fields, f"{inst}/iterates-matches", skips[0][0], "", "arguments are not taken from ctx.matches")
                tys = [((op_fn(t["func"]) or {}).get("targs") or ["?"])[0] for _, t in parses]
                R.check(tys == typed and len(nexts) == len(typed), f"{inst}/parse-types-in-order", cs, f"parse::<{typed}>", f"arguments are parsed as {tys} from {len(nexts)} captures; declared {typed}")
                if tys == typed and len(nexts) == len(typed):
                    for k, ((ps, pt), (ns, nt)) in enumerate(zip(parses, nexts)):
                        psl = A.slice_back(cb, pt["args"], stop_calls=[r"Iterator::next$"])
                        used = [i for i, (s2, t2) in enumerate(nexts) if t2["dest"]["l"] in psl.locals]
                        R.check(k in used and all(i <= k for i in used), f"{inst}/arg{k + 1}-from-capture{k + 1}", ps, f"parse #{k + 1} reads capture #{k + 1}", f"parse #{k + 1} reads captures {[i + 1 for i in used]}")
                        # argument position: typed args keep declaration order, step arg is last in the zoo
                        asl = A.slice_back(cb, [args[1 + k]], stop_calls=[r"::parse$"])
                        R.check(ps in asl.sites and not [s3 for s3, _ in parses if s3 in asl.sites and s3 != ps], f"{inst}/arg{k + 1}-is-parse{k + 1}", cs,
                                f"argument {k + 1} = parse #{k + 1}", f"argument {k + 1} does not receive the value parsed for it")
                        # failure -> panic
                        rl = pt["dest"]["l"]
                        uses, _ = A.forward_uses(cb, rl)
                        R.check(any(callee_is(ut, r"Result::<.*>::(expect|unwrap_or_else|unwrap)$") for _, ut, _ in uses), f"{inst}/parse{k + 1}-failure-panics", ps, "parse(..).expect(..)",
                                "a parse failure is ignored instead of failing the step")
            if spec.get("slice"):
                tys = [((op_fn(t["func"]) or {}).get("targs") or ["?"])[0] for _, t in parses]
                R.check(tys == [spec["slice"]], f"{inst}/slice-element-type", cs, f"elements parsed as {spec['slice']}", f"slice elements parsed as {tys}")
                pos = 1
                asl = A.slice_back(cb, [args[pos]])
                R.check(asl.has_call(r"Vec::<.*>::as_slice$") and asl.has_call(r"Vec::<.*>::push$"), f"{inst}/slice-of-all-captures", cs, "matches.as_slice()", "the slice argument is not the vector of parsed captures")
                R.check(len(skips) == 1 and const_int(skips[0][1]["args"][1]) == 1, f"{inst}/skips-whole-match", skips[0][0] if skips else cs, "", "the capture iterator does not skip exactly the whole match")
            if spec.get("step"):
                pos = len(args) - 1
                asl = A.deep_slice(F, cb, [args[pos]])
                R.check(asl.has_call(r"Borrow.*::borrow$") and ("cucumber::step::Context", "step") in asl.fields, f"{inst}/step-arg", cs, "Borrow::borrow(&ctx.step)", "the #[step]/`step` argument does not receive the context's step")
            # ---- result / await
            dest = ct["dest"]["l"]
            if spec.get("async"):
                aw = [a for a in A.awaits(cb) if a.src_op is not None and cs in A.slice_back(cb, [a.src_op]).sites]
                R.check(len(aw) == 1, f"{inst}/awaited", cs, "async fn is awaited", "the future returned by the async step fn is not awaited")
            uw = []
            for s, t in cb.calls(lambda t: callee_is(t, r"Result::<.*>::unwrap_or_else$")):
                rsl = A.slice_back(cb, [t["args"][0]], stop_calls=[r"::parse$"])
                if cs in rsl.sites and not any(pt2["dest"]["l"] in rsl.locals and False for _, pt2 in parses) and not callee_is(cb.single_def(A.canon_place(cb, {"l": op_local(t["args"][0]), "p": []})["l"])[2] if cb.single_def(A.canon_place(cb, {"l": op_local(t["args"][0]), "p": []})["l"]) and cb.single_def(A.canon_place(cb, {"l": op_local(t["args"][0]), "p": []})["l"])[1] == "call" else {"func": {}}, r"::parse$"):
                    uw.append((s, t))
            if spec.get("result"):
                okp = False
                for s, t in uw:
                    kb = A.closure_of_operand(F, cb, t["args"][1])
                    if kb is not None and any(tt["t"] < 0 for _, tt in kb.calls()):
                        okp = True
                R.check(okp, f"{inst}/err-panics", cs, "result.unwrap_or_else(|e| panic!(..))", "an Err returned by the step fn is ignored instead of failing the step")
            else:
                R.check(not uw, f"{inst}/unit-no-unwrap", cs, "", "")
    R.floor(60)


def _dom_rank(body, site):
    return sum(1 for _ in body.dom.get(site.bb, ()))


def r3(F, R):
    """A parameter whose regex has several capturing groups is parsed from the FIRST non-empty group (documented
    behaviour): every generated `fold(None, |acc, s| ..)` over a value's groups keeps an already chosen `acc` — decided on
    the fold closure's deep path table."""
    if "cucumber_verif_zoo" not in F.crates:
        return
    from . import deep as D
    n = 0
    seq = {}
    for b in sorted(F.bodies.values(), key=lambda x: x.span or ""):
        if b.crate != "cucumber_verif_zoo":
            continue
        for s, t in b.calls(lambda t: callee_is(t, r"Iterator::fold$")):
            kb = A.closure_of_operand(F, b, t["args"][2]) if len(t["args"]) > 2 else None
            if kb is None or not kb.locals[0].startswith("std::option::Option<&"):
                continue
            n += 1
            rows = D.Deep(F, kb, max_paths=200).run()
            ok, why = bool(rows), ""
            acc = ("arg", 2)
            s_arg = ("arg", 3)
            seen = set()
            for p in rows:
                a_out = [o for a, o in p.conds if a == ("discr", acc)]
                if len(a_out) != 1:
                    ok, why = False, "the fold does not look at the accumulator first"
                    continue
                if a_out[0] == "Some":
                    seen.add("kept")
                    if not (p.ret == acc or (D.is_variant(p.ret, "std::option::Option", "Some") and p.ret[3][0] == ("field", ("as", acc, "Some"), 0))):
                        ok, why = False, "an already chosen group is replaced by a later one (the LAST non-empty group wins)"
                else:
                    empt = [o for a, o in p.conds if a[0] == "call" and re.search(r"str::is_empty$|::is_empty$", a[1])]
                    if empt == [False]:
                        seen.add("taken")
                        if not (D.is_variant(p.ret, "std::option::Option", "Some") and D.mentions(p.ret, lambda x: x == s_arg)):
                            ok, why = False, "a non-empty group is not taken when nothing was chosen yet"
                    elif empt == [True]:
                        seen.add("skipped")
                        if not D.is_variant(p.ret, "std::option::Option", "None"):
                            ok, why = False, "an empty group is taken"
                    else:
                        ok, why = False, "the fold does not test the group for emptiness"
            ok = ok and seen == {"kept", "taken", "skipped"}
            # stable instance name: the annotated fn this expansion calls + the ordinal of the fold in it
            top = F.root_fn(b)
            fn_name = None
            for nb in F.nested(top):
                for _, t2 in nb.calls():
                    if callee_path(t2) in ZOO:
                        fn_name = callee_path(t2)
            seq[fn_name] = seq.get(fn_name, 0) + 1
            R.check(ok, f"first-non-empty-group/{fn_name or top.short[-30:]}#{seq[fn_name]}", s, "acc.or_else(|| (!s.is_empty()).then_some(s))", why or f"fold cases seen: {sorted(seen)}")
    # every window of groups taken off the shared captures iterator (`iter.by_ref().take(n)`) is consumed COMPLETELY (fold / last /
    # for_each / collect ..): a short-circuiting consumer (find / any / position / next ..) leaves the parameter's remaining groups in
    # the iterator, and the next argument is parsed from a left-over group instead of its own
    wseq = {}
    for b in sorted(F.bodies.values(), key=lambda x: x.span or ""):
        if b.crate != "cucumber_verif_zoo":
            continue
        for s, t in b.calls(lambda t: callee_is(t, r"Iterator::(find|find_map|any|all|position|next|nth|try_fold|try_for_each|fold|last|count|for_each|collect|max|min|sum)$")):
            if not t["args"]:
                continue
            sl = A.slice_back(b, [t["args"][0]])
            if not (any(callee_is(c, r"Iterator::take$") for _, c in sl.calls) and any(callee_is(c, r"Iterator::by_ref$") for _, c in sl.calls)):
                continue
            top = F.root_fn(b)
            fn_name = None
            for nb in F.nested(top):
                for _, t2 in nb.calls():
                    if callee_path(t2) in ZOO:
                        fn_name = callee_path(t2)
            wseq[fn_name] = wseq.get(fn_name, 0) + 1
            short = callee_is(t, r"Iterator::(find|find_map|any|all|position|next|nth|try_fold|try_for_each)$")
            R.check(not short, f"group-window-consumed/{fn_name or top.short[-30:]}#{wseq[fn_name]}", s, "the parameter's group window is consumed completely",
                    f"the groups of one parameter (`take(n)` of the shared captures iterator) are consumed by the short-circuiting `{callee_path(t).rsplit('::', 1)[-1]}`: "
                    "groups it does not visit stay in the iterator and are parsed as the NEXT argument")
    # explicit-loop spelling of the same merge: `for _ in 0..to_take { if let Some(g) = iter.next() { if acc.is_none() && !g.is_empty() { acc = Some(g) } } }`
    # — the capture iterator is advanced on EVERY way round the counting loop (all groups of the parameter are consumed), and the
    # accumulator is overwritten only while it is still None and only with a non-empty group (the FIRST non-empty group wins)
    lseq = {}
    for b in sorted(F.bodies.values(), key=lambda x: x.span or ""):
        if b.crate != "cucumber_verif_zoo":
            continue
        for s, t in b.calls(lambda t: callee_is(t, r"Iterator::next$") and "Range<" in (op_fn(t["func"]) or {}).get("full", "")):
            if not b.in_cycle(s):
                continue
            loop = A.natural_loop(b, s.bb)
            inner = [(s2, t2) for s2, t2 in b.calls(lambda t2: callee_is(t2, r"Iterator::next$") and "Skip<" in (op_fn(t2["func"]) or {}).get("full", "") and
                                                    "Chars" not in (op_fn(t2["func"]) or {}).get("full", "")) if s2.bb in loop]
            if len(inner) != 1:
                continue
            top = F.root_fn(b)
            fn_name = None
            for nb in F.nested(top):
                for _, t2 in nb.calls():
                    if callee_path(t2) in ZOO:
                        fn_name = callee_path(t2)
            lseq[fn_name] = lseq.get(fn_name, 0) + 1
            consumed = A.for_loop_handles_every_element(b, s, t, {inner[0][0].bb})
            R.check(consumed, f"group-window-consumed/{fn_name or top.short[-30:]}#{lseq[fn_name]}", s, "every turn of the counting loop advances the capture iterator",
                    "a turn of the loop over one parameter's groups can skip `next()` on the capture iterator: left-over groups are parsed as the NEXT argument")
            # accumulator writes inside the loop
            ok_acc, n_w = True, 0
            for s3, st3 in b.assigns(lambda st3: st3["rv"]["k"] == "agg" and st3["rv"].get("adt") == "std::option::Option" and st3["rv"].get("variant") == "Some"):
                if s3.bb not in loop or not b.locals[st3["pl"]["l"]].startswith("std::option::Option<&"):
                    continue
                n_w += 1
                gs = A.guards_of(b, s3)
                none_ok = any((g.cond_def() or [None])[0] == "call" and callee_is(g.cond_def()[2], r"Option::<.*>::is_none$") and g.polarity() is True for g in gs) or \
                    any((g.cond_def() or [None])[0] == "discr" and g.variants() == {"None"} for g in gs)
                nonempty_ok = any((g.cond_def() or [None])[0] == "call" and callee_is(g.cond_def()[2], r"::is_empty$") and g.polarity() is False for g in gs)
                ok_acc = ok_acc and none_ok and nonempty_ok
            R.check(ok_acc and n_w >= 1, f"first-non-empty-group/{fn_name or top.short[-30:]}#{lseq[fn_name]}", s, "acc is replaced only while None, only by a non-empty group",
                    "in the loop over one parameter's groups the chosen group can be replaced by a later one, or an empty group can be chosen")
    R.floor(8)


def r4(F, R):
    """A function taking all captures as a slice gets one element per capture group — a group that did not participate yields
    its default (empty) element, it is not dropped: in the expansion, the loop over the groups is left only at their end and every
    way round passes the push onto the element vector."""
    if "cucumber_verif_zoo" not in F.crates:
        return
    n = 0
    for b in sorted(F.bodies.values(), key=lambda x: x.span or ""):
        if b.crate != "cucumber_verif_zoo":
            continue
        pushes = [(s, t) for s, t in b.calls(lambda t: callee_is(t, r"Vec::<.*>::push$"))]
        slices = [(s, t) for s, t in b.calls(lambda t: callee_is(t, r"Vec::<.*>::as_slice$"))]
        if not pushes or not slices:
            continue
        # the loop over the capture groups: the `Iterator::next` loop(s) around the push of the element vector (however one element
        # is assembled inside: a fold, a helper fn, an inner loop over the groups of one parameter)
        nexts = [(s, t) for s, t in b.calls(lambda t: callee_is(t, r"Iterator::next$")) if b.in_cycle(s) and any(sp.bb in A.natural_loop(b, s.bb) for sp, _ in pushes)]
        top = F.root_fn(b)
        fn_name = None
        for nb in F.nested(top):
            for _, t2 in nb.calls():
                if callee_path(t2) in ZOO:
                    fn_name = callee_path(t2)
        for sn, tn in nexts:
            n += 1
            R.check(A.for_loop_handles_every_element(b, sn, tn, {s.bb for s, _ in pushes}), f"slice/one-element-per-group/{fn_name or top.short[-30:]}", sn,
                    "every group pushes one element", "a capture group can be skipped without pushing an element: the slice gets shorter and later captures shift")
    R.floor(2)


def r5(F, R):
    """Capture groups are handed over one by one; several groups are merged into one argument only for the reserved `__<n>_..` names
    that a Cucumber Expression parameter with several groups expands to — never for the user's own named groups.  In every
    expansion, the closure that computes the merge prefix (`split_at`) is applied only to names passing a `starts_with("__")` test
    (as an `Option::filter` before the `map`, or as a guard inside)."""
    if "cucumber_verif_zoo" not in F.crates:
        return
    n = 0
    for b in sorted(F.bodies.values(), key=lambda x: x.span or ""):
        if b.crate != "cucumber_verif_zoo":
            continue
        # the call that cuts the merge prefix off a group name: `split_at` in today's expansion, any other str-splitting call applied to the
        # `&str` parameter of a small closure over the names otherwise
        is_name_closure = b.kind == "Closure" and b.arg_count >= 2 and re.sub(r"'\w+ ", "", b.locals[2]).replace(" ", "") in ("&str", "&&str", "&std::string::String", "&&std::string::String")
        for s, t in b.calls(lambda t: callee_is(t, r"::split_at$") or (is_name_closure and callee_is(t, r"str::<impl str>::(rsplit_once|split_once|rfind|find|rsplitn|splitn|strip_suffix|trim_end_matches)$|::(rsplit_once|split_once)$"))):
            n += 1
            ok = False
            # guard form: the split is under `n.starts_with("__")`
            for g in A.guards_of(b, s):
                d = g.cond_def()
                if d and d[0] == "call" and callee_is(d[2], r"str::<impl str>::starts_with$|::starts_with$") and any(const_str(a) == "__" for a in d[2]["args"]) and g.polarity() is True:
                    ok = True
            cc = A.closure_creation(F, b) if not ok else None
            if cc is not None:
                P, cs, st = cc
                uses, _ = A.forward_uses(P, st["pl"]["l"])
                for u in uses:
                    us = u[0]
                    if us.idx != "T":
                        continue
                    term = P.blocks[us.bb]["term"]
                    if term["k"] != "call" or not callee_is(term, r"Option::<.*>::(map|and_then)$"):
                        continue
                    for _, c in A.receiver_chain(P, term["args"][0]):
                        if callee_is(c, r"Option::<.*>::filter$"):
                            kb = A.closure_of_operand(F, P, c["args"][1])
                            if kb is not None and any(callee_is(t2, r"::starts_with$") and any(const_str(a) == "__" for a in t2["args"]) for _, t2 in kb.calls()) and \
                                    not any(callee_is(t2, r"ops::Not::not$") for _, t2 in kb.calls()):
                                ok = True
            top = F.root_fn(b)
            fn_name = None
            for nb in F.nested(top):
                for _, t2 in nb.calls():
                    if callee_path(t2) in ZOO:
                        fn_name = callee_path(t2)
            R.check(ok, f"merge-only-reserved-names/{fn_name or top.short[-30:]}", s, "prefix only for names starting with `__`",
                    "groups are merged by name prefix for ANY named group: a user's `(?P<x>..)` / `(?P<user>..)(?P<user2>..)` groups are merged or make the step panic")
    R.floor(8)


def r6(F, R):
    """`World::collection()` keeps every registered function when the collection (or a runner holding it) is cloned: the hand-written
    `Collection::clone` fills each keyword's map from the like-named map (C17.R1's clause)."""
    roles.check_field_faithful_clone(F, R, "step::Collection", "collection")


def r7(F, R):
    """"`regex =` matches as written ... receives the capture groups": the values handed to the generated parsing code are the
    groups of the match in the step text, whole match first (= C17.R4: offsets index the matched string, not a substring)."""
    if "cucumber_verif_zoo" in F.crates and "cucumber" not in F.crates:
        return
    from . import c17
    c17.r4(F, R)


def r8_entry(F, R):
    """"`World::collection()` contains them all" and it is what the default pipeline runs with: `World::cucumber()` registers `Self::collection()` (= C01.R11)."""
    if "cucumber" not in F.crates:
        return
    from . import c01
    c01.r11(F, R)


def r9(F, R):
    """`#[derive(Parameter)]` emits the attribute's regex AS WRITTEN (edge whitespace, anchors, escapes untouched) and the given — or
    lower-cased type — name: the `REGEX` / `NAME` associated constants of the zoo's parameters (read from their MIR) equal the attribute
    text.  A derive that trims / strips / re-escapes the regex makes `expr =` steps match something else than the expression specifies."""
    if "cucumber_verif_zoo" not in F.crates:
        return
    for ty, (rx, nm) in sorted(ZOO_PARAMS.items()):
        for cname, want in (("REGEX", rx), ("NAME", nm)):
            bs = [b for b in F.bodies.values() if b.crate == "cucumber_verif_zoo" and b.name == f"<{ty} as cucumber::Parameter>::{cname}"]
            got = sorted({unescape_rust(const_str(op)) for b in bs for _, st in b.assigns() for op in A.rvalue_operands(st["rv"]) if const_str(op) is not None})
            R.check(len(bs) == 1 and got == [want], f"parameter/{ty}/{cname}", bs[0] if bs else None, f"{cname} = {want!r}", f"`#[derive(Parameter)]` on `{ty}` emits {cname} = {got} (attribute says {want!r})")
    R.floor(6)


def r10_str_eq(F, R):
    """The compile-time guard every `expr =` attribute with a custom parameter expands to (`str_eq(<name in the expression>, <Arg as
    Parameter>::NAME)`): the generated code trusts it and uses the argument type's REGEX.  On its path table (two loop iterations unrolled): it
    answers `true` only after having established that both lengths are equal (or the answer itself depends on both lengths), and a byte
    mismatch answers `false`."""
    from . import deep as D
    bs = [b for b in F.crate_bodies() if re.search(r"(^|::)codegen::str_eq$", b.name)]
    if len(bs) != 1:
        raise Unverifiable(f"codegen::str_eq: {len(bs)}")
    b = bs[0]
    rows = D.Deep(F, b, max_paths=200, unroll=2).run()
    if not rows:
        raise Unverifiable("str_eq: empty table")
    is_len = lambda t, k: isinstance(t, tuple) and t and ((t[0] == "call" and re.search(r"::len$", t[1])) or t[0] == "len" or (t[0] == "un" and "Metadata" in str(t[1]))) and D.mentions(t, lambda y: y == ("arg", k))
    def len_eq(a, o):
        return a[0] == "bin" and ((a[1] == "Eq" and o is True) or (a[1] == "Ne" and o is False)) and ((is_len(a[2], 1) and is_len(a[3], 2)) or (is_len(a[2], 2) and is_len(a[3], 1)))
    def byte_cmp(a):
        return a[0] == "bin" and a[1] in ("Eq", "Ne") and all(isinstance(x, tuple) and x and x[0] == "index" for x in (a[2], a[3])) and \
            {1, 2} <= {k for x in (a[2], a[3]) for k in (1, 2) if D.mentions(x, lambda y, k=k: y == ("arg", k))}
    n_true = n_mis = 0
    if not any(byte_cmp(a) for p in rows for a, _ in p.conds):
        # another algorithm than "compare the bytes at a common index" (e.g. chopping equal heads off both slices with slice patterns): the
        # clauses below are stated for the index form only; nothing is claimed here rather than guessing
        R.ok("str-eq/form", b, "not the index-loop form: the length / mismatch clauses are not decided for this spelling")
        R.floor(1)
        return
    for p in rows:
        conds = " ∧ ".join(f"{D.fmt(b, a)[:40]}={o}" for a, o in p.conds[:4]) or "always"
        mism = any(byte_cmp(a) and ((a[1] == "Eq" and o is False) or (a[1] == "Ne" and o is True)) for a, o in p.conds)
        if mism and not p.cut:
            n_mis += 1
            R.check(p.ret == ("const", False), "str-eq/mismatch-is-false", b, "a differing byte => false", f"[{conds}] str_eq does not answer `false` after finding a differing byte")
        if p.cut or p.ret == ("const", False) or (isinstance(p.ret, tuple) and p.ret and p.ret[0] in ("loop", "pruned", "reached")):
            continue
        n_true += 1
        # what the row knows about the two lengths: they were compared; or the answer depends on both; or both are pinned the same way (the
        # constraints on the one, with the parameters exchanged, are the constraints on the other: `([], []) => true`)
        def swap(t):
            if t == ("arg", 1):
                return ("arg", 2)
            if t == ("arg", 2):
                return ("arg", 1)
            if isinstance(t, tuple) and len(t) == 4 and t[0] == "call":
                return ("call", t[1], tuple(swap(x) for x in t[2]), 0)
            return tuple(swap(x) if isinstance(x, tuple) else x for x in t) if isinstance(t, tuple) else t
        strip_id = lambda t: swap(swap(t))
        lc1 = {(strip_id(a), o) for a, o in p.conds if a[0] == "bin" and any(is_len(x, 1) for x in (a[2], a[3])) and not any(is_len(x, 2) for x in (a[2], a[3]))}
        lc2 = {(strip_id(a), o) for a, o in p.conds if a[0] == "bin" and any(is_len(x, 2) for x in (a[2], a[3])) and not any(is_len(x, 1) for x in (a[2], a[3]))}
        symmetric = bool(lc1) and {(swap(a), o) for a, o in lc1} == lc2 and any(a[1] == "Eq" and o is True for a, o in lc1)
        both = any(len_eq(a, o) for a, o in p.conds) or (any(is_len(x, 1) for x in D.subterms(p.ret)) and any(is_len(x, 2) for x in D.subterms(p.ret))) or symmetric
        R.check(both, "str-eq/true-needs-equal-lengths", b, "`true` only with equal lengths",
                f"[{conds}] str_eq can answer `true` ({D.fmt(b, p.ret)[:40]}) without the two lengths having been compared: a parameter name that is a proper prefix of "
                f"(or has as prefix) the argument type's NAME passes the compile-time guard and the step silently never matches")
    R.check(n_true >= 1 and n_mis >= 1, "str-eq/table", b, f"{n_true} rows answering true, {n_mis} mismatch rows", f"str_eq table: true rows {n_true}, mismatch rows {n_mis}")
    R.floor(3)


RULES = [("R1", r1, ["default", "all"]), ("R2", r2, ["zoo:default"]), ("R3", r3, ["zoo:default"]), ("R4", r4, ["zoo:default"]), ("R5", r5, ["zoo:default"]), ("R6", r6, ["default", "all"]), ("R7", r7, ["default", "all"]), ("R8", r8_entry, ["default", "all"]), ("R9", r9, ["zoo:default"]), ("R10", r10_str_eq, ["default", "all"])]
