"""C02 — each scenario attempt emits the canonical, declaration-ordered event sequence (DESIGN §4 C02)."""
import re

from . import analysis as A
from . import roles
from . import c05
from .c04 import _reaches_block
from .mir import Site, Unverifiable, callee_is, callee_path, const_int, op_fn, op_local, op_place, place_fields, place_str

CFGS = {"quick": ["default", "all"], "thorough": ["default", "all", "nodefault", "tracing"]}

EXPLANATION = """
Static ordering/pairing rules over the MIR of the attempt routine (run_scenario and the Executor methods it calls):
(R1) the Scenario::Started emission dominates every other emission, await and Executor call of the attempt, the
Scenario::Finished emission lies on every path to return and no event emission is reachable after it; (R2) per-step
triple in run_step: the `started` emission dominates everything, then exactly one of {emit passed, return Ok},
{emit skipped, return Err(StepSkipped)}, {emit nothing, return Err(StepPanicked)}; (R3) the deferred failure event:
emit_failed_events emits exactly one event per failure kind (none for StepSkipped, hook_failed(Before) for
BeforeHookPanicked, background_step_failed / step_failed by is_background) and is called exactly when the result is
Err; (R4) the three folds run in the order feature background -> rule background -> scenario steps, each seeded with
the previous fold's result and aborting on Err, over order-preserving iterators, with is_background / event
constructor triples paired consistently; (R5) hooks: before-hook Started emission only when a hook is set and before
World creation, Passed only on Ok; run_after_hook exactly once on every path before emit_failed_events, which
precedes emit_after_hook_events; after-hook events = Started then exactly one of Passed/Failed when a hook is set;
(R6) one retry counter: every with_retries in the attempt receives the attempt's own retry number, never a constant;
(R7) outcome classification: no match -> skipped path, ambiguous -> StepError::AmbiguousMatch, panic / World failure
-> StepError::Panic; (R8) all emissions go through the one event channel of the Executor.
Not decided: payload contents beyond the variant (e.g. panic message text).
Added after the second seeded round: (R9) the documented in-place transformation fail_on_skipped keeps each event at its step kind (= C13.R1); (R10) Clone of every event:: type keeps variant and fields (path tables); (R11) with tracing, every consumed completion de-registers its attempt from the log collector (= C20.R3).
"""
DECLINED = ["user-visible payload text"]
ASSUMPTIONS = ["unbounded mpsc channels are FIFO per sender; StreamExt::try_fold visits items in order and stops at the first Err"]

LOSSY = {"filter", "skip", "take", "step_by", "rev", "skip_while", "take_while", "filter_map", "dedup", "nth", "last", "peekable",
         "sorted", "sorted_by", "sorted_by_key", "unique", "scan", "map_while", "chain", "zip", "cycle"}


def ctor_tags(F, body, op):
    tags, sl = A.event_tags(F, body, op)
    return tags


def event_send_calls(F, body, emit_fns):
    """Calls in `body` to the Executor's emitting helpers (send_event, send_event_with_meta, send_all_events)."""
    return [(s, t) for s, t in body.calls() if F.callee_body(t) is not None and F.callee_body(t).key in emit_fns]


def r1(F, R):
    rs, root, tree = roles.attempt_tree(F)
    emit_fns = roles.emitters(F, tree)
    sends = event_send_calls(F, rs, emit_fns)
    started = [(s, t) for s, t in sends if "event::Scenario::Started" in ctor_tags(F, rs, t["args"][1])]
    finished = [(s, t) for s, t in sends if "event::Scenario::Finished" in ctor_tags(F, rs, t["args"][1])]
    R.check(len(started) == 1 and len(finished) == 1, "bracket-sites", rs, "one Started and one Finished emission",
            f"Started emissions: {len(started)}, Finished emissions: {len(finished)}")
    if len(started) != 1 or len(finished) != 1:
        return
    s_st, s_fi = started[0][0], finished[0][0]
    others = [aw.poll_site for aw in A.awaits(rs)]
    others += [s for s, t in rs.calls() if s != s_st and F.callee_body(t) is not None and (F.callee_body(t).key in {b.key for b in tree})]
    bad = [x for x in others if not rs.dominates(s_st, x)]
    R.check(not bad, "started-first", s_st, f"Started dominates {len(others)} awaits / Executor calls",
            f"{len(bad)} await(s)/call(s) of the attempt are not dominated by the Started emission (first at {bad[0].loc if bad else ''})")
    R.check(not rs.in_cycle(s_st) and not rs.in_cycle(s_fi), "bracket-once", s_st, "", "Started/Finished emission inside a loop")
    R.check(not rs.entry_reaches_return(stop=[s_fi]), "finished-on-every-path", s_fi, "every path to return emits Finished",
            "a path through run_scenario returns without emitting Scenario::Finished")
    after = [s for s, t in sends if s != s_fi and rs.site_reaches(s_fi, s)]
    R.check(not after, "nothing-after-finished", s_fi, "", f"an event is emitted after Scenario::Finished at {[x.loc for x in after]}")
    # the user-code part (the is_failed future) is awaited between them
    aws = [aw for aw in A.awaits(rs) if re.search(r"YieldThenReturn<bool>", aw.fut_type)]
    R.check(len(aws) == 1 and rs.dominates(s_st, aws[0].poll_site) and rs.dominates(aws[0].poll_site, s_fi), "body-between-brackets", s_fi,
            "the attempt body is awaited between Started and Finished", "the attempt body is not awaited between the Started and Finished emissions")
    # emitting awaits after Finished: only the re-insertion (no event) is allowed
    s_re, t_re, re_co = c05.reinsert_call(F, rs)
    late = [aw for aw in A.awaits(rs) if rs.site_reaches(s_fi, aw.poll_site) and not (aw.src_op and s_re in A.slice_back(rs, [aw.src_op]).sites)]
    R.check(not late, "no-await-after-finished-but-reinsert", s_fi, "", f"awaits after Finished: {[a.loc for a in late]}")
    # a started attempt is driven to its end: the scheduler never abandons in-flight attempt futures
    from .c08 import check_exit_requires_empty_in_flight
    check_exit_requires_empty_in_flight(F, R, "started-attempts-are-driven-to-completion")
    R.floor(7)


def run_step_body(F, tree):
    """RUN_STEP := the Executor coroutine that calls FnOnce params three ways (St/Ps/Sk) — i.e. whose fn has 3 FnOnce generics."""
    cands = []
    for b in tree:
        if not b.is_coroutine:
            continue
        fo = [(s, t) for s, t in b.calls(lambda t: callee_is(t, r"ops::FnOnce::call_once$") and re.match(r"^[A-Z]\w*$", (op_fn(t["func"]) or {}).get("self", "")))]
        if len({op_fn(t["func"])["self"] for _, t in fo}) == 3:
            cands.append((b, fo))
    if len(cands) != 1:
        raise Unverifiable(f"RUN_STEP role: {len(cands)} candidates")
    return cands[0]


def r2(F, R):
    rs, root, tree = roles.attempt_tree(F)
    emit_fns = roles.emitters(F, tree)
    b, fo = run_step_body(F, tree)
    fn = F.parent_body(b)
    # which generic is which: by position in the tuple parameter (started, passed, skipped)
    sends = event_send_calls(F, b, emit_fns)
    by_gen = {}
    for s, t in sends:
        sl = A.slice_back(b, [t["args"][1]])
        gens = {op_fn(ct["func"])["self"] for _, ct in sl.calls if callee_is(ct, r"ops::FnOnce::call_once$")}
        if len(gens) == 1:
            by_gen[gens.pop()] = s
    R.check(len(sends) == 3 and len(by_gen) == 3, "three-emissions", b, "started / passed / skipped", f"{len(sends)} emissions in run_step, {len(by_gen)} classified")
    if len(by_gen) != 3:
        return
    # identify started = the one dominating the other two
    names = list(by_gen)
    st = [g for g in names if all(b.dominates(by_gen[g], by_gen[o]) for o in names if o != g)]
    R.check(len(st) == 1, "started-dominates", b, "", "no step emission dominates the others")
    if len(st) != 1:
        return
    s_started = by_gen[st[0]]
    rest = [g for g in names if g != st[0]]
    everything = [aw.poll_site for aw in A.awaits(b)] + [s for s, _ in b.calls(lambda t: F.callee_body(t) is not None or callee_is(t, r"catch_unwind$"))
                                                         if s != s_started]
    R.check(all(b.dominates(s_started, x) for x in everything if x != s_started and not b.dominates(x, s_started)), "started-before-user-code", s_started,
            "Step::Started is emitted before the step runs", "the step can run (or another event be emitted) before Step::Started")
    # return aggregates
    rets = [(s, stt) for s, stt in b.assigns(lambda stt: stt["pl"]["l"] == 0 and not stt["pl"]["p"] and stt["rv"]["k"] == "agg")]
    def ret_kind(site, stt):
        rv = stt["rv"]
        if rv["variant"] == "Ok":
            return "Ok"
        sl = A.slice_back(b, rv["ops"])
        vs = [r["variant"] for _, r in sl.aggs if r.get("adt") == "runner::basic::ExecutionFailure"]
        # ... or built by a private constructor of the failure type (`ExecutionFailure::step_panicked(..)`)
        for _, ct in sl.calls:
            cb = F.callee_body(ct, b.crate)
            if cb is not None and re.sub(r"<.*", "", cb.locals[0]) == "runner::basic::ExecutionFailure":
                vs += [stt2["rv"]["variant"] for nb in F.nested(cb) for _, stt2 in nb.assigns(lambda stt2: stt2["rv"]["k"] == "agg" and stt2["rv"].get("adt") == "runner::basic::ExecutionFailure")]
        return "Err(" + "|".join(sorted(set(vs))) + ")"
    rk = {s: ret_kind(s, stt) for s, stt in rets}
    R.check(sorted(rk.values()) == ["Err(StepPanicked)", "Err(StepSkipped)", "Ok"], "three-outcomes", b, f"{sorted(rk.values())}",
            f"run_step returns {sorted(rk.values())}; expected Ok, Err(StepSkipped), Err(StepPanicked)")
    pairing = {}
    for g in rest:
        reach = [k for s, k in rk.items() if b.site_reaches(by_gen[g], s, stop=[by_gen[o] for o in rest if o != g])]
        pairing[g] = sorted(reach)
    oks = [g for g in rest if pairing[g] == ["Ok"]]
    sks = [g for g in rest if pairing[g] == ["Err(StepSkipped)"]]
    R.check(len(oks) == 1 and len(sks) == 1, "emission-outcome-pairing", b, f"{pairing}", f"emission/outcome pairing is {pairing}; expected one emission -> Ok and one -> Err(StepSkipped)")
    panic_ret = [s for s, k in rk.items() if k == "Err(StepPanicked)"]
    for s in panic_ret:
        R.check(not any(b.site_reaches(by_gen[g], s) for g in rest), "failed-emits-nothing-here", s, "the failure event is deferred",
                "a passed/skipped event can be emitted on the path that returns StepPanicked")
    # exactly one of them per path: passed and skipped are mutually unreachable
    if len(rest) == 2:
        a, c = by_gen[rest[0]], by_gen[rest[1]]
        R.check(not b.site_reaches(a, c) and not b.site_reaches(c, a), "at-most-one-result-event", a, "", "both a passed and a skipped event can be emitted for one step")
    # position agreement with the constructor triples: parameter tuple order (started, passed, skipped)
    R.floor(7)
    return st[0], oks[0] if oks else None, sks[0] if sks else None


def r3(F, R):
    rs, root, tree = roles.attempt_tree(F)
    emit_fns = roles.emitters(F, tree)
    # EMIT_FAILED := Executor fn taking an ExecutionFailure by value and emitting
    cands = [b for b in tree if b.kind == "AssocFn" and any(re.match(r"^runner::basic::ExecutionFailure<", ty) for ty in b.locals[1:b.arg_count + 1])
             and event_send_calls(F, b, emit_fns)]
    if len(cands) != 1:
        raise Unverifiable(f"EMIT_FAILED role: {len(cands)}")
    ef = cands[0]
    # decided on the routine's deep path table (deep.py): per failure kind, which event is handed to the emitter
    from . import deep as D
    emit_names = {F.bodies[k].name for k in emit_fns}
    dpaths = D.Deep(F, ef, opaque="^(" + "|".join(re.escape(n) for n in sorted(emit_names)) + ")$", max_paths=400).run()
    if not dpaths or any(p.cut for p in dpaths):
        raise Unverifiable("EMIT_FAILED: empty path table or a loop")
    efa = {v["name"] for v in F.adts[("cucumber", "runner::basic::ExecutionFailure")]["variants"]}
    table = {}
    for p in dpaths:
        var = None
        bg = None
        for a, o in p.conds:
            if a[0] == "discr" and isinstance(o, str) and set(o.split("|")) <= efa:
                var = o
            elif isinstance(o, bool) and D.mentions(a, lambda x: x[0] == "field" and isinstance(x[1], tuple) and x[1][0] == "as" and x[1][2] == "StepPanicked"):
                bg = "true" if o else "false"
        tags = set()
        n_sends = 0
        for e in p.effects:
            if e[0] == "call" and e[1] in emit_names:
                n_sends += 1
                for x in D.subterms(e[2]):
                    if x[0] == "variant" and len(x) == 4 and re.match(r"^event::(Hook|Step|Scenario|HookType)$", x[1]):
                        tags.add(f"{x[1]}::{x[2]}" if x[1] != "event::HookType" else f"HookType::{x[2]}")
        key = (var, bg)
        if key in table and table[key] != (n_sends, tags):
            table[key] = (-1, table[key][1] | tags)  # two paths of one arm disagree
        else:
            table[key] = (n_sends, tags)
    def has(key, n, *need):
        v = table.get(key)
        return v is not None and v[0] == n and all(any(x.endswith(nd) for x in v[1]) for nd in need)
    R.check(has(("StepSkipped", None), 0), "skipped-emits-nothing", ef, "", f"StepSkipped arm: {table.get(('StepSkipped', None))}")
    R.check(has(("BeforeHookPanicked", None), 1, "Hook::Failed", "HookType::Before") and not any(x.endswith("HookType::After") for x in table.get(("BeforeHookPanicked", None), (0, set()))[1]),
            "before-hook-failure-event", ef, "BeforeHookPanicked -> Hook::Failed(Before)", f"BeforeHookPanicked arm: {table.get(('BeforeHookPanicked', None))}")
    R.check(has(("StepPanicked", "true"), 1, "Step::Failed", "Scenario::Background") and not any(x.endswith("Scenario::Step") for x in table.get(("StepPanicked", "true"), (0, set()))[1]),
            "background-step-failure-event", ef, "StepPanicked{bg} -> Background(Step::Failed)", f"StepPanicked/is_background arm: {table.get(('StepPanicked', 'true'))}")
    R.check(has(("StepPanicked", "false"), 1, "Step::Failed", "Scenario::Step") and not any(x.endswith("Scenario::Background") for x in table.get(("StepPanicked", "false"), (0, set()))[1]),
            "step-failure-event", ef, "StepPanicked{!bg} -> Step(Step::Failed)", f"StepPanicked/!is_background arm: {table.get(('StepPanicked', 'false'))}")
    R.check(len(table) == 4, "failure-arms", ef, "4 arms", f"{len(table)} paths: {sorted(map(str, table))}")
    # called exactly when the result is Err, in the attempt body
    callers = [(b, s, t) for b in tree for s, t in b.calls() if F.callee_body(t) is ef]
    R.check(len(callers) == 1, "emit-failed-single-call", ef, "", f"{len(callers)} callers")
    if len(callers) == 1:
        b, s, t = callers[0]
        ok = False
        for g in A.guards_of(b, s):
            d = g.cond_def()
            if d and d[0] == "discr" and g.variants() == {"Some"}:
                sl = A.slice_back(b, [{"k": "copy", "pl": d[1]}])
                if sl.has_call(r"Result::<.*>::err$"):
                    ok = True
        R.check(ok, "emit-failed-iff-err", s, "if let Some(e) = result.err()", "emit_failed_events is not called exactly when the attempt's result is Err")
        # is_background of StepPanicked comes from run_step's parameter
    R.floor(6)


def r4(F, R):
    rs, root, tree = roles.attempt_tree(F)
    b_step, fo = run_step_body(F, tree)
    step_fn = F.parent_body(b_step)
    # the async block holding the three folds
    folds_by_body = {}
    for b in tree:
        fs = [(s, t) for s, t in b.calls(lambda t: callee_is(t, r"TryStreamExt::try_fold$"))]
        if fs:
            folds_by_body[b.key] = (b, fs)
    if not folds_by_body:
        return _r4_loops(F, R, rs, tree, step_fn)
    if len(folds_by_body) != 1:
        raise Unverifiable(f"body with try_fold calls: {len(folds_by_body)}")
    b, folds = list(folds_by_body.values())[0]
    R.check(len(folds) == 3, "three-folds", b, "", f"{len(folds)} try_fold calls")
    if len(folds) != 3:
        return
    # order by dominance
    folds.sort(key=lambda x: sum(1 for y in folds if b.dominates(y[0], x[0])))
    want_src = [("gherkin::Feature", "background"), ("gherkin::Rule", "background"), ("gherkin::Scenario", "steps")]
    want_bg = [1, 1, 0]
    prev_await = None
    aws = A.awaits(b)
    consts_by_fold = []
    for i, (s, t) in enumerate(folds):
        src = A.slice_back(b, [t["args"][0]])
        fields = src.fields
        # fields read inside closures building the iterator
        for _, rv in src.aggs:
            if rv.get("agg") == "closure":
                for nb in F.nested(F.body(rv["def"])):
                    for _, st in nb.assigns():
                        for pl in A.rvalue_places(st["rv"]):
                            fields |= set(place_fields(pl))
        ok_src = want_src[i] in fields and not any(w in fields for j, w in enumerate(want_src) if j > i and w != want_src[i] and w[0] != want_src[i][0])
        if i == 1:
            ok_src = want_src[1] in fields
        if i == 2:
            ok_src = want_src[2] in fields and ("gherkin::Rule", "background") not in fields and ("gherkin::Feature", "background") not in fields
        if i == 0:
            ok_src = want_src[0] in fields and ("gherkin::Scenario", "steps") not in fields and ("gherkin::Rule", "background") not in fields
        R.check(ok_src, f"fold{i + 1}/source", s, f"fold {i + 1} iterates {want_src[i][0]}.{want_src[i][1]}",
                f"fold {i + 1} does not iterate {want_src[i][0]}.{want_src[i][1]} (reads {sorted(n for o, n in fields if o.startswith('gherkin::'))})")
        # adaptors
        bad = sorted({callee_path(ct).rsplit("::", 1)[-1] for _, ct in src.calls if (op_fn(ct["func"]) or {}).get("trait", "").endswith(("Iterator", "Itertools"))
                      and callee_path(ct).rsplit("::", 1)[-1] in LOSSY})
        R.check(not bad, f"fold{i + 1}/order-preserving", s, "", f"fold {i + 1} iterates through {bad}")
        # init accumulator = previous fold's awaited result
        init = A.slice_back(b, [t["args"][1]])
        if i == 0:
            first_aw = [aw for aw in aws if "ExecutionFailure" in aw.fut_type and b.dominates(aw.poll_site, s)]
            ok_init = any(aw.poll_site in init.sites for aw in first_aw)
            R.check(ok_init, "fold1/seeded-by-before-hook", s, "fold 1 starts from the before hook's world", "fold 1 is not seeded with the before hook's result")
        else:
            ok_init = prev_await is not None and prev_await.poll_site in init.sites
            R.check(ok_init, f"fold{i + 1}/seeded-by-previous", s, "", f"fold {i + 1} is not seeded with the result of fold {i}")
        # the await of this fold and its `?`
        my_aw = [aw for aw in aws if aw.src_op is not None and s in A.slice_back(b, [aw.src_op]).sites]
        prev_await = my_aw[0] if my_aw else None
        if prev_await is not None and i < 2:
            # Err edge leaves without entering the next fold
            nxt = folds[i + 1][0]
            vcn = A.vc_at(b, nxt)
            res_keys = [k for k, v in vcn.items() if v == frozenset(["Continue"]) or v == frozenset(["Ok"])]
            R.check(bool(res_keys), f"fold{i + 1}/abort-on-err", nxt, "next fold only on Ok (`?`)", f"fold {i + 2} can start although fold {i + 1} returned Err")
        # the closure: run_step(world, step, is_background, triple, …)
        kb = A.closure_of_operand(F, b, t["args"][2])
        ok_k = False
        if kb is not None:
            calls = [(s2, t2) for nb in F.nested(kb) for s2, t2 in nb.calls() if F.callee_body(t2) is step_fn]
            if len(calls) == 1:
                s2, t2 = calls[0]
                nb = s2.body
                bools = [const_int(a) for a in t2["args"] if const_int(a) is not None and a.get("ty") == "bool"]
                R.check(bools == [want_bg[i]], f"fold{i + 1}/is-background", s2, f"is_background = {bool(want_bg[i])}", f"fold {i + 1} passes is_background = {bools}")
                # triple: which upvar
                tup = [a for a in t2["args"] if op_local(a) is not None and nb.locals[op_local(a)].startswith("(")]
                ds = A.deep_slice(F, nb, tup[:1]) if tup else None
                consts_by_fold.append((i, ds))
                ok_k = True
        R.check(ok_k, f"fold{i + 1}/runs-step", s, "", f"fold {i + 1}'s closure does not call run_step exactly once")
    _constructor_triples(F, R, rs)
    R.floor(14)


def _constructor_triples(F, R, rs):
    # constructor triples: in RS, compose(bg_started, bg_passed, bg_skipped) / compose(started, passed, skipped)
    composes = [(s, t) for s, t in rs.calls(lambda t: callee_is(t, r"ops::Fn::call$")) if any((op_fn(o) or {}).get("path", "").startswith("event::Scenario") for o in _tuple_ops(rs, t["args"][1]))]
    trip = []
    for s, t in composes:
        fns = [(op_fn(o) or {}).get("path", "").rsplit("::", 1)[-1] for o in _tuple_ops(rs, t["args"][1])]
        trip.append((s, fns))
    okt = sorted(tuple(f) for _, f in trip) == sorted([("background_step_started", "background_step_passed", "background_step_skipped"), ("step_started", "step_passed", "step_skipped")])
    built = []
    for s, fns in trip:
        tagsets = []
        for nm in fns:
            cb = [x for x in F.crate_bodies() if x.name.startswith("event::Scenario") and x.name.endswith("::" + nm)]
            tagsets.append(A.built_variants(F, cb[0]) if cb else set())
        built.append(tagsets)
    ok_built = False
    if len(built) == 2:
        def kind(ts):
            return ("bg" if any(x.endswith("Scenario::Background") for x in ts) else "") + ("st" if any(x.endswith("Scenario::Step") for x in ts) else "")
        kinds = [[kind(ts) for ts in tr] for tr in built]
        steps = [[sorted(x.rsplit("::", 1)[-1] for x in ts if "event::Step::" in x) for ts in tr] for tr in built]
        ok_built = all(len(set(k)) == 1 for k in kinds) and {kinds[0][0], kinds[1][0]} == {"bg", "st"} and all(s == [["Started"], ["Passed"], ["Skipped"]] for s in steps)
    R.check(ok_built, "constructor-triples", rs, "(started, passed, skipped) triples of one kind each", f"event constructor triples are inconsistent: {trip}")


def _r4_loops(F, R, rs, tree, step_fn):
    """The explicit-loop spelling of the three folds: three `for` loops, each awaiting run_step(world, step, ..)? per element
    and threading the World through a variable.  Same instance keys as the fold form."""
    calls = [(b, s, t) for b in tree for s, t in b.calls() if F.callee_body(t, b.crate) is step_fn]
    bodies = {b.key for b, _, _ in calls}
    if len(bodies) != 1:
        raise Unverifiable(f"run_step is called from {len(bodies)} bodies and there is no try_fold")
    b = calls[0][0]
    cs = [(s, t) for _, s, t in calls]
    R.check(len(cs) == 3, "three-folds", b, "three step loops", f"{len(cs)} run_step call sites")
    if len(cs) != 3:
        return
    cs.sort(key=lambda x: sum(1 for y in cs if y[0] != x[0] and b.site_reaches(y[0], x[0]) and not b.site_reaches(x[0], y[0])))
    want_src = [("gherkin::Feature", "background"), ("gherkin::Rule", "background"), ("gherkin::Scenario", "steps")]
    want_bg = [1, 1, 0]
    aws = A.awaits(b)
    nexts = [(s, t) for s, t in b.calls(lambda t: callee_is(t, r"Iterator::next$"))]
    prev_await = None
    for i, (s, t) in enumerate(cs):
        drv = [(sn, tn) for sn, tn in nexts if s.bb in A.natural_loop(b, sn.bb)]
        drv.sort(key=lambda x: len(A.natural_loop(b, x[0].bb)))
        if not drv:
            R.violation(f"fold{i + 1}/source", s, f"run_step call {i + 1} is not inside a loop over steps")
            continue
        sn, tn = drv[0]
        src = A.slice_back(b, [tn["args"][0]])

        def with_closures(sl):
            fs = set(sl.fields)
            for _, rv in sl.aggs:
                if rv.get("agg") == "closure" and F.body(rv["def"]) is not None:
                    for nb in F.nested(F.body(rv["def"])):
                        for _, st in nb.assigns():
                            for pl in A.rvalue_places(st["rv"]):
                                fs |= set(place_fields(pl))
            return fs
        fields = with_closures(src)
        # what selects the loop (an `if let Some(background) = ..` around it) belongs to its source
        for g in A.guards_of(b, sn):
            if g.discr_local is not None:
                fields |= with_closures(A.slice_back(b, start_locals=[g.discr_local]))
        if i == 0:
            ok_src = want_src[0] in fields and ("gherkin::Scenario", "steps") not in fields and ("gherkin::Rule", "background") not in fields
        elif i == 1:
            ok_src = want_src[1] in fields and ("gherkin::Scenario", "steps") not in fields
        else:
            ok_src = want_src[2] in src.fields and ("gherkin::Rule", "background") not in src.fields and ("gherkin::Feature", "background") not in src.fields
        R.check(ok_src, f"fold{i + 1}/source", s, f"loop {i + 1} iterates {want_src[i][0]}.{want_src[i][1]}",
                f"loop {i + 1} does not iterate {want_src[i][0]}.{want_src[i][1]} (reads {sorted(n for o, n in fields if o.startswith('gherkin::'))})")
        bad = sorted({callee_path(ct).rsplit("::", 1)[-1] for _, ct in src.calls if (op_fn(ct["func"]) or {}).get("trait", "").endswith(("Iterator", "Itertools"))
                      and callee_path(ct).rsplit("::", 1)[-1] in LOSSY})
        R.check(not bad, f"fold{i + 1}/order-preserving", s, "", f"loop {i + 1} iterates through {bad}")
        init = A.slice_back(b, [t["args"][1]], stop_calls=[r"Future::poll$"]) if len(t["args"]) > 1 else None
        if i == 0:
            first_aw = [aw for aw in aws if "ExecutionFailure" in aw.fut_type and b.dominates(aw.poll_site, s)]
            R.check(init is not None and any(aw.poll_site in init.sites for aw in first_aw), "fold1/seeded-by-before-hook", s, "loop 1 starts from the before hook's world",
                    "loop 1 is not seeded with the before hook's result")
        else:
            R.check(init is not None and prev_await is not None and prev_await.poll_site in init.sites, f"fold{i + 1}/seeded-by-previous", s, "",
                    f"loop {i + 1} does not continue with the World of loop {i}")
        my_aw = [aw for aw in aws if aw.src_op is not None and s in A.slice_back(b, [aw.src_op]).sites]
        prev_await = my_aw[0] if my_aw else None
        # `?`: after an Err no further step runs
        ok_abort = False
        if prev_await is not None:
            x, hops = prev_await.ready_bb, 0
            while hops < 12:
                tm = b.blocks[x]["term"]
                if tm["k"] == "switch":
                    g = [gg for gg in A.guards_of(b, Site(b, b.succ[x][0], 0)) if gg.bb == x]
                    d = g[0].cond_def() if g else None
                    if d and d[0] == "discr" and d[2] in ("std::ops::ControlFlow", "std::result::Result"):
                        vm = {n: v for v, n in d[3]}
                        key = "Break" if "Break" in vm else "Err"
                        tg = [tgt for v, tgt in tm["targets"] if v == vm.get(key)]
                        if tg:
                            ok_abort = not any(b.site_reaches(Site(b, tg[0], 0), s2) for s2, _ in cs)
                        break
                    break
                nx = b.succ[x]
                if len(nx) != 1:
                    break
                x, hops = nx[0], hops + 1
        R.check(ok_abort, f"fold{i + 1}/abort-on-err", s, "no step runs after a step returned Err (`?`)", f"after run_step of loop {i + 1} returned Err another step can run")
        # every element runs the step exactly once
        leaves = lambda y: not any(b.site_reaches(Site(b, y, 0), s2) for s2, _ in cs)   # the `?` exit: no step runs afterwards
        R.check(A.for_loop_handles_every_element(b, sn, tn, {s.bb}, exit_ok=leaves), f"fold{i + 1}/runs-step", s, "every element of the loop runs run_step",
                f"loop {i + 1} can skip an element (or leave early) without calling run_step")
        bools = [const_int(a) for a in t["args"] if const_int(a) is not None and a.get("ty") == "bool"]
        R.check(bools == [want_bg[i]], f"fold{i + 1}/is-background", s, f"is_background = {bool(want_bg[i])}", f"loop {i + 1} passes is_background = {bools}")
    _constructor_triples(F, R, rs)
    R.floor(14)


def _tuple_ops(body, op):
    l = op_local(op)
    if l is None:
        return []
    sd = body.single_def(l)
    if sd and sd[1] == "assign" and sd[2]["rv"]["k"] == "agg" and sd[2]["rv"].get("agg") == "tuple":
        out = []
        for o in sd[2]["rv"]["ops"]:
            if op_fn(o):
                out.append(o)
            else:
                ll = op_local(o)
                sdd = body.single_def(ll) if ll is not None else None
                if sdd and sdd[1] == "assign" and sdd[2]["rv"]["k"] in ("cast", "use"):
                    out.append(sdd[2]["rv"]["op"])
                else:
                    out.append(o)
        return out
    return []


def before_table_clauses(F, R, tree):
    """Before-hook events on the deep path table of the routine that creates the World for the hook (attempt.BeforeTable): on every
    path on which a hook is set, `Hook::Started(Before)` is sent exactly once and before anything of the user's runs (World::new, the
    hook — also when one of them then fails or panics); `Hook::Passed(Before)` is sent exactly when World creation succeeded and the
    hook returned without panicking, after it; without a hook nothing is sent and nothing runs."""
    from . import attempt as AT
    from . import deep as D
    wn_roots = {}
    for b in tree:
        for s, t in b.calls(lambda t: callee_is(t, r"World::new$") or (callee_path(t) or "").endswith("as World>::new")):
            for r_, _cs in roles.routines_of(F, b):
                wn_roots[r_.key] = r_
    b_step, fo = run_step_body(F, tree)
    step_family = {x.key for x in roles.family(F, F.root_fn(b_step))}
    others = [r for r in wn_roots.values() if r.key not in step_family]
    if len(others) != 1:
        raise Unverifiable(f"before-hook routine (the World-creating routine that is not the step routine): {len(others)}")
    co = roles.coroutine_of(F, others[0])
    BT = AT.BeforeTable(F, co)

    def hook_event(e):
        """'Started' / 'Passed' / 'Failed' if effect e sends a Before-hook event."""
        if e[0] != "call" or not re.search(r"unbounded_send$|send_event(_with_meta)?$|::send$", e[1]):
            return None
        hv = [x for a in e[2] for x in D.subterms(a) if D.is_variant(x, "event::Hook")]
        ht = [x for a in e[2] for x in D.subterms(a) if D.is_variant(x, "event::HookType")]
        if hv and (not ht or any(x[2] == "Before" for x in ht)):
            return hv[0][2]
        return None
    X = None
    for p in BT.paths:
        for e in p.effects:
            if AT.is_indirect(e):
                for x in D.subterms(e[2][0]):
                    if x[0] == "as" and x[2] == "Some":
                        X = x[1]
    if X is None:
        raise Unverifiable("before-hook routine: no path calls the hook")
    bad_started = bad_passed = bad_none = None
    n_set = 0
    for p in BT.paths:
        hook_set = [out for a, out in p.conds if a == ("discr", X)]
        evs = [(i, hook_event(e)) for i, e in enumerate(p.effects) if hook_event(e)]
        user = [i for i, e in enumerate(p.effects) if AT.is_world_new(e) or AT.is_indirect(e) or e[0] == "caught-panic"]
        if hook_set != ["Some"]:
            if evs or user:
                bad_none = "events are sent or user code runs although no before hook is set"
            continue
        n_set += 1
        st = [i for i, k in evs if k == "Started"]
        ps = [i for i, k in evs if k == "Passed"]
        if len(st) != 1 or (user and st[0] > user[0]) or (evs and evs[0][0] != st[0]):
            bad_started = f"{len(st)} Hook::Started(Before) on a path with a hook set" if len(st) != 1 else "World::new / the hook can run before Hook::Started(Before) is sent"
        hook_done = [i for i, e in enumerate(p.effects) if AT.is_indirect(e)]
        panicked = any(e[0] == "caught-panic" for e in p.effects)
        ok_ret = D.is_variant(p.ret, "std::result::Result", "Ok")
        if ok_ret and hook_done and not panicked:
            if len(ps) != 1 or ps[0] < hook_done[-1]:
                bad_passed = "a before hook that returned normally is not followed by exactly one Hook::Passed(Before)"
        elif ps:
            bad_passed = "Hook::Passed(Before) is sent although World creation or the hook failed"
    R.check(n_set >= 2 and bad_started is None, "before/table/started-first-on-every-path", co, "Started(Before) once, before World::new and the hook, on every path with a hook",
            "before hook: " + (bad_started or "no path with a hook set"))
    R.check(bad_passed is None, "before/table/passed-iff-hook-returned", co, "Passed(Before) exactly when World creation and the hook succeeded", "before hook: " + (bad_passed or ""))
    R.check(bad_none is None, "before/table/nothing-without-hook", co, "no hook: no events, no user code", "before hook: " + (bad_none or ""))


def r5(F, R):
    rs, root, tree = roles.attempt_tree(F)
    emit_fns = roles.emitters(F, tree)
    # BEFORE := coroutine emitting Hook::Started/Passed with HookType::Before ; AFTER_EMIT := fn emitting with HookType::After
    def hook_sends(b):
        out = []
        for s, t in event_send_calls(F, b, emit_fns):
            tags = ctor_tags(F, b, t["args"][1])
            hk = {rv["variant"] for _, rv in A.slice_back(b, [t["args"][1]]).aggs if rv.get("adt") == "event::HookType"}
            hv = sorted(x.rsplit("::", 1)[-1] for x in tags if "event::Hook::" in x)
            if hv:
                out.append((s, t, hv, hk))
        return out
    before_table_clauses(F, R, tree)
    before = [(b, hook_sends(b)) for b in tree if b.is_coroutine and any("Before" in hk for _, _, _, hk in hook_sends(b))]
    if len(before) != 1:
        # the flow-based clauses below speak about one routine sending both events; the table clauses above have decided the
        # placement of the events on every path whatever the spelling
        before = []
    bb, hs = before[0] if before else (None, [])
    started = [(s, t) for s, t, hv, hk in hs if hv == ["Started"]]
    passed = [(s, t) for s, t, hv, hk in hs if hv == ["Passed"]]
    if bb is not None:
        R.check(len(started) == 1 and len(passed) == 1 and len(hs) == 2, "before/emissions", bb, "Started and Passed only (Failed is deferred)", f"before-hook emissions: {[hv for _, _, hv, _ in hs]}")
    if len(started) == 1:
        s_s = started[0][0]
        vc = A.vc_at(bb, s_s)
        R.check(any(v == frozenset(["Some"]) for v in vc.values()), "before/started-iff-hook-set", s_s, "Started only if a before hook is set", "Hook::Started(Before) is emitted although no hook may be set")
        aws = [aw for aw in A.awaits(bb)]
        R.check(all(bb.dominates(s_s, aw.poll_site) for aw in aws), "before/started-before-hook-runs", s_s, "Started precedes World creation and the hook", "the before hook (or World::new) can run before Hook::Started(Before) is emitted")
    if len(passed) == 1:
        s_p = passed[0][0]
        vc = A.vc_at(bb, s_p)
        R.check(any(v == frozenset(["Ok"]) for v in vc.values()), "before/passed-iff-ok", s_p, "Passed only on Ok", "Hook::Passed(Before) can be emitted although the hook failed")
    # after hook: run_after_hook exactly once, before the deferred emissions
    body = None
    for b in tree:
        if b.is_coroutine and any(F.callee_body(t) is not None and any(re.match(r"^runner::basic::ExecutionFailure<", ty) for ty in F.callee_body(t).locals[1:F.callee_body(t).arg_count + 1])
                                  and F.callee_body(t).kind == "AssocFn" and F.callee_body(t).locals[0] == "()" for _, t in b.calls()):
            body = b
    if body is None:
        raise Unverifiable("attempt body (caller of emit_failed_events)")
    after_run = [(s, t) for s, t in body.calls() if roles.async_callee(F, body, t) is not None and "AfterHookEventsMeta" in body.locals[t["dest"]["l"]]]
    emit_failed = [(s, t) for s, t in body.calls() if F.callee_body(t) is not None and F.callee_body(t).kind == "AssocFn" and F.callee_body(t).locals[0] == "()" and
                   any(re.match(r"^runner::basic::ExecutionFailure<", ty) for ty in F.callee_body(t).locals[1:F.callee_body(t).arg_count + 1])]
    emit_after = [(s, t) for s, t in body.calls() if F.callee_body(t) is not None and F.callee_body(t).key in {b.key for b in tree} and
                  any("AfterHookEventsMeta" in ty for ty in F.callee_body(t).locals[1:F.callee_body(t).arg_count + 1]) and F.callee_body(t).locals[0] == "()"]
    R.check(len(after_run) == 1 and len(emit_failed) == 1 and len(emit_after) == 1, "after/sites", body, "run_after_hook, emit_failed_events, emit_after_hook_events once each",
            f"run_after_hook x{len(after_run)}, emit_failed x{len(emit_failed)}, emit_after x{len(emit_after)}")
    if len(after_run) == 1 and len(emit_failed) == 1 and len(emit_after) == 1:
        s_r, s_f, s_a = after_run[0][0], emit_failed[0][0], emit_after[0][0]
        R.check(not body.entry_reaches_return(stop=[s_r]) and not body.in_cycle(s_r), "after/runs-once-on-every-path", s_r, "after hook runs exactly once on every path",
                "a path through the attempt skips run_after_hook (or it can run twice)")
        R.check(body.dominates(s_r, s_f) and body.dominates(s_r, s_a), "after/runs-before-deferred-events", s_r, "", "deferred events can be emitted before the after hook ran")
        R.check(not body.site_reaches(s_a, s_f) and body.site_reaches(s_f, s_a), "failure-before-after-hook-events", s_f, "failure event precedes after-hook events",
                "after-hook events can be emitted before the step/hook failure event")
        R.check(not body.entry_reaches_return(stop=[s_a]), "after/events-on-every-path", s_a, "", "a path skips emit_after_hook_events")
        # the hook gets the true finish reason and the world
    # emit_after_hook_events
    ea = F.callee_body(emit_after[0][1]) if emit_after else None
    if ea is not None:
        hs = hook_sends(ea)
        seq = [(s, hv) for s, t, hv, hk in hs]
        okk = {tuple(hv) for _, hv in seq} == {("Started",), ("Failed", "Passed")} or {tuple(hv) for _, hv in seq} == {("Started",), ("Failed",), ("Passed",)}
        R.check(okk and all("After" in hk and "Before" not in hk for _, _, _, hk in hs), "after/emissions", ea, "Started(After) then Passed|Failed(After)", f"after-hook emissions: {[(hv, sorted(hk)) for _, _, hv, hk in hs]}")
        st = [s for s, hv in seq if hv == ["Started"]]
        res = [s for s, hv in seq if hv != ["Started"]]
        if st and res:
            R.check(all(ea.dominates(st[0], x) for x in res), "after/started-first", st[0], "", "After-hook result can precede Started")
            vc = A.vc_at(ea, st[0])
            R.check(any(v == frozenset(["Some"]) for v in vc.values()), "after/only-if-hook-ran", st[0], "events only if meta is Some", "after-hook events emitted although no hook ran")
            R.check(not ea.return_reachable_from(st[0], stop=res), "after/result-always-follows", st[0], "", "After Started without a result event")
    R.floor(12)


def r6(F, R):
    rs, root, tree = roles.attempt_tree(F)
    wr = [b for b in F.crate_bodies() if b.name.startswith("event::Scenario") and b.name.endswith("::with_retries")]
    if len(wr) != 1:
        raise Unverifiable("with_retries")
    n = 0
    # retry_num in RS = retries.map(|r| r.retries) of the parameter
    rsl_ok = False
    for b in tree:
        for s, t in b.calls():
            if F.callee_body(t) is not wr[0]:
                continue
            n += 1
            ds = A.deep_slice(F, b, [t["args"][1]])
            consts = [c for c in ds.consts if c["ty"].startswith("std::option::Option<event::Retries>") or "Retries" in c["ty"]]
            nones = [rv for _, rv in ds.aggs if rv.get("adt") == "std::option::Option" and rv["variant"] == "None"]
            from_param = bool(ds.root_params)
            inst = f"{F.root_fn(b).short.rsplit('::', 1)[-1]}@{_nth(b, s)}"
            R.check(from_param and not consts and not nones, f"retries-arg/{inst}", s, "retry counter derives from the attempt's parameter",
                    "an event of the attempt carries a retry counter that is not the attempt's own (constant or None)")
    R.check(n >= 10, "with-retries-sites", None, f"{n} with_retries call sites", f"only {n} with_retries call sites")
    # Executor methods receive retry_num from RS: each call passing Option<Retries> passes RS's retry_num
    R.floor(10)


def _nth(b, s):
    sites = sorted([x for x, _ in b.calls()], key=lambda x: (x.bb,))
    return f"{b.short.count('{closure')}-{[i for i, x in enumerate(sites) if x == s][0]}"


def r7(F, R):
    """Outcome table of the step block (lookup -> lazy World -> step fn), on its deep path table (attempt.py)."""
    from . import attempt as AT
    from . import deep as D
    T = AT.StepTable(F)
    b = T.body
    kinds = set()
    for r in T.rows:
        p = r["p"]
        se = r["step_error"]
        if r["find"] == "Err":
            ok = se is not None and se[2] == "AmbiguousMatch" and D.mentions(se, lambda x: x == ("field", ("as", r["find_term"], "Err"), 0)) and not r["world_new"] and not r["step_call"]
            R.check(ok, "ambiguous-is-failed-ambiguous", b, "Err(e) => StepError::AmbiguousMatch(e)", "an ambiguous match is not reported as StepError::AmbiguousMatch carrying the error (or the step / World::new still runs)")
            continue
        if r["find"] == "Ok" and r["found"] == "None":
            ok = r["outcome"] == "skipped" and not r["world_new"] and not r["step_call"]
            R.check(ok, "no-match-is-skipped", b, "Ok(None) => Ok((None, None, world)) (skipped, no World created)", "a step without a matching definition is not routed to the skipped outcome")
            continue
        if r["find"] != "Ok" or r["found"] != "Some":
            R.violation("lookup-decides", b, "a path of the step block does not branch on the result of Collection::find")
            continue
        failure = None
        if r["world_new"] and r["world_err"]:
            failure = "world-err"
        elif r["panic_src"] == ["world"]:
            failure = "world-panic"
        elif r["panic_src"] == ["callback"]:
            failure = "step-panic"
        elif r["panic_src"]:
            failure = "unclassified-panic"
        if failure:
            kinds.add(failure)
            R.check(se is not None and se[2] == "Panic", f"failure-is-panic/{failure}", b, f"{failure} => StepError::Panic", f"{failure} is reported as {se[2] if se else 'success'} instead of StepError::Panic")
        else:
            R.check(r["ret"] == "Ok" and bool(r["step_call"]), "panic-only-on-err", b, "no failure => Ok after calling the step fn",
                    f"without any failure the step block returns {r['ret']}{' ' + se[2] if se else ''} (StepError::Panic on a non-error path, or the step fn is not called)")
    R.check(kinds == {"world-err", "world-panic", "step-panic"}, "panic-sites", b, "World Err, World panic, step panic", f"failure kinds seen: {sorted(kinds)} (expected World Err, World panic, step panic)")
    R.floor(6)


def _idx(lst, s):
    return [i for i, (x, _) in enumerate(lst) if x == s][0]


def r8(F, R):
    rs, root, tree = roles.attempt_tree(F)
    emit_fns = roles.emitters(F, tree)
    fields = set()
    for k, b in emit_fns.items():
        for s, t in roles.sends(F, [b]):
            sl = A.slice_back(b, [t["args"][0]])
            fs = {(o, n) for o, n in sl.fields if o == (root.impl or {}).get("self_adt")}
            fields |= fs
            R.check(len(fs) == 1, f"send-through-executor-channel/{b.short.rsplit('::', 1)[-1]}", s, f"sends on {sorted(n for _, n in fs)}", f"{b.short} sends on {sorted(fs)}")
    R.check(len(fields) == 1, "single-event-channel", None, f"all emissions use field {sorted(n for _, n in fields)}", f"emissions use different channels: {sorted(fields)}")
    # nobody else in the attempt tree sends events directly
    direct = [(b, s) for b in tree for s, t in roles.sends(F, [b]) if b.key not in emit_fns and "event::Event" in (op_fn(t["func"]) or {}).get("full", "")]
    R.check(not direct, "no-direct-sends", None, "", f"direct sends outside the emitting helpers: {[(b.short, s.loc) for b, s in direct]}")
    R.floor(3)   # >= 1 send site + the two global clauses (how many helpers hold a raw `unbounded_send` is a matter of style)


def r9(F, R):
    """The documented in-place transformation of the attempt's events (`fail_on_skipped`) keeps each event at its step:
    a skipped background step becomes a failed *background* step (C13.R1's table; a necessary condition of the sequence
    `Started(step) -> exactly one result of that step` as writers behind it see it)."""
    from . import c13
    c13.r1(F, R)


def r10(F, R):
    """Event values are cloned faithfully (Tee / Repeat hand clones to their consumers): per variant the same variant,
    every field from the same field."""
    n = roles.check_clone_faithful_table(F, R, "event::", "event-clone-faithful")
    R.floor(10)


def r11(F, R):
    """"... then Finished, with no event of that attempt after it": with the tracing integration, a finished attempt must be
    de-registered from the log collector when its completion is consumed (C20.R3's table rule), else later logs become
    Log events of the finished attempt."""
    if not any(b.name.endswith("Collector::finish_scenario") for b in F.crate_bodies()):
        R.ok("deregister-every-completion", None, "no tracing collector in this configuration")
        return
    from . import c20
    c20.deregistration(F, R)


def r12(F, R):
    """"a panicking one (or one whose World cannot be created) is Failed with the payload": the caught payload reaches the failure
    event converted, never re-wrapped as an opaque value, at every site of the attempt routine (= C10.R2)."""
    from . import c10
    c10.r2(F, R)


def r13(F, R):
    """"A step with no matching definition is Skipped, one matching several definitions is Failed as ambiguous": the look-up
    answers `Err(ambiguous)` iff more than one definition of the collection matches, every definition being a candidate (= C17.R2)."""
    from . import c17
    c17.r2(F, R)


RULES = [("R13", r13, None), ("R12", r12, None), ("R1", r1, None), ("R2", lambda F, R: r2(F, R) and None, None), ("R3", r3, None), ("R4", r4, None), ("R5", r5, None), ("R6", r6, None),
         ("R7", r7, None), ("R8", r8, None), ("R9", r9, None), ("R10", r10, None), ("R11", r11, None)]
