"""C11 — Normalize re-orders a concurrent event stream into a sequential one (structural clauses only; DESIGN §4 C11)."""
import re

from . import analysis as A
from . import roles
from . import writers as W
from .mir import Site, Unverifiable, callee_is, callee_path, const_int, op_fn, op_local, op_place, place_fields, place_str

CFGS = {"quick": ["default", "all"], "thorough": ["default", "all", "nodefault"]}

EXPLANATION = """
The property itself (the output is a per-feature contiguous, order-preserving permutation of any contract-abiding
interleaving) quantifies over event histories and is NOT decided here.  Decided are structural clauses of
writer::normalize, each a necessary condition (breaking it loses, duplicates or re-orders an event for some stream):
(R1) dispatch table of Normalize::handle_event: per leaf event variant the first action on every path is the expected
one — Err / Cucumber::Started / ParsingFinished -> forwarded at once to the inner writer with the original event;
Cucumber::Finished -> Queue::finished; Feature::Started -> new_feature; Feature::Scenario -> insert_scenario_event
with rule None; Feature::Finished -> feature_finished; Rule::Started -> new_rule; Rule::Scenario ->
insert_scenario_event with rule Some(_); Rule::Finished -> rule_finished — the table covers every variant of the four
event enums, and no path reaches the drain loop or `return` without an action (no event is dropped);
(R2) pass-through: the early forward is guarded by is_finished_and_emitted() == true, passes the original event and
returns without touching the queue; (R3) drain and run-Finished-last: the only queue consumption is
`while let Some(k) = queue.emit(..) { queue.remove(&k) }` with the removed key being the emitted one, and the inner
writer receives Cucumber::Finished only in a block dominated by the loop's None exit and by take_to_emit() == Some;
(R4) finished-state machine: take_to_emit returns Some only from FinishedButNotEmitted and leaves
FinishedAndEmitted (so a Finished is emitted at most once), is_finished_and_emitted is true only for
FinishedAndEmitted, Queue::finished stores FinishedButNotEmitted; (R5) FIFO discipline: every Emitter::current_item
takes the FRONT of its container (iter/iter_mut().next() of the insertion-ordered map, Vec::remove(0)), scenario events
are appended with Vec::push, new keys are inserted with insert / entry().or_insert_with (append at the back), and
Queue::remove removes by the key it is given; (R6) nested emitters: each keyed Emitter::emit forwards its
`Started` only from `initial.take()` (once), forwards its `Finished` only from take_to_emit() after its drain loop,
and returns Some(key) — "remove me" — only on the path that forwarded Finished; the scenario emitter returns Some only
when the event it just forwarded is Scenario::Finished; (R7) routing: a scenario event is pushed to the buffer addressed
by its own (feature, rule?, scenario, retries): the run-level insert looks the feature up by the event's feature and
passes rule / scenario / event down unchanged, the feature-level insert pushes the given event in both branches, the
branch being selected by `rule` and the buffer key containing scenario and retries (and the rule in the rule branch).
Added after the second seeded round: (R8) Clone of Normalize and of its queue types is field for field (path tables).
"""
DECLINED = ["the permutation/contiguity/order statement over arbitrary contract-abiding interleavings (runtime histories)",
            "behaviour of linked_hash_map / Vec themselves"]
ASSUMPTIONS = ["linked_hash_map::LinkedHashMap iterates in insertion order and insert/entry of a new key appends at the back",
               "Vec::remove(0) returns the oldest pushed element"]

NORM = "writer::normalize::Normalize"
QUEUE_ACTIONS = ("finished", "new_feature", "feature_finished", "new_rule", "rule_finished", "insert_scenario_event")

EXPECTED = {
    ("std::result::Result", "Err"): "forward",
    ("event::Cucumber", "Started"): "forward",
    ("event::Cucumber", "ParsingFinished"): "forward",
    ("event::Cucumber", "Finished"): "finished",
    ("event::Feature", "Started"): "new_feature",
    ("event::Feature", "Scenario"): "insert_scenario_event[rule=None]",
    ("event::Feature", "Finished"): "feature_finished",
    ("event::Rule", "Started"): "new_rule",
    ("event::Rule", "Scenario"): "insert_scenario_event[rule=Some]",
    ("event::Rule", "Finished"): "rule_finished",
}
NON_LEAF = {("std::result::Result", "Ok"), ("event::Cucumber", "Feature"), ("event::Feature", "Rule")}


def handler(F):
    roots = [b for a, b in roles.trait_impl_methods(F, r"^writer::Writer$", "handle_event") if a == NORM]
    if len(roots) != 1:
        raise Unverifiable(f"Writer::handle_event impl for {NORM}: {len(roots)}")
    co = roles.coroutine_of(F, roots[0])
    if co is None:
        raise Unverifiable("Normalize::handle_event has no coroutine body")
    return co


def queue_action(t):
    p = callee_path(t) or ""
    m = re.search(r"^writer::normalize::Queue::<.*>::(\w+)$", p)
    if m and m.group(1) in QUEUE_ACTIONS:
        return m.group(1)
    return None


def is_inner_forward(t):
    f = op_fn(t["func"])
    return bool(f and f["path"].endswith("Writer::handle_event") and f.get("trait", "").endswith("writer::Writer") and re.match(r"^[A-Z]\w*$", f.get("self", "")))


def is_emit(t):
    return callee_is(t, r"writer::normalize::Emitter::emit$") or callee_is(t, r"Emitter<.*>>::emit")


def action_sites(co):
    """block -> action label for the first-action analysis."""
    out = {}
    for s, t in co.calls():
        qa = queue_action(t)
        if qa:
            if qa == "insert_scenario_event":
                qa += "[rule=" + rule_arg_kind(co, t) + "]"
            out[s.bb] = (qa, s, t)
        elif is_inner_forward(t):
            out[s.bb] = ("forward", s, t)
    return out


def rule_arg_kind(co, t):
    """Shape of the `rule` argument (2nd after self) of insert_scenario_event: None / Some / ?"""
    cands = [op_local(a) for a in t["args"] if op_local(a) is not None and re.match(r"^std::option::Option<event::Source<gherkin::Rule>>$", co.locals[op_local(a)])]
    if len(cands) != 1:
        return "?"
    l = cands[0]
    seen = 0
    while l is not None and seen < 6:
        seen += 1
        sd = co.single_def(l)
        if sd is None or sd[1] != "assign":
            return "?"
        rv = sd[2]["rv"]
        if rv["k"] == "agg" and rv.get("adt", "").endswith("option::Option"):
            return str(rv["variant"])
        if rv["k"] == "use":
            l = op_local(rv["op"])
            continue
        return "?"
    return "?"


def variant_edges(co):
    """(adt, variant) -> [(switch bb, target bb)] over all discriminant switches of the body."""
    out = {}
    for bb in sorted(co.live_blocks):
        t = co.blocks[bb]["term"]
        if t["k"] != "switch":
            continue
        l = op_local(t["discr"])
        if l is None:
            continue
        d = A.local_def_desc(co, l)
        if d[0] != "discr":
            continue
        vmap = {v: n for v, n in d[3]}
        listed = {v for v, _ in t["targets"]}
        for v, tg in t["targets"]:
            if v in vmap:
                out.setdefault((d[2], vmap[v]), []).append((bb, tg))
        for v, n in vmap.items():
            if v not in listed and not (co.blocks[t["otherwise"]]["term"]["k"] == "unreachable" and not co.blocks[t["otherwise"]]["stmts"]):
                out.setdefault((d[2], n), []).append((bb, t["otherwise"]))
    return out


def first_actions(co, start, acts):
    """Labels of the first action blocks reachable from `start`, and whether return / an emit call is reachable
    without passing an action."""
    seen, work, labels, leak = set(), [start], set(), None
    while work:
        x = work.pop()
        if x in seen:
            continue
        seen.add(x)
        if x in acts:
            labels.add(acts[x][0])
            continue
        t = co.blocks[x]["term"]
        if t["k"] == "return":
            leak = leak or ("return", x)
        if t["k"] == "call" and is_emit(t):
            leak = leak or ("drain loop", x)
            continue
        work.extend(co.succ[x])
    return labels, leak


OPQ = (r"normalize::Queue::<.*>::(new_feature|feature_finished|new_rule|rule_finished|insert_scenario_event|finished|remove|is_finished_and_emitted)$"
       r"|Emitter(<.*>)?>?::emit$|take_to_emit$")
_TAB = {}


class HandlerRows:
    """Deep path table of Normalize::handle_event with the queue operations kept opaque (deep.py): per path the event
    shape, whether the queue was already finished-and-emitted, and the ordered queue operations / forwards."""

    def __init__(self, F):
        from . import deep as D
        self.D = D
        self.co = handler(F)
        self.dp = D.Deep(F, self.co, opaque=OPQ, max_paths=4000)
        self.paths = self.dp.run()
        if not self.paths:
            raise Unverifiable("Normalize::handle_event: empty path table")
        self.ev_root = None
        for i, nm in self.co.upvar_names().items():
            if nm in ("event", "ev"):
                self.ev_root = ("field", ("arg", 1), i)
        if self.ev_root is None:
            raise Unverifiable("event parameter of Normalize::handle_event")
        self.rows = [self._row(p) for p in self.paths]

    def _row(self, p):
        D = self.D
        r = {"p": p, "fae": None, "ctx": {}, "acts": []}
        for a, o in p.conds:
            if a[0] == "call" and re.search(r"is_finished_and_emitted$", a[1]) and isinstance(o, bool):
                r["fae"] = o
            if a[0] == "discr" and isinstance(o, str):
                adt = self.dp.adt_of.get(a, "")
                if (adt.startswith("event::") or adt == "std::result::Result") and D.mentions(a[1], lambda x: x == self.ev_root):
                    vs = frozenset(o.split("|"))
                    r["ctx"][adt] = (r["ctx"][adt] & vs) if adt in r["ctx"] else vs
        for i, e in enumerate(p.effects):
            if e[0] == "call":
                m = re.search(r"normalize::Queue(::<.*>)?::(\w+)$", e[1])
                if m and m.group(2) in QUEUE_ACTIONS:
                    lab = m.group(2)
                    if lab == "insert_scenario_event":
                        ra = [x for x in e[2] if D.is_variant(x, "std::option::Option")]
                        lab += "[rule=" + (ra[0][2] if len(ra) == 1 else "?") + "]"
                    r["acts"].append((i, lab, e))
                elif m and m.group(2) == "remove":
                    r["acts"].append((i, "remove", e))
                elif re.search(r"take_to_emit$", e[1]):
                    r["acts"].append((i, "take_to_emit", e))
            elif e[0] == "await" and e[1][0] == "call":
                if re.search(r"Writer::handle_event$", e[1][1]):
                    r["acts"].append((i, "forward", e))
                elif re.search(r"Emitter(<.*>)?>?::emit$|Emitter::emit$", e[1][1]):
                    r["acts"].append((i, "emit", e))
        return r

    def leaf(self, r):
        for adt in ("event::Rule", "event::Feature", "event::Cucumber", "std::result::Result"):
            vs = r["ctx"].get(adt)
            if vs and len(vs) >= 1:
                if adt == "event::Cucumber" and vs == frozenset(["Feature"]):
                    continue
                if adt == "event::Feature" and vs == frozenset(["Rule"]):
                    continue
                if adt == "std::result::Result" and vs != frozenset(["Err"]):
                    continue
                return adt, vs
        return None, None

    def outcome(self, p, kind, term):
        for a, o in p.conds:
            if a == (kind, term):
                return o
        return None


def rows(F):
    if id(F) not in _TAB:
        _TAB.clear()
        _TAB[id(F)] = HandlerRows(F)
    return _TAB[id(F)]


def _is_event_rewrap(D, t, ev_root):
    if t == ev_root:
        return True
    for x in D.subterms(t):
        if x[0] == "variant" and x[1].startswith("event::") and x[1] not in ("event::Event", "event::Metadata"):
            return False
        if x[0] in ("call", "await", "unknown", "const"):
            return False
    return D.mentions(t, lambda x: x == ev_root)


def r1(F, R):
    T = rows(F)
    D = T.D
    co = T.co
    for adt in ("event::Cucumber", "event::Feature", "event::Rule"):
        a = F.adts.get(("cucumber", adt))
        if a is None:
            raise Unverifiable(f"ADT {adt} not found")
        for v in a["variants"]:
            vn = v["name"] if isinstance(v, dict) else v
            R.check((adt, vn) in EXPECTED or (adt, vn) in NON_LEAF, f"dispatch/covers/{adt.rsplit('::', 1)[-1]}::{vn}", co,
                    "variant known to the table", f"{adt}::{vn} is not in the checker's dispatch table (new event variant: extend the table after reading how Normalize orders it)")
    seen = {}
    for r in T.rows:
        if r["fae"] is not False:
            continue
        adt, vs = T.leaf(r)
        if adt is None:
            R.violation("dispatch/undecided", co, "a path of Normalize::handle_event handles an event without looking at its kind")
            continue
        first = [x for x in r["acts"] if x[1] in EXPECTED.values() or x[1].startswith("insert_scenario_event")]
        for var in sorted(vs):
            short = f"{adt.rsplit('::', 1)[-1]}::{var}"
            want = EXPECTED.get((adt, var))
            if want is None:
                continue
            seen.setdefault((adt, var), set())
            if not first:
                R.violation(f"dispatch/{short}/no-drop", co, f"a path through the {short} arm reaches the drain loop / return without queuing or forwarding the event: it is dropped")
                continue
            R.ok(f"dispatch/{short}/no-drop", co, "every path through the arm queues or forwards the event")
            lab = first[0][1]
            seen[(adt, var)].add(lab)
            if lab == "forward" and want == "forward":
                sent = first[0][2][1][2][1]
                R.check(_is_event_rewrap(D, sent, T.ev_root), "dispatch/forward/original-event", co, "forwards the event it matched on",
                        "the immediately-forwarded arm does not pass the received event to the inner writer")
    for (adt, var), want in EXPECTED.items():
        short = f"{adt.rsplit('::', 1)[-1]}::{var}"
        labs = seen.get((adt, var))
        if labs is None:
            R.violation(f"dispatch/{short}", co, f"no path of Normalize::handle_event is selected by {short}: the event is not dispatched on")
            continue
        R.check(labs == {want}, f"dispatch/{short}", co, f"-> {want}", f"{short} is handled by {sorted(labs) or 'nothing'}, expected {want}")
    R.floor(30, "dispatch clauses")


def r2(F, R):
    T = rows(F)
    D = T.D
    co = T.co
    pt = [r for r in T.rows if r["fae"] is True]
    rest = [r for r in T.rows if r["fae"] is False]
    R.check(bool(pt) and bool(rest) and len(pt) + len(rest) == len(T.rows), "pass-through/guarded-forward", co, "is_finished_and_emitted() is consulted first on every path",
            f"{len(pt)} pass-through / {len(rest)} normalising / {len(T.rows) - len(pt) - len(rest)} undecided paths: events arriving after the run's Finished are not passed through")
    ok_ev, ok_ret = bool(pt), bool(pt)
    for r in pt:
        acts = r["acts"]
        fw = [x for x in acts if x[1] == "forward"]
        ok_ret = ok_ret and len(acts) == 1 and len(fw) == 1 and not r["p"].cut
        if fw:
            ok_ev = ok_ev and _is_event_rewrap(D, fw[0][2][1][2][1], T.ev_root)
    R.ok("pass-through/polarity", co, "taken when is_finished_and_emitted() is true") if pt else None
    R.check(ok_ev, "pass-through/original-event", co, "forwards the original event", "the early forward does not pass the event it received")
    R.check(ok_ret, "pass-through/returns", co, "returns after forwarding", "after the pass-through forward the handler goes on to touch the queue (or forwards nothing): the event is handled twice or lost")
    R.floor(3, "pass-through clauses")


# ---- R3: drain loop and run-Finished last -----------------------------------------------------------

def r3(F, R):
    T = rows(F)
    D = T.D
    co = T.co
    n_loop = n_fin = 0
    for r in T.rows:
        if r["fae"] is not False:
            continue
        p = r["p"]
        acts = r["acts"]
        names = [x[1] for x in acts]
        qa = [x for x in acts if x[1] in QUEUE_ACTIONS or x[1].startswith("insert_scenario_event")]
        emits = [x for x in acts if x[1] == "emit"]
        if qa:
            lab = qa[0][1]
            R.check(bool(emits) and emits[0][0] > qa[0][0], f"drain/after/{lab}", co, "drain loop follows", f"after `{lab}` the handler does not run the drain loop: ready events stay queued")
        if not emits:
            continue
        em = emits[0]
        out = T.outcome(p, "discr", ("await", em[2][1], em[2][3]))
        rem = [x for x in acts if x[1] == "remove"]
        take = [x for x in acts if x[1] == "take_to_emit"]
        fins = [x for x in acts if x[1] == "forward" and D.mentions(x[2][1][2][1], lambda y: D.is_variant(y, "event::Cucumber", "Finished")) and x[0] > em[0]]
        if out == "Some":
            n_loop += 1
            looped = p.cut or (bool(rem) and any(e[0] == "loop-back" and i > rem[0][0] for i, e in enumerate(p.effects)))
            R.check(len(rem) == 1 and rem[0][0] > em[0] and looped, "drain/loop", co, "emit and remove form the loop",
                    "after emit(..) returned Some the emitted feature is not removed and the loop re-entered (an emitted feature is never removed, or removal happens once)")
            if rem:
                R.check(D.mentions(rem[0][2][2], lambda y: y == ("field", ("as", ("await", em[2][1], em[2][3]), "Some"), 0)), "drain/remove-emitted-key", co,
                        "removes the key emit returned", "queue.remove(..) is not given the key that emit(..) returned")
            R.check(not take and not fins, "finished/after-drain", co, "take_to_emit follows the drain loop", "state.take_to_emit() is consulted inside the drain loop: the run's Finished can overtake queued events")
        elif out == "None":
            R.check(not rem, "drain/remove-on-some", co, "remove only when emit returned Some", "queue.remove(..) is called although emit(..) returned None")
            R.check(len(take) == 1 and take[0][0] > em[0], "finished/after-drain", co, "take_to_emit follows the drain loop",
                    "after the drain loop state.take_to_emit() is not consulted (the run's Finished is never forwarded), or it is consulted before the loop")
            if take:
                te = take[0][2]
                tout = T.outcome(p, "discr", ("call", te[1], te[2], te[4]))
                if tout == "Some":
                    n_fin += 1
                    R.check(len(fins) == 1 and fins[0][0] > take[0][0] and fins[0] is acts[-1] and not p.cut, "finished/only-from-take_to_emit", co,
                            "Finished forwarded when take_to_emit() is Some, as the last thing", "with take_to_emit() == Some the run's Finished is not forwarded last (and once)")
                else:
                    R.check(not fins, "finished/only-from-take_to_emit", co, "no Finished without take_to_emit() == Some", "Cucumber::Finished is forwarded without take_to_emit() returning Some")
        else:
            R.violation("drain/loop", co, "the result of emit(..) is not examined")
        early = [x for x in acts if x[1] == "forward" and D.mentions(x[2][1][2][1], lambda y: D.is_variant(y, "event::Cucumber", "Finished")) and x[0] < em[0]]
        R.check(not early, "finished/last", co, "nothing is drained after Finished", "Cucumber::Finished is forwarded before the drain loop")
    R.check(n_loop >= 1 and n_fin >= 1, "drain/one-loop", co, "the drain loop and the final Finished exist", f"{n_loop} looping paths, {n_fin} paths forwarding the run's Finished")
    R.floor(15, "drain clauses")


# ---- R4: the finished-state machine ---------------------------------------------------------------

FS = "writer::normalize::FinishedState"


def _interp_state_fn(body):
    """Abstractly run a `fn(&mut FinishedState) -> Option<_>`: per acyclic path (constraint on the original state,
    final state, returned Option variant).  Values: 'S0' | 'V:<variant>' | None."""
    out = []

    def val_of_op(op, vals, cell):
        pl = op_place(op)
        if pl is None:
            return None
        if pl["l"] == 1 and pl["p"] == ["*"]:
            return cell
        if not pl["p"]:
            return vals.get(pl["l"])
        return None

    def walk(bb, seen, vals, refs, cell, cons, ret, discr_of):
        if len(out) > 64:
            raise Unverifiable("take_to_emit: too many paths")
        vals, refs, cons, discr_of = dict(vals), set(refs), dict(cons), dict(discr_of)
        for st in body.blocks[bb]["stmts"]:
            pl, rv = st["pl"], st["rv"]
            if pl["l"] == 1 and pl["p"] == ["*"]:
                if rv["k"] == "use":
                    cell = val_of_op(rv["op"], vals, cell)
                elif rv["k"] == "agg" and rv.get("adt") == FS:
                    cell = "V:" + str(rv["variant"])
                else:
                    cell = None
                continue
            if pl["p"]:
                continue
            l = pl["l"]
            vals.pop(l, None)
            refs.discard(l)
            if rv["k"] == "agg" and rv.get("adt") == FS:
                vals[l] = "V:" + str(rv["variant"])
            elif rv["k"] == "agg" and rv.get("adt", "").endswith("option::Option") and l == 0:
                ret = str(rv["variant"])
            elif rv["k"] == "use":
                v = val_of_op(rv["op"], vals, cell)
                if v is not None:
                    vals[l] = v
                sl = op_local(rv["op"])
                if sl is not None and (sl in refs or sl == 1):
                    refs.add(l)
            elif rv["k"] == "ref":
                rp = rv["pl"]
                if rp["l"] == 1 and rp["p"] == ["*"]:
                    refs.add(l)
            elif rv["k"] == "discr":
                dp = rv["pl"]
                if dp["l"] == 1 and dp["p"] == ["*"]:
                    discr_of[l] = ("cell", {v: n for v, n in rv["variants"]})
                elif not dp["p"]:
                    discr_of[l] = (dp["l"], {v: n for v, n in rv["variants"]})
        t = body.blocks[bb]["term"]
        k = t["k"]
        if k == "return":
            out.append((cons.get("S0"), cell, ret))
            return
        if k == "call":
            if callee_is(t, r"mem::replace$") and op_local(t["args"][0]) in refs | {1}:
                old = cell
                cell = val_of_op(t["args"][1], vals, cell)
                if not t["dest"]["p"]:
                    vals[t["dest"]["l"]] = old
            else:
                for a in t["args"]:
                    if op_local(a) in refs | {1}:
                        raise Unverifiable(f"take_to_emit passes the state to {callee_path(t)}: not modelled")
                if not t["dest"]["p"]:
                    vals.pop(t["dest"]["l"], None)
        if k == "switch":
            l = op_local(t["discr"])
            d = discr_of.get(l)
            allv = None
            which = None
            if d is not None:
                src, vmap = d
                which = cell if src == "cell" else vals.get(src)
                allv = vmap
            listed = {v for v, _ in t["targets"]}
            for v, tg in t["targets"] + [(None, t["otherwise"])]:
                if tg in seen or tg not in body.succ[bb]:
                    continue
                c2 = dict(cons)
                if allv is not None and which == "S0":
                    vs = {allv[v]} if v is not None and v in allv else {n for x, n in allv.items() if x not in listed}
                    c2["S0"] = (c2["S0"] & vs) if "S0" in c2 else vs
                    if not c2["S0"]:
                        continue
                walk(tg, seen | {bb}, vals, refs, cell, c2, ret, discr_of)
            return
        for s2 in body.succ[bb]:
            if s2 not in seen:
                walk(s2, seen | {bb}, vals, refs, cell, cons, ret, discr_of)

    walk(0, set(), {}, set(), "S0", {}, None, {})
    return out


def r4(F, R):
    tk = [b for b in F.crate_bodies() if b.name == f"{FS}::take_to_emit"]
    if len(tk) != 1:
        raise Unverifiable(f"FinishedState::take_to_emit: {len(tk)}")
    tk = tk[0]
    a = F.adts.get(("cucumber", FS))
    allv = {v["name"] for v in a["variants"]}
    R.check(allv == {"NotFinished", "FinishedButNotEmitted", "FinishedAndEmitted"}, "state/variants", tk, "three states", f"FinishedState has variants {sorted(allv)}: the checker's table covers three")
    paths = _interp_state_fn(tk)
    some_cons = set()
    for cons, final, ret in paths:
        cons = set(cons) if cons is not None else set(allv)
        if ret == "Some":
            some_cons |= cons
            R.check(final == "V:FinishedAndEmitted", "state/take/some-leaves-emitted", tk, "Some(meta) leaves FinishedAndEmitted",
                    f"take_to_emit returns Some but leaves the state {final}: the same Finished is emitted again on the next event")
        elif ret == "None":
            keeps = final == "S0" or (final and final.startswith("V:") and cons == {final[2:]})
            R.check(keeps, f"state/take/none-keeps/{'+'.join(sorted(cons))}", tk, "None leaves the state as it was",
                    f"take_to_emit returns None for {sorted(cons)} but changes the state to {final}")
        else:
            R.unverifiable("state/take/ret", f"a path of take_to_emit returns an unrecognised value ({ret})")
    R.check(some_cons == {"FinishedButNotEmitted"}, "state/take/some-iff-pending", tk, "Some exactly for FinishedButNotEmitted",
            f"take_to_emit returns Some for {sorted(some_cons)} (expected exactly FinishedButNotEmitted)")
    # is_finished_and_emitted
    fae = [b for b in F.crate_bodies() if re.match(r"^writer::normalize::Queue::<.*>::is_finished_and_emitted$", b.name)]
    if len(fae) != 1:
        raise Unverifiable(f"Queue::is_finished_and_emitted: {len(fae)}")
    fae = fae[0]
    true_for = set()
    okp = True
    for p in A.enumerate_paths(fae):
        vs = None
        for atom, outc in p.decisions:
            if atom.startswith("discr(") and FS in atom and atom.split(":")[0].endswith(".state"):
                vs = set(outc.split("|"))
        if p.ret is True:
            if vs is None:
                okp = False
            else:
                true_for |= vs
        elif p.ret is not False:
            okp = False
    R.check(okp and true_for == {"FinishedAndEmitted"}, "state/is_finished_and_emitted", fae, "true exactly for FinishedAndEmitted",
            f"is_finished_and_emitted() is true for {sorted(true_for) or 'an unrecognised condition'}: pass-through starts too early or never")
    # writers of Queue.state
    writers = {}
    for b in F.crate_bodies():
        if "normalize" not in b.name:
            continue
        for s, st in b.assigns(lambda st: place_fields(st["pl"])[-1:] == [("writer::normalize::Queue", "state")]):
            rv = st["rv"]
            v = None
            if rv["k"] == "agg" and rv.get("adt") == FS:
                v = str(rv["variant"])
            elif rv["k"] == "use" and op_local(rv["op"]) is not None:
                sd = b.single_def(op_local(rv["op"]))
                if sd and sd[1] == "assign" and sd[2]["rv"]["k"] == "agg" and sd[2]["rv"].get("adt") == FS:
                    v = str(sd[2]["rv"]["variant"])
                elif sd and sd[1] == "call" and callee_is(sd[2], r"Clone::clone$"):
                    v = "clone"
            writers.setdefault(re.sub(r"::<.*>::", "::", b.name), set()).add(v)
        for s, st in b.assigns(lambda st: st["rv"]["k"] == "agg" and st["rv"].get("adt") == "writer::normalize::Queue"):
            rv = st["rv"]
            flds = a2 = F.adts.get(("cucumber", "writer::normalize::Queue"))["variants"][0]["fields"]
            idx = [i for i, f in enumerate(flds) if f["name"] == "state"][0]
            op = rv["ops"][idx]
            v = None
            l = op_local(op)
            if l is not None:
                sd = b.single_def(l)
                if sd and sd[1] == "assign" and sd[2]["rv"]["k"] == "agg" and sd[2]["rv"].get("adt") == FS:
                    v = str(sd[2]["rv"]["variant"])
                elif sd and sd[1] == "call" and callee_is(sd[2], r"Clone::clone$"):
                    v = "clone"
                elif sd and sd[1] == "assign" and sd[2]["rv"]["k"] == "use":
                    v = "clone" if "Clone" in b.name else None
            writers.setdefault(re.sub(r"::<.*>::", "::", b.name), set()).add(v)
    want = {"writer::normalize::Queue::new": {"NotFinished"}, "writer::normalize::Queue::finished": {"FinishedButNotEmitted"}}
    for fn, vs in sorted(writers.items()):
        if "Clone" in fn:
            continue
        R.check(want.get(fn) == vs, f"state/writer/{fn.rsplit('::', 1)[-1]}", None, f"{fn} stores {sorted(map(str, vs))}",
                f"{fn} stores {sorted(map(str, vs))} into Queue.state (only Queue::new -> NotFinished and Queue::finished -> FinishedButNotEmitted may)")
    for fn in want:
        R.check(fn in writers, f"state/writer-present/{fn.rsplit('::', 1)[-1]}", None, "present", f"{fn} no longer stores the state it stands for")
    # &mut state handed only to take_to_emit
    for b in F.crate_bodies():
        if "normalize" not in b.name:
            continue
        for s, st in b.assigns(lambda st: st["rv"]["k"] == "ref" and st["rv"].get("mut") and place_fields(st["rv"]["pl"])[-1:] == [("writer::normalize::Queue", "state")]):
            uses, _al = A.forward_uses(b, st["pl"]["l"])
            ok = bool(uses) and all(callee_is(t, r"FinishedState::take_to_emit$") for _, t, _i in uses)
            R.check(ok, f"state/mut-borrow/{re.sub(r'::<.*>::', '::', b.short)}", s, "&mut state goes to take_to_emit only", "a &mut borrow of Queue.state escapes to something other than take_to_emit")
    R.floor(8, "state-machine clauses")


# ---- R5: FIFO discipline of the containers ----------------------------------------------------------

EVENT_VEC = r"event::Event<event::RetryableScenario<"
# container operations that keep insertion order / address by key / are read-only
MAP_OK = {"new": "neutral", "with_capacity": "neutral", "len": "neutral", "is_empty": "neutral", "contains_key": "keyed", "get": "keyed",
          "get_mut": "keyed", "remove": "keyed", "insert": "append", "entry": "append", "iter": "front-iter", "iter_mut": "front-iter",
          "front": "front", "keys": "front-iter", "values": "front-iter", "values_mut": "front-iter"}
ENTRY_OK = {"or_insert_with": "append", "or_insert": "append", "or_default": "append", "key": "neutral"}
VEC_OK = {"new": "neutral", "with_capacity": "neutral", "len": "neutral", "is_empty": "neutral", "push": "append", "first": "front",
          "remove": "front-if-0", "iter": "front-iter", "reserve": "neutral"}
ITER_OK = {"next"}


def _strip(p):
    return re.sub(r"<[^<>]*(<[^<>]*(<[^<>]*(<[^<>]*(<[^<>]*>[^<>]*)*>[^<>]*)*>[^<>]*)*>[^<>]*)*>", "", p)


def normalize_bodies(F):
    return [b for b in F.crate_bodies() if "writer::normalize::" in b.name and "AssertNormalized" not in b.name]


def r5(F, R):
    census = {}
    for b in normalize_bodies(F):
        bshort = _strip(b.short).replace("::::", "::")
        for st, t in b.calls():
            f = op_fn(t["func"])
            if not f:
                continue
            path, full, slf = f["path"], f.get("full", ""), f.get("self", "")
            meth = path.rsplit("::", 1)[-1]
            kind = None
            if path.startswith("linked_hash_map::LinkedHashMap::"):
                kind = ("map", MAP_OK.get(meth))
            elif path.startswith("linked_hash_map::Entry::") or path.startswith("linked_hash_map::OccupiedEntry::") or path.startswith("linked_hash_map::VacantEntry::"):
                kind = ("entry", ENTRY_OK.get(meth))
            elif path.startswith("std::vec::Vec::") and EVENT_VEC in full:
                k = VEC_OK.get(meth)
                if k == "front-if-0":
                    k = "front" if const_int(t["args"][1]) == 0 else None
                kind = ("vec", k)
            elif "linked_hash_map::" in slf and f.get("trait", "").endswith("Iterator"):
                kind = ("map-iter", "front" if meth in ITER_OK else None)
            elif re.search(r"VecDeque|BTreeMap|HashMap|BinaryHeap", path) and "normalize" in b.name:
                kind = ("other-container", None)
            elif f.get("trait", "").endswith("Clone") and "linked_hash_map" in slf:
                continue
            if kind is None:
                continue
            cont, k = kind
            inst = f"fifo/op/{bshort[-60:]}/{cont}.{meth}"
            census.setdefault(k, []).append((b, st, meth))
            R.check(k is not None, inst, st, f"{cont}.{meth}: {k}",
                    f"{cont}.{meth}(..) in {bshort} is not in the order-preserving set (front take / append / keyed / read-only): queued events can be re-ordered, skipped or dropped")
    # the four current_item implementations take the front
    cis = roles.trait_impl_methods(F, r"normalize::Emitter$", "current_item")
    R.check(len(cis) == 4, "fifo/current_item/impls", None, "4 Emitter impls", f"{len(cis)} Emitter::current_item implementations (expected 4: run, feature, rule, scenario queues)")
    for a, b in cis:
        fronts = []
        for nb in F.nested(b):
            for st, t in nb.calls():
                f = op_fn(t["func"])
                if not f:
                    continue
                meth = f["path"].rsplit("::", 1)[-1]
                if ("linked_hash_map::" in f.get("self", "") and f.get("trait", "").endswith("Iterator") and meth == "next") or \
                   (f["path"].startswith("std::vec::Vec::") and meth == "remove" and const_int(t["args"][1]) == 0) or \
                   (f["path"].startswith("linked_hash_map::LinkedHashMap::") and meth in ("front", "pop_front")):
                    fronts.append(st)
        tag = _strip(b.impl.get("self", "") if b.impl else b.short)
        nm = "scenario-events" if "ScenariosQueue" in tag and "Queue<" not in (b.impl.get("self", "") if b.impl else "").replace("ScenariosQueue<", "") else None
        selfty = b.impl.get("self", "") if b.impl else ""
        if selfty.startswith("&mut writer::normalize::ScenariosQueue") or selfty.startswith("&'me mut writer::normalize::ScenariosQueue"):
            nm = "scenario-events"
        elif "Queue<event::Source<gherkin::Feature>" in selfty:
            nm = "features"
        elif "Queue<itertools::Either" in selfty:
            nm = "feature-items"
        else:
            nm = "rule-scenarios"
        R.check(len(fronts) == 1, f"fifo/current_item/{nm}", b, "takes the front element", f"current_item of the {nm} queue does not take exactly the front element of its container ({len(fronts)} front accesses)")
    # appends present: events pushed, keys inserted
    n_push = len([1 for b, st, m in census.get("append", []) if m == "push"])
    n_ins = len([1 for b, st, m in census.get("append", []) if m in ("insert", "entry")])
    R.check(n_push >= 1, "fifo/append/scenario-events", None, f"{n_push} Vec::push sites", "scenario events are no longer appended with Vec::push (R7 checks that each branch of insert_scenario_event pushes)")
    R.check(n_ins >= 4, "fifo/append/keys", None, f"{n_ins} insert/entry sites", "features / rules / scenarios are no longer inserted at the back of their insertion-ordered maps")
    # Queue::remove removes the key it is given; every caller passes a key returned by an emit
    rm = [b for b in F.crate_bodies() if re.match(r"^writer::normalize::Queue::<.*>::remove$", b.name)]
    if len(rm) != 1:
        raise Unverifiable(f"Queue::remove: {len(rm)}")
    rm = rm[0]
    calls = [(st, t) for st, t in rm.calls(lambda t: callee_is(t, r"LinkedHashMap::<.*>::remove$"))]
    okk = len(calls) == 1 and 2 in A.slice_back(rm, [calls[0][1]["args"][1]]).params
    R.check(okk, "fifo/remove/by-key", rm, "removes the given key", "Queue::remove does not remove the entry of the key it is given")
    n_callers = 0
    for b in normalize_bodies(F):
        for st, t in b.calls(lambda t: callee_is(t, r"normalize::Queue::<.*>::remove$")):
            n_callers += 1
            sl = A.slice_back(b, [t["args"][1]])
            ok = any(is_emit(tt) for _, tt in sl.calls)
            R.check(ok, f"fifo/remove/caller/{_strip(b.short)[-50:]}", st, "key comes from emit", "Queue::remove is called with a key that does not come from an Emitter::emit result")
    R.floor(30, "FIFO clauses")


# ---- R6: nested emitters ------------------------------------------------------------------------------

EMIT_OPQ = r"normalize::Queue::<.*>::remove$|Emitter(<.*>)?>?::(emit|current_item)$|Emitter::(emit|current_item)$|take_to_emit$"


def _emit_rows(F, co):
    """Rows of an Emitter::emit coroutine: (path, ordered acts) with acts = (index, kind, effect); kinds: started /
    finished (bracket events of Feature / Rule) / forward (any other event) / child (nested emit) / remove / take /
    current (current_item)."""
    from . import deep as D
    dp = D.Deep(F, co, opaque=EMIT_OPQ, max_paths=3000)
    out = []
    for p in dp.run():
        acts = []
        for i, e in enumerate(p.effects):
            if e[0] == "await" and e[1][0] == "call":
                path = e[1][1]
                if re.search(r"Writer::handle_event$", path):
                    ev = e[1][2][1]
                    st = any(D.is_variant(y, "event::Feature", "Started") or D.is_variant(y, "event::Rule", "Started") for y in D.subterms(ev))
                    fi = any(D.is_variant(y, "event::Feature", "Finished") or D.is_variant(y, "event::Rule", "Finished") for y in D.subterms(ev))
                    acts.append((i, "started" if st and not fi else "finished" if fi and not st else "forward", e))
                elif re.search(r"Emitter(<.*>)?>?::emit$|Emitter::emit$", path):
                    acts.append((i, "child", e))
            elif e[0] == "call":
                if re.search(r"normalize::Queue(::<.*>)?::remove$", e[1]):
                    acts.append((i, "remove", e))
                elif re.search(r"take_to_emit$", e[1]):
                    acts.append((i, "take", e))
                elif re.search(r"Emitter(<.*>)?>?::current_item$|Emitter::current_item$", e[1]):
                    acts.append((i, "current", e))
        out.append((p, acts))
    return D, dp, out


def _outcome(p, term):
    for a, o in p.conds:
        if a == ("discr", term):
            return o
    return None


def _check_metadata(F, R, co, nm):
    """"forwards exactly the same multiset of events": an event that was queued is forwarded with the metadata (timestamp)
    it arrived with — the `at` field of every forwarded Event is data, never the result of a call (`Event::new` = now)."""
    a = F.adts.get(("cucumber", "event::Event"))
    names = [f["name"] for f in a["variants"][0]["fields"]] if a else []
    if "at" not in names:
        return  # built without the `timestamps` feature: Event carries no metadata
    ai = names.index("at")
    D, dp, rows_ = _emit_rows(F, co)
    ok, n = True, 0
    for p, acts in rows_:
        for i, k, e in acts:
            if k in ("started", "finished", "forward"):
                for x in D.subterms(e[1][2][1]):
                    if D.is_variant(x, "event::Event") and ai < len(x[3]):
                        n += 1
                        if D.mentions(x[3][ai], lambda y: y[0] == "call" and not re.search(r"current_item$|take_to_emit$|Clone::clone$|Option(::<.*>)?::take$", y[1])) or x[3][ai][0] in ("unknown", "undef"):
                            ok = False
    R.check(ok and n >= 1, f"emit/{nm}/metadata-preserved", co, "forwarded events keep the metadata they were queued with",
            f"the {nm} emitter forwards events with freshly made metadata (Event::new / now) instead of the stored one: timestamps of buffered events collapse to the flush time")


def r6(F, R):
    ems = roles.trait_impl_methods(F, r"normalize::Emitter$", "emit")
    R.check(len(ems) == 4, "emit/impls", None, "4 Emitter::emit impls", f"{len(ems)} Emitter::emit implementations (expected 4)")
    for a, b in ems:
        co = roles.coroutine_of(F, b)
        if co is None:
            R.unverifiable("emit/coroutine", f"{b.short} has no coroutine body")
            continue
        selfty0 = (b.impl.get("self", "") if b.impl else "").replace("&'me mut ", "").replace("&mut ", "")
        if not "Queue<itertools::Either" in selfty0:
            _check_metadata(F, R, co, "scenario-events" if selfty0.startswith("writer::normalize::ScenariosQueue") else
                            "features" if "Queue<event::Source<gherkin::Feature>" in selfty0 else "rule-scenarios")
        selfty = (b.impl.get("self", "") if b.impl else "").replace("&'me mut ", "").replace("&mut ", "")
        if selfty.startswith("writer::normalize::ScenariosQueue"):
            _scenario_emit(F, R, co)
        elif "Queue<event::Source<gherkin::Feature>" in selfty:
            _keyed_emit(F, R, co, "features")
        elif "Queue<itertools::Either" in selfty:
            _dispatch_emit(F, R, co)
        else:
            _keyed_emit(F, R, co, "rule-scenarios")
    R.floor(20, "nested emitter clauses")


def _keyed_emit(F, R, co, nm):
    D, dp, rows_ = _emit_rows(F, co)
    n_started = n_finished = n_none = n_loop = 0
    # the pending-Started cell (`initial`): the Option that is emptied right before Started is forwarded
    init_terms = set()
    for p, acts in rows_:
        st0 = [x for x in acts if x[1] == "started"]
        if st0:
            for e in p.effects[:st0[0][0]]:
                if e[0] == "write" and D.is_variant(e[2], "std::option::Option", "None") and any(a == ("discr", _rt(e[1])) and o == "Some" for a, o in p.conds):
                    init_terms.add(_rt(e[1]))
    for p, acts in rows_:
        if any(a[0] == "discr" and a[1] in init_terms and o == "Some" for a, o in p.conds) and not [x for x in acts if x[1] == "started"]:
            conds = " ∧ ".join(f"{D.fmt(co, a)[:40]}={o}" for a, o in p.conds[:5])
            R.violation(f"emit/{nm}/started-whenever-pending", co, f"[{conds}] the {nm} emitter's Started is pending but is not forwarded on this path (it waits for something else, e.g. "
                        f"the first child): a bracket whose children never come loses its Started while its Finished is still forwarded; a sequential stream no longer passes through event by event")
            break
    else:
        if init_terms:
            R.ok(f"emit/{nm}/started-whenever-pending", co, "whenever Started is pending it is forwarded first")
    for p, acts in rows_:
        kinds = [k for _, k, _ in acts]
        st = [x for x in acts if x[1] == "started"]
        fi = [x for x in acts if x[1] == "finished"]
        ch = [x for x in acts if x[1] == "child"]
        tk = [x for x in acts if x[1] == "take"]
        rm = [x for x in acts if x[1] == "remove"]
        other = [x for x in acts if x[1] == "forward"]
        R.check(not other and len(st) <= 1 and len(fi) <= 1, f"emit/{nm}/forwards", co, "forwards only its own Started / Finished, each at most once per call",
                f"the {nm} emitter forwards {len(st)} Started, {len(fi)} Finished and {len(other)} other events itself on one path")
        if st:
            n_started += 1
            # consumed: a write of None to an Option that was Some, before the forward (initial.take())
            consumed = False
            for e in p.effects[:st[0][0]]:
                if e[0] == "write" and D.is_variant(e[2], "std::option::Option", "None"):
                    src = ("discr", _rt(e[1]))
                    if any(a == src and o == "Some" for a, o in p.conds):
                        consumed = True
            R.check(consumed, f"emit/{nm}/started-once", co, "Started only from initial.take()",
                    f"the {nm} emitter forwards Started without consuming `initial` (it is emitted on every drain, or never)")
            R.check(all(st[0][0] < c[0] for c in ch), f"emit/{nm}/started-first", co, "Started precedes the children's events", f"the {nm} emitter can forward its Started after events of its children")
        for c in ch:
            cur = [x for x in acts if x[1] == "current" and x[0] < c[0]]
            R.check(bool(cur) and D.mentions(c[2][1], lambda y, cur=cur: y[0] == "call" and y[3] == cur[-1][2][4]), f"emit/{nm}/current_item", co, "children come from current_item()",
                    f"the {nm} emitter does not take its child through current_item()")
            out = _outcome(p, ("await", c[2][1], c[2][3]))
            if out == "Some":
                n_loop += 1
                looped = p.cut or (bool(rm) and any(e2[0] == "loop-back" for e2 in p.effects[rm[0][0]:]))   # (the loop may live in an inlined private helper)
                ok = bool(rm) and rm[0][0] > c[0] and looped and D.mentions(rm[0][2][2], lambda y, c=c: y == ("field", ("as", ("await", c[2][1], c[2][3]), "Some"), 0))
                inl_loop = bool(rm) and any(e2[0] == "loop-back" for e2 in p.effects[rm[0][0]:])
                # (loop in an inlined helper: the row goes on behind the loop as if it had ended — what follows is judged on the rows
                # that really leave the loop)
                R.check(ok and (not fi or inl_loop), f"emit/{nm}/child-removed-and-loop", co, "a finished child is removed and the next one is drained",
                        f"the {nm} emitter does not remove a finished child (by the key its emit returned) and continue with the next")
        if fi:
            n_finished += 1
            tout = _outcome(p, ("call", tk[0][2][1], tk[0][2][2], tk[0][2][4])) if tk else None
            R.check(bool(tk) and tk[0][0] < fi[0][0] and tout == "Some", f"emit/{nm}/finished-from-state", co, "Finished only when take_to_emit() is Some",
                    f"the {nm} emitter forwards Finished without take_to_emit() returning Some")
            # the drain really ended before: no further child (current_item() None) or the head child is not finished yet
            cur = [x for x in acts if x[1] == "current" and x[0] < fi[0][0]]
            drained = any(_outcome(p, ("call", x[2][1], x[2][2], x[2][4])) == "None" for x in cur) or \
                any(_outcome(p, ("await", c[2][1], c[2][3])) == "None" for c in ch if c[0] < fi[0][0])
            drained = drained or any(e2[0] == "loop-back" for e2 in p.effects[:fi[0][0]])
            R.check(drained and all(c[0] < fi[0][0] for c in ch) and fi[0] is acts[-1] and not p.cut, f"emit/{nm}/finished-last", co, "Finished follows the children's drain",
                    f"the {nm} emitter can forward its Finished before its children are drained (or drain again after it)")
        if not p.cut:
            is_some = D.is_variant(p.ret, "std::option::Option", "Some")
            is_none = D.is_variant(p.ret, "std::option::Option", "None")
            n_none += 1 if is_none else 0
            if is_none:
                # "not finished yet" may only be answered after asking the finished cell: a return before that (e.g. right after
                # forwarding Started) never forwards the Finished of an entity whose bracket events were all queued already
                tnone = bool(tk) and _outcome(p, ("call", tk[0][2][1], tk[0][2][2], tk[0][2][4])) == "None"
                curs = [x for x in acts if x[1] == "current"]
                nothing_queued = not st and not ch and bool(curs) and _outcome(p, ("call", curs[0][2][1], curs[0][2][2], curs[0][2][4])) == "None"
                R.check(tnone or nothing_queued, f"emit/{nm}/none-only-after-asking-state", co, "returns None only after take_to_emit() answered None",
                        f"the {nm} emitter returns None (= keep me) on a path that did not ask take_to_emit(): a {nm[:-1] if nm.endswith('s') else nm} that is already finished when its turn comes "
                        "never gets its Finished forwarded and is dropped with everything queued behind it")
            R.check((is_some and bool(fi)) or (is_none and not fi), f"emit/{nm}/remove-me-after-finished", co, "returns Some(key) exactly when it forwarded Finished",
                    f"the {nm} emitter returns {'Some(key) (= remove me)' if is_some else 'None'} on a path that {'did not forward' if is_some else 'forwarded'} Finished: its queued events are discarded / it is never removed")
    R.check(n_started >= 1 and n_finished >= 1 and n_none >= 1 and n_loop >= 1, f"emit/{nm}/shape", co, "Started, children, Finished, None paths all exist",
            f"paths: {n_started} with Started, {n_finished} with Finished, {n_none} returning None, {n_loop} draining a finished child")


def _rt(place):
    k = place[0]
    if k == "deref":
        return ("deref", place[1])
    if k == "field":
        return ("field", _rt(place[1]), place[2])
    if k == "as":
        return ("as", _rt(place[1]), place[2])
    if k == "L":
        return ("arg", place[2])
    return place


def _dispatch_emit(F, R, co):
    nm = "feature-items"
    D, dp, rows_ = _emit_rows(F, co)
    n = 0
    for p, acts in rows_:
        fw = [x for x in acts if x[1] in ("started", "finished", "forward")]
        ch = [x for x in acts if x[1] == "child"]
        R.check(not fw, f"emit/{nm}/no-own-events", co, "forwards nothing itself", "the feature-items emitter forwards events itself")
        R.check(len(ch) <= 1, f"emit/{nm}/delegates", co, "delegates to one child per call", f"{len(ch)} delegating emit calls on one path")
        if ch:
            n += 1
            cur = [x for x in acts if x[1] == "current" and x[0] < ch[0][0]]
            R.check(bool(cur) and D.mentions(ch[0][2][1], lambda y: y[0] == "call" and y[3] == cur[-1][2][4]), f"emit/{nm}/current_item", co,
                    "child comes from current_item()", "the feature-items emitter does not take its child through current_item()")
            out = _outcome(p, ("await", ch[0][2][1], ch[0][2][3]))
            is_some = D.is_variant(p.ret, "std::option::Option", "Some")
            R.check((out == "Some") == is_some and (not is_some or D.mentions(p.ret, lambda y: y == ("field", ("as", ("await", ch[0][2][1], ch[0][2][3]), "Some"), 0))),
                    f"emit/{nm}/passes-child-result", co, "returns the child's `remove me` key", "the feature-items emitter does not hand its child's result on")
    R.check(n >= 2, f"emit/{nm}/both-kinds", co, "rule and scenario children", f"{n} delegating paths (expected rule and scenario)")


def _scenario_emit(F, R, co):
    nm = "scenario-events"
    D, dp, rows_ = _emit_rows(F, co)
    n_fin = n_loop = 0
    for p, acts in rows_:
        fw = [x for x in acts if x[1] in ("forward", "started", "finished")]
        cur = [x for x in acts if x[1] == "current"]
        if not fw:
            R.check(D.is_variant(p.ret, "std::option::Option", "None") or p.cut, f"emit/{nm}/nothing-to-forward", co, "None when the buffer is empty", "returns Some without forwarding anything")
            continue
        R.check(len(fw) == 1 or p.cut, f"emit/{nm}/one-forward", co, "one forward per buffered event", f"{len(fw)} forwards on one loop turn")
        f0 = fw[0]
        R.check(bool(cur) and cur[0][0] < f0[0] and D.mentions(f0[2][1][2][1], lambda y: y[0] == "call" and y[3] == cur[0][2][4]), f"emit/{nm}/forwards-current", co,
                "forwards the event current_item() returned", "the forwarded scenario event does not come from current_item()")
        # what kind of scenario event was taken
        kinds = None
        for a, o in p.conds:
            if a[0] == "discr" and dp.adt_of.get(a) == "event::Scenario" and cur and D.mentions(a[1], lambda y: y[0] == "call" and y[3] == cur[0][2][4]):
                kinds = set(o.split("|"))
        if p.cut:
            n_loop += 1
            R.check(kinds is not None and "Finished" not in kinds, f"emit/{nm}/loop", co, "loops until the buffer is empty or the scenario finished", "the emitter keeps draining after the scenario's Finished event")
        else:
            is_some = D.is_variant(p.ret, "std::option::Option", "Some")
            if is_some:
                n_fin += 1
            R.check(is_some == (kinds == {"Finished"}), f"emit/{nm}/remove-me-iff-finished", co, "Some only for Scenario::Finished",
                    "the scenario-events emitter reports the scenario as removable for an event other than Scenario::Finished (later events of the scenario are lost), or not for Finished (it is never removed)")
    R.check(n_fin >= 1 and n_loop >= 1, f"emit/{nm}/shape", co, "loop and Finished paths exist", f"{n_loop} looping paths, {n_fin} paths ending the scenario")


# ---- R7: routing of a scenario event to its buffer ----------------------------------------------------

def _param(b, name):
    ls = [l for l in b.local_by_name(name) if 1 <= l <= b.arg_count]
    if len(ls) != 1:
        raise Unverifiable(f"parameter `{name}` of {b.short}: {len(ls)}")
    return ls[0]


def r7(F, R):
    outer = [b for b in F.crate_bodies() if re.match(r"^writer::normalize::Queue::<event::Source<gherkin::Feature>, .*>::insert_scenario_event$", b.name)]
    inner = [b for b in F.crate_bodies() if re.match(r"^writer::normalize::Queue::<itertools::Either<.*>::insert_scenario_event$", b.name)]
    if len(outer) != 1 or len(inner) != 1:
        raise Unverifiable(f"insert_scenario_event bodies: {len(outer)} run-level, {len(inner)} feature-level")
    ob, ib = outer[0], inner[0]
    # run level: look the feature up by the given key and hand rule / scenario / event down unchanged
    calls = [(st, t) for st, t in ob.calls() if F.callee_body(t, ob.crate) is ib]
    if R.check(len(calls) == 1, "route/run-level/delegates", ob, "delegates to the feature's queue", f"{len(calls)} delegating calls in the run-level insert_scenario_event"):
        st, t = calls[0]
        recv = A.slice_back(ob, [t["args"][0]])
        def looks_up(tt):
            if callee_is(tt, r"LinkedHashMap::<.*>::get_mut$"):
                return True
            hb = F.callee_body(tt, ob.crate)   # a private lookup helper (`feature_queue_mut(feat)`) keyed by its parameter
            if hb is not None and hb.arg_count >= 2:
                for _, t3 in hb.calls(lambda t3: callee_is(t3, r"LinkedHashMap::<.*>::get_mut$")):
                    if 2 in A.slice_back(hb, [t3["args"][1]]).params:
                        return True
            return False
        R.check(_param(ob, "feat") in recv.params and any(looks_up(tt) for _, tt in recv.calls), "route/run-level/feature-by-key", st,
                "feature queue looked up by the event's feature", "the feature queue is not looked up by the event's own feature: the event lands in another feature's buffer")
        # (positions are read off the callee's parameter names; the attempt — `retries` — is part of what is handed down: two attempts of one
        # scenario can be buffered at the same time, each in a buffer of its own)
        for nm, cal in (("rule", "rule"), ("scenario", "scenario"), ("retries", "retries"), ("event", "ev")):
            ls = [l for l in ib.local_by_name(cal) if 1 <= l <= ib.arg_count] or [l for l in ib.local_by_name(nm) if 1 <= l <= ib.arg_count]
            src_nm = "event" if nm == "retries" else nm       # (the run level reads the attempt off the event it is given: `event.retries`)
            if len(ls) != 1 or not [l for l in ob.local_by_name(src_nm) if 1 <= l <= ob.arg_count]:
                R.violation(f"route/run-level/passes-{nm}", st, f"the scenario-event routing no longer carries `{nm}`" + (": the buffers are keyed by the scenario alone, so a retried "
                            "attempt that starts while the previous one is still buffered shares its buffer — its events are dropped with the first `Finished`" if nm == "retries" else ""))
                continue
            i = ls[0] - 1
            sl = A.slice_back(ob, [t["args"][i]]) if i < len(t["args"]) else None
            R.check(sl is not None and _param(ob, src_nm) in sl.params and (nm != "retries" or any(n_ == "retries" for _, n_ in sl.fields)), f"route/run-level/passes-{nm}", st, f"passes `{nm}` down",
                    f"the run-level insert_scenario_event does not pass its `{nm}` down to the feature queue")
    # feature level: two buffers, chosen by `rule` — on the routine's path table (map operations opaque, private helpers inlined)
    from . import deep as DD
    if not [l for l in ib.local_by_name("retries") if 1 <= l <= ib.arg_count]:
        R.violation("route/feature-level/keyed-by-attempt", ib, "the feature-level insert_scenario_event has no `retries` to key the scenario's buffer with: attempts of one scenario share a buffer")
        return
    rule_l, sc_l, re_l, ev_l = _param(ib, "rule"), _param(ib, "scenario"), _param(ib, "retries"), _param(ib, "ev")
    rows_ = DD.Deep(F, ib, opaque=r"LinkedHashMap::|linked_hash_map::", max_paths=200).run()
    if not rows_ or any(p.cut for p in rows_):
        raise Unverifiable("feature-level insert_scenario_event: empty path table or a loop")
    seen = set()
    strip = lambda x: strip(x[1]) if isinstance(x, tuple) and x and x[0] in ("ref", "deref", "refto") else x
    for p in rows_:
        st = ib
        br = [out for a_, out in p.conds if a_ == ("discr", ("arg", rule_l))]
        pushes = [e for e in p.effects if e[0] == "call" and re.search(r"vec::Vec::<.*>::push$|vec::Vec::push$", e[1])]
        if not R.check(len(pushes) == 1, "route/feature-level/two-buffers", ib, "one push per branch", f"{len(pushes)} Vec::push of the event on a path of the feature-level insert_scenario_event (expected 1)"):
            continue
        if br not in (["Some"], ["None"]):
            R.violation("route/feature-level/branch", st, "a Vec::push of the scenario event is not selected by whether the event carries a rule")
            continue
        branch = "in-rule" if br == ["Some"] else "top-level"
        seen.add(branch)
        e = pushes[0]
        R.check(strip(e[2][1]) == ("arg", ev_l), f"route/feature-level/{branch}/pushes-event", st, "pushes the given event", "the pushed value is not the event that was passed in")
        entries = [x for x in DD.subterms(e[2][0]) if x[0] == "call" and re.search(r"LinkedHashMap(::<.*>)?::entry$", x[1])]
        keyed = {n for x in entries for l, n in ((sc_l, "scenario"), (re_l, "retries")) if len(x[2]) > 1 and DD.mentions(x[2][1], lambda y: y == ("arg", l))}
        need = {"scenario", "retries"}
        if branch == "in-rule":
            need.add("rule")
            if DD.mentions(e[2][0], lambda y: y == ("field", ("as", ("arg", rule_l), "Some"), 0)):
                keyed.add("rule")
        missing = sorted(need - keyed)
        R.check(not missing, f"route/feature-level/{branch}/buffer-key", st, f"buffer addressed by {sorted(need)}",
                f"the buffer the event is pushed to is not addressed by {missing}: events of different scenarios / retry attempts / rules share a buffer")
        if branch == "top-level":
            R.ok(f"route/feature-level/{branch}/entry", st, "entry().or_insert_with")
        R.check(bool(entries), f"route/feature-level/{branch}/creates-on-first", st, "buffer created on first event (entry)", "the scenario's buffer is not created on its first event")
    R.check(seen == {"in-rule", "top-level"}, "route/feature-level/both-branches", ib, "both branches push", f"only {sorted(seen)} push the event")
    R.floor(14, "routing clauses")


def r8(F, R):
    """A cloned Normalize (writers are Clone) carries the same buffered events: Clone of Normalize and of its queue types is field
    for field (path tables of the Clone impls)."""
    n = roles.check_clone_faithful_table(F, R, "writer::normalize::", "clone-faithful")
    R.floor(3, "clone clauses")


def r9(F, R):
    """Normalize takes events apart with `Event::split` and re-wraps them with `insert` / `wrap`: those keep the stored metadata (= C13.R7)."""
    if roles.check_event_metadata_kept(F, R):
        R.floor(3)


RULES = [("R1", r1, None), ("R2", r2, None), ("R3", r3, None), ("R4", r4, None), ("R5", r5, None), ("R6", r6, None), ("R7", r7, None), ("R8", r8, None), ("R9", r9, ["all", "timestamps"])]
