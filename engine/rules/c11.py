"""C11 — Normalize re-orders a concurrent event stream into a sequential one (structural clauses only; DESIGN §4 C11)."""
import re

from . import analysis as A
from . import roles
from . import writers as W
from .mir import Site, Unverifiable, callee_is, callee_path, const_int, op_fn, op_local, op_place, place_fields, place_str

CFGS = {"quick": ["default", "all"], "thorough": ["default", "all", "nodefault"]}

EXPLANATION = """
The property itself (the output is a per-feature contiguous, order-preserving permutation of any contract-abiding
interleaving) quantifies over event histories and is NOT decided here.  Decided are structural clauses of
writer::normalize, each a necessary condition (breaking it loses, duplicates or re-orders an event for some stream):
(R1) dispatch table of Normalize::handle_event: per leaf event variant the first action on every path is the expected
one — Err / Cucumber::Started / ParsingFinished -> forwarded at once to the inner writer with the original event;
Cucumber::Finished -> Queue::finished; Feature::Started -> new_feature; Feature::Scenario -> insert_scenario_event
with rule None; Feature::Finished -> feature_finished; Rule::Started -> new_rule; Rule::Scenario ->
insert_scenario_event with rule Some(_); Rule::Finished -> rule_finished — the table covers every variant of the four
event enums, and no path reaches the drain loop or `return` without an action (no event is dropped);
(R2) pass-through: the early forward is guarded by is_finished_and_emitted() == true, passes the original event and
returns without touching the queue; (R3) drain and run-Finished-last: the only queue consumption is
`while let Some(k) = queue.emit(..) { queue.remove(&k) }` with the removed key being the emitted one, and the inner
writer receives Cucumber::Finished only in a block dominated by the loop's None exit and by take_to_emit() == Some;
(R4) finished-state machine: take_to_emit returns Some only from FinishedButNotEmitted and leaves
FinishedAndEmitted (so a Finished is emitted at most once), is_finished_and_emitted is true only for
FinishedAndEmitted, Queue::finished stores FinishedButNotEmitted; (R5) FIFO discipline: every Emitter::current_item
takes the FRONT of its container (iter/iter_mut().next() of the insertion-ordered map, Vec::remove(0)), scenario events
are appended with Vec::push, new keys are inserted with insert / entry().or_insert_with (append at the back), and
Queue::remove removes by the key it is given; (R6) nested emitters: each keyed Emitter::emit forwards its
`Started` only from `initial.take()` (once), forwards its `Finished` only from take_to_emit() after its drain loop,
and returns Some(key) — "remove me" — only on the path that forwarded Finished; the scenario emitter returns Some only
when the event it just forwarded is Scenario::Finished; (R7) routing: a scenario event is pushed to the buffer addressed
by its own (feature, rule?, scenario, retries): the run-level insert looks the feature up by the event's feature and
passes rule / scenario / event down unchanged, the feature-level insert pushes the given event in both branches, the
branch being selected by `rule` and the buffer key containing scenario and retries (and the rule in the rule branch).
"""
DECLINED = ["the permutation/contiguity/order statement over arbitrary contract-abiding interleavings (runtime histories)",
            "behaviour of linked_hash_map / Vec themselves"]
ASSUMPTIONS = ["linked_hash_map::LinkedHashMap iterates in insertion order and insert/entry of a new key appends at the back",
               "Vec::remove(0) returns the oldest pushed element"]

NORM = "writer::normalize::Normalize"
QUEUE_ACTIONS = ("finished", "new_feature", "feature_finished", "new_rule", "rule_finished", "insert_scenario_event")

EXPECTED = {
    ("std::result::Result", "Err"): "forward",
    ("event::Cucumber", "Started"): "forward",
    ("event::Cucumber", "ParsingFinished"): "forward",
    ("event::Cucumber", "Finished"): "finished",
    ("event::Feature", "Started"): "new_feature",
    ("event::Feature", "Scenario"): "insert_scenario_event[rule=None]",
    ("event::Feature", "Finished"): "feature_finished",
    ("event::Rule", "Started"): "new_rule",
    ("event::Rule", "Scenario"): "insert_scenario_event[rule=Some]",
    ("event::Rule", "Finished"): "rule_finished",
}
NON_LEAF = {("std::result::Result", "Ok"), ("event::Cucumber", "Feature"), ("event::Feature", "Rule")}


def handler(F):
    roots = [b for a, b in roles.trait_impl_methods(F, r"^writer::Writer$", "handle_event") if a == NORM]
    if len(roots) != 1:
        raise Unverifiable(f"Writer::handle_event impl for {NORM}: {len(roots)}")
    co = roles.coroutine_of(F, roots[0])
    if co is None:
        raise Unverifiable("Normalize::handle_event has no coroutine body")
    return co


def queue_action(t):
    p = callee_path(t) or ""
    m = re.search(r"^writer::normalize::Queue::<.*>::(\w+)$", p)
    if m and m.group(1) in QUEUE_ACTIONS:
        return m.group(1)
    return None


def is_inner_forward(t):
    f = op_fn(t["func"])
    return bool(f and f["path"].endswith("Writer::handle_event") and f.get("trait", "").endswith("writer::Writer") and re.match(r"^[A-Z]\w*$", f.get("self", "")))


def is_emit(t):
    return callee_is(t, r"writer::normalize::Emitter::emit$") or callee_is(t, r"Emitter<.*>>::emit")


def action_sites(co):
    """block -> action label for the first-action analysis."""
    out = {}
    for s, t in co.calls():
        qa = queue_action(t)
        if qa:
            if qa == "insert_scenario_event":
                qa += "[rule=" + rule_arg_kind(co, t) + "]"
            out[s.bb] = (qa, s, t)
        elif is_inner_forward(t):
            out[s.bb] = ("forward", s, t)
    return out


def rule_arg_kind(co, t):
    """Shape of the `rule` argument (2nd after self) of insert_scenario_event: None / Some / ?"""
    cands = [op_local(a) for a in t["args"] if op_local(a) is not None and re.match(r"^std::option::Option<event::Source<gherkin::Rule>>$", co.locals[op_local(a)])]
    if len(cands) != 1:
        return "?"
    l = cands[0]
    seen = 0
    while l is not None and seen < 6:
        seen += 1
        sd = co.single_def(l)
        if sd is None or sd[1] != "assign":
            return "?"
        rv = sd[2]["rv"]
        if rv["k"] == "agg" and rv.get("adt", "").endswith("option::Option"):
            return str(rv["variant"])
        if rv["k"] == "use":
            l = op_local(rv["op"])
            continue
        return "?"
    return "?"


def variant_edges(co):
    """(adt, variant) -> [(switch bb, target bb)] over all discriminant switches of the body."""
    out = {}
    for bb in sorted(co.live_blocks):
        t = co.blocks[bb]["term"]
        if t["k"] != "switch":
            continue
        l = op_local(t["discr"])
        if l is None:
            continue
        d = A.local_def_desc(co, l)
        if d[0] != "discr":
            continue
        vmap = {v: n for v, n in d[3]}
        listed = {v for v, _ in t["targets"]}
        for v, tg in t["targets"]:
            if v in vmap:
                out.setdefault((d[2], vmap[v]), []).append((bb, tg))
        for v, n in vmap.items():
            if v not in listed and not (co.blocks[t["otherwise"]]["term"]["k"] == "unreachable" and not co.blocks[t["otherwise"]]["stmts"]):
                out.setdefault((d[2], n), []).append((bb, t["otherwise"]))
    return out


def first_actions(co, start, acts):
    """Labels of the first action blocks reachable from `start`, and whether return / an emit call is reachable
    without passing an action."""
    seen, work, labels, leak = set(), [start], set(), None
    while work:
        x = work.pop()
        if x in seen:
            continue
        seen.add(x)
        if x in acts:
            labels.add(acts[x][0])
            continue
        t = co.blocks[x]["term"]
        if t["k"] == "return":
            leak = leak or ("return", x)
        if t["k"] == "call" and is_emit(t):
            leak = leak or ("drain loop", x)
            continue
        work.extend(co.succ[x])
    return labels, leak


def r1(F, R):
    co = handler(F)
    acts = action_sites(co)
    edges = variant_edges(co)
    # the four event enums: every variant is either a non-leaf (descended into) or in the table
    for adt in ("event::Cucumber", "event::Feature", "event::Rule"):
        a = F.adts.get(("cucumber", adt))
        if a is None:
            raise Unverifiable(f"ADT {adt} not found")
        for v in a["variants"]:
            vn = v["name"] if isinstance(v, dict) else v
            R.check((adt, vn) in EXPECTED or (adt, vn) in NON_LEAF, f"dispatch/covers/{adt.rsplit('::', 1)[-1]}::{vn}", co,
                    "variant known to the table", f"{adt}::{vn} is not in the checker's dispatch table (new event variant: extend the table after reading how Normalize orders it)")
    for (adt, var), want in EXPECTED.items():
        short = f"{adt.rsplit('::', 1)[-1]}::{var}"
        es = edges.get((adt, var), [])
        if not es:
            R.violation(f"dispatch/{short}", co, f"no match arm of Normalize::handle_event is selected by {short}: the event is not dispatched on")
            continue
        labels, leak = set(), None
        for sw, tg in es:
            ls, lk = first_actions(co, tg, acts)
            labels |= ls
            leak = leak or lk
        R.check(leak is None, f"dispatch/{short}/no-drop", Site(co, es[0][0], "T"), "every path through the arm queues or forwards the event",
                f"a path through the {short} arm reaches the {leak[0] if leak else ''} without queuing or forwarding the event: it is dropped")
        R.check(labels == {want}, f"dispatch/{short}", Site(co, es[0][0], "T"), f"-> {want}",
                f"{short} is handled by {sorted(labels) or 'nothing'}, expected {want}")
    # forwarded-at-once arms pass the original event (the Result they matched on, re-wrapped)
    for bb, (lab, st, t) in sorted(acts.items()):
        if lab != "forward" or any(is_emit(co.blocks[x]["term"]) for x in co.dom[bb] if co.blocks[x]["term"]["k"] == "call"):
            continue
        gs = [g for g in A.guards_of(co, st) if "is_finished_and_emitted" in A.describe_operand(co, g.term["discr"])]
        if gs and gs[0].polarity() is True:
            continue  # the pass-through forward (R2)
        sl = A.slice_back(co, [t["args"][1]])
        R.check(upvar_in(co, sl, "event"), "dispatch/forward/original-event", st, "forwards the event it matched on",
                "the immediately-forwarded arm does not pass the received event to the inner writer")
    R.floor(21, "dispatch clauses")


def upvar_in(co, sl, name):
    names = co.upvar_names()
    return any(names.get(u) == name for u in sl.upvars)


def entry_forward(co):
    """The pass-through forward: the inner handle_event call that is not preceded by any other action."""
    acts = action_sites(co)
    labels = []
    seen, work = set(), [0]
    firsts = []
    while work:
        x = work.pop()
        if x in seen:
            continue
        seen.add(x)
        if x in acts:
            firsts.append(acts[x])
            continue
        work.extend(co.succ[x])
    return firsts, acts


def r2(F, R):
    co = handler(F)
    firsts, acts = entry_forward(co)
    cand = []
    for lab, st, t in firsts:
        if lab != "forward":
            continue
        for g in A.guards_of(co, st):
            if "is_finished_and_emitted" in A.describe_operand(co, g.term["discr"]) and g.polarity() is not False:
                cand.append((st, t, g))
    if len(cand) != 1:
        R.violation("pass-through/guarded-forward", co, f"{len(cand)} early forwards guarded by is_finished_and_emitted() (expected 1): events arriving after the run's Finished are not passed through")
        return
    st, t, g = cand[0]
    R.ok("pass-through/polarity", st, "taken when is_finished_and_emitted() is true")
    sl = A.slice_back(co, [t["args"][1]])
    R.check(upvar_in(co, sl, "event"), "pass-through/original-event", st, "forwards the original event", "the early forward does not pass the event it received")
    bad = None
    seen, work = set(), list(co.succ[st.bb])
    while work:
        x = work.pop()
        if x in seen:
            continue
        seen.add(x)
        tt = co.blocks[x]["term"]
        if x in acts and x != st.bb:
            bad = acts[x][0]
            break
        if tt["k"] == "call" and (is_emit(tt) or callee_is(tt, r"normalize::Queue::<.*>::remove$") or callee_is(tt, r"take_to_emit$")):
            bad = callee_path(tt)
            break
        work.extend(co.succ[x])
    R.check(bad is None, "pass-through/returns", st, "returns after forwarding", f"after the pass-through forward the handler goes on to {bad}: the event is handled twice")
    R.floor(3, "pass-through clauses")


# ---- R3: drain loop and run-Finished last -----------------------------------------------------------

def guard_call(co, g):
    """The call whose result the guard switches on (through moves / downcasts), or None."""
    d = g.cond_def()
    if not d or d[0] != "discr":
        return None
    l = d[1]["l"]
    for _ in range(6):
        dd = A.local_def_desc(co, l)
        if dd[0] == "call":
            return dd[2]
        if dd[0] == "place":
            l = dd[1]["l"]
            continue
        return None
    return None


def some_guard_from(co, site, *regex):
    """Is `site` guarded by `Some` (discriminant 1) of an Option returned by a call matching regex?"""
    for g in A.guards_of(co, site):
        t = guard_call(co, g)
        if t is not None and callee_is(t, *regex) and list(g.values) == [1]:
            return True
    return False


def _cyc(co, a, b):
    return co.site_reaches(a, b) and co.site_reaches(b, a)


def r3(F, R):
    co = handler(F)
    emits = [(s, t) for s, t in co.calls() if is_emit(t)]
    removes = [(s, t) for s, t in co.calls(lambda t: callee_is(t, r"normalize::Queue::<.*>::remove$"))]
    takes = [(s, t) for s, t in co.calls(lambda t: callee_is(t, r"FinishedState::take_to_emit$"))]
    if not R.check(len(emits) == 1 and len(removes) == 1 and len(takes) == 1, "drain/one-loop", co, "one emit, one remove, one take_to_emit",
                   f"expected one drain loop: {len(emits)} emit call(s), {len(removes)} remove call(s), {len(takes)} take_to_emit call(s)"):
        return
    (es, et), (ms, mt), (ts, tt) = emits[0], removes[0], takes[0]
    R.check(_cyc(co, es, ms), "drain/loop", ms, "emit and remove form the loop", "queue.remove(..) is not inside the emit loop (an emitted feature is never removed, or removal happens once)")
    sl = A.slice_back(co, [mt["args"][1]])
    R.check(es in sl.sites, "drain/remove-emitted-key", ms, "removes the key emit returned", "queue.remove(..) is not given the key that emit(..) returned")
    ok_some = any(list(g.values) == [1] and g.cond_def() and g.cond_def()[0] == "discr" and "Option" in g.cond_def()[2] for g in A.guards_of(co, ms))
    R.check(ok_some, "drain/remove-on-some", ms, "remove only when emit returned Some", "queue.remove(..) is not guarded by emit(..) returning Some")
    R.check(co.dominates(es, ts) and not co.site_reaches(ts, es), "finished/after-drain", ts, "take_to_emit follows the drain loop",
            "state.take_to_emit() is consulted inside or before the drain loop: the run's Finished can overtake queued events")
    fins = []
    for s, t in co.calls():
        if is_inner_forward(t) and "event::Cucumber::Finished" in A.event_tags(F, co, t["args"][1])[0]:
            fins.append((s, t))
    if not R.check(len(fins) == 1, "finished/one-forward", co, "one forward of Cucumber::Finished", f"{len(fins)} forwards of Cucumber::Finished in Normalize::handle_event"):
        return
    fs, ft = fins[0]
    R.check(co.dominates(ts, fs) and some_guard_from(co, fs, r"take_to_emit$"), "finished/only-from-take_to_emit", fs,
            "Finished forwarded only when take_to_emit() is Some", "Cucumber::Finished is forwarded without take_to_emit() returning Some (emitted early or repeatedly)")
    R.check(not co.site_reaches(fs, es), "finished/last", fs, "nothing is drained after Finished", "the drain loop can run after Cucumber::Finished was forwarded")
    # every dispatch action reaches the drain loop (queued events are flushed in the same call)
    acts = action_sites(co)
    for bb, (lab, st, t) in sorted(acts.items()):
        if lab == "forward":
            continue  # an event forwarded at once changes no queue: nothing new can have become ready
        R.check(co.site_reaches(st, es), f"drain/after/{lab}", st, "drain loop follows", f"after `{lab}` the handler does not run the drain loop: ready events stay queued")
    R.floor(15, "drain clauses")


def guard_is_fae(co, g):
    return "is_finished_and_emitted" in A.describe_operand(co, g.term["discr"])


# ---- R4: the finished-state machine ---------------------------------------------------------------

FS = "writer::normalize::FinishedState"


def _interp_state_fn(body):
    """Abstractly run a `fn(&mut FinishedState) -> Option<_>`: per acyclic path (constraint on the original state,
    final state, returned Option variant).  Values: 'S0' | 'V:<variant>' | None."""
    out = []

    def val_of_op(op, vals, cell):
        pl = op_place(op)
        if pl is None:
            return None
        if pl["l"] == 1 and pl["p"] == ["*"]:
            return cell
        if not pl["p"]:
            return vals.get(pl["l"])
        return None

    def walk(bb, seen, vals, refs, cell, cons, ret, discr_of):
        if len(out) > 64:
            raise Unverifiable("take_to_emit: too many paths")
        vals, refs, cons, discr_of = dict(vals), set(refs), dict(cons), dict(discr_of)
        for st in body.blocks[bb]["stmts"]:
            pl, rv = st["pl"], st["rv"]
            if pl["l"] == 1 and pl["p"] == ["*"]:
                if rv["k"] == "use":
                    cell = val_of_op(rv["op"], vals, cell)
                elif rv["k"] == "agg" and rv.get("adt") == FS:
                    cell = "V:" + str(rv["variant"])
                else:
                    cell = None
                continue
            if pl["p"]:
                continue
            l = pl["l"]
            vals.pop(l, None)
            refs.discard(l)
            if rv["k"] == "agg" and rv.get("adt") == FS:
                vals[l] = "V:" + str(rv["variant"])
            elif rv["k"] == "agg" and rv.get("adt", "").endswith("option::Option") and l == 0:
                ret = str(rv["variant"])
            elif rv["k"] == "use":
                v = val_of_op(rv["op"], vals, cell)
                if v is not None:
                    vals[l] = v
                sl = op_local(rv["op"])
                if sl is not None and (sl in refs or sl == 1):
                    refs.add(l)
            elif rv["k"] == "ref":
                rp = rv["pl"]
                if rp["l"] == 1 and rp["p"] == ["*"]:
                    refs.add(l)
            elif rv["k"] == "discr":
                dp = rv["pl"]
                if dp["l"] == 1 and dp["p"] == ["*"]:
                    discr_of[l] = ("cell", {v: n for v, n in rv["variants"]})
                elif not dp["p"]:
                    discr_of[l] = (dp["l"], {v: n for v, n in rv["variants"]})
        t = body.blocks[bb]["term"]
        k = t["k"]
        if k == "return":
            out.append((cons.get("S0"), cell, ret))
            return
        if k == "call":
            if callee_is(t, r"mem::replace$") and op_local(t["args"][0]) in refs | {1}:
                old = cell
                cell = val_of_op(t["args"][1], vals, cell)
                if not t["dest"]["p"]:
                    vals[t["dest"]["l"]] = old
            else:
                for a in t["args"]:
                    if op_local(a) in refs | {1}:
                        raise Unverifiable(f"take_to_emit passes the state to {callee_path(t)}: not modelled")
                if not t["dest"]["p"]:
                    vals.pop(t["dest"]["l"], None)
        if k == "switch":
            l = op_local(t["discr"])
            d = discr_of.get(l)
            allv = None
            which = None
            if d is not None:
                src, vmap = d
                which = cell if src == "cell" else vals.get(src)
                allv = vmap
            listed = {v for v, _ in t["targets"]}
            for v, tg in t["targets"] + [(None, t["otherwise"])]:
                if tg in seen or tg not in body.succ[bb]:
                    continue
                c2 = dict(cons)
                if allv is not None and which == "S0":
                    vs = {allv[v]} if v is not None and v in allv else {n for x, n in allv.items() if x not in listed}
                    c2["S0"] = (c2["S0"] & vs) if "S0" in c2 else vs
                    if not c2["S0"]:
                        continue
                walk(tg, seen | {bb}, vals, refs, cell, c2, ret, discr_of)
            return
        for s2 in body.succ[bb]:
            if s2 not in seen:
                walk(s2, seen | {bb}, vals, refs, cell, cons, ret, discr_of)

    walk(0, set(), {}, set(), "S0", {}, None, {})
    return out


def r4(F, R):
    tk = [b for b in F.crate_bodies() if b.name == f"{FS}::take_to_emit"]
    if len(tk) != 1:
        raise Unverifiable(f"FinishedState::take_to_emit: {len(tk)}")
    tk = tk[0]
    a = F.adts.get(("cucumber", FS))
    allv = {v["name"] for v in a["variants"]}
    R.check(allv == {"NotFinished", "FinishedButNotEmitted", "FinishedAndEmitted"}, "state/variants", tk, "three states", f"FinishedState has variants {sorted(allv)}: the checker's table covers three")
    paths = _interp_state_fn(tk)
    some_cons = set()
    for cons, final, ret in paths:
        cons = set(cons) if cons is not None else set(allv)
        if ret == "Some":
            some_cons |= cons
            R.check(final == "V:FinishedAndEmitted", "state/take/some-leaves-emitted", tk, "Some(meta) leaves FinishedAndEmitted",
                    f"take_to_emit returns Some but leaves the state {final}: the same Finished is emitted again on the next event")
        elif ret == "None":
            keeps = final == "S0" or (final and final.startswith("V:") and cons == {final[2:]})
            R.check(keeps, f"state/take/none-keeps/{'+'.join(sorted(cons))}", tk, "None leaves the state as it was",
                    f"take_to_emit returns None for {sorted(cons)} but changes the state to {final}")
        else:
            R.unverifiable("state/take/ret", f"a path of take_to_emit returns an unrecognised value ({ret})")
    R.check(some_cons == {"FinishedButNotEmitted"}, "state/take/some-iff-pending", tk, "Some exactly for FinishedButNotEmitted",
            f"take_to_emit returns Some for {sorted(some_cons)} (expected exactly FinishedButNotEmitted)")
    # is_finished_and_emitted
    fae = [b for b in F.crate_bodies() if re.match(r"^writer::normalize::Queue::<.*>::is_finished_and_emitted$", b.name)]
    if len(fae) != 1:
        raise Unverifiable(f"Queue::is_finished_and_emitted: {len(fae)}")
    fae = fae[0]
    true_for = set()
    okp = True
    for p in A.enumerate_paths(fae):
        vs = None
        for atom, outc in p.decisions:
            if atom.startswith("discr(") and FS in atom and atom.split(":")[0].endswith(".state"):
                vs = set(outc.split("|"))
        if p.ret is True:
            if vs is None:
                okp = False
            else:
                true_for |= vs
        elif p.ret is not False:
            okp = False
    R.check(okp and true_for == {"FinishedAndEmitted"}, "state/is_finished_and_emitted", fae, "true exactly for FinishedAndEmitted",
            f"is_finished_and_emitted() is true for {sorted(true_for) or 'an unrecognised condition'}: pass-through starts too early or never")
    # writers of Queue.state
    writers = {}
    for b in F.crate_bodies():
        if "normalize" not in b.name:
            continue
        for s, st in b.assigns(lambda st: place_fields(st["pl"])[-1:] == [("writer::normalize::Queue", "state")]):
            rv = st["rv"]
            v = None
            if rv["k"] == "agg" and rv.get("adt") == FS:
                v = str(rv["variant"])
            elif rv["k"] == "use" and op_local(rv["op"]) is not None:
                sd = b.single_def(op_local(rv["op"]))
                if sd and sd[1] == "assign" and sd[2]["rv"]["k"] == "agg" and sd[2]["rv"].get("adt") == FS:
                    v = str(sd[2]["rv"]["variant"])
                elif sd and sd[1] == "call" and callee_is(sd[2], r"Clone::clone$"):
                    v = "clone"
            writers.setdefault(re.sub(r"::<.*>::", "::", b.name), set()).add(v)
        for s, st in b.assigns(lambda st: st["rv"]["k"] == "agg" and st["rv"].get("adt") == "writer::normalize::Queue"):
            rv = st["rv"]
            flds = a2 = F.adts.get(("cucumber", "writer::normalize::Queue"))["variants"][0]["fields"]
            idx = [i for i, f in enumerate(flds) if f["name"] == "state"][0]
            op = rv["ops"][idx]
            v = None
            l = op_local(op)
            if l is not None:
                sd = b.single_def(l)
                if sd and sd[1] == "assign" and sd[2]["rv"]["k"] == "agg" and sd[2]["rv"].get("adt") == FS:
                    v = str(sd[2]["rv"]["variant"])
                elif sd and sd[1] == "call" and callee_is(sd[2], r"Clone::clone$"):
                    v = "clone"
                elif sd and sd[1] == "assign" and sd[2]["rv"]["k"] == "use":
                    v = "clone" if "Clone" in b.name else None
            writers.setdefault(re.sub(r"::<.*>::", "::", b.name), set()).add(v)
    want = {"writer::normalize::Queue::new": {"NotFinished"}, "writer::normalize::Queue::finished": {"FinishedButNotEmitted"}}
    for fn, vs in sorted(writers.items()):
        if "Clone" in fn:
            continue
        R.check(want.get(fn) == vs, f"state/writer/{fn.rsplit('::', 1)[-1]}", None, f"{fn} stores {sorted(map(str, vs))}",
                f"{fn} stores {sorted(map(str, vs))} into Queue.state (only Queue::new -> NotFinished and Queue::finished -> FinishedButNotEmitted may)")
    for fn in want:
        R.check(fn in writers, f"state/writer-present/{fn.rsplit('::', 1)[-1]}", None, "present", f"{fn} no longer stores the state it stands for")
    # &mut state handed only to take_to_emit
    for b in F.crate_bodies():
        if "normalize" not in b.name:
            continue
        for s, st in b.assigns(lambda st: st["rv"]["k"] == "ref" and st["rv"].get("mut") and place_fields(st["rv"]["pl"])[-1:] == [("writer::normalize::Queue", "state")]):
            uses, _al = A.forward_uses(b, st["pl"]["l"])
            ok = bool(uses) and all(callee_is(t, r"FinishedState::take_to_emit$") for _, t, _i in uses)
            R.check(ok, f"state/mut-borrow/{re.sub(r'::<.*>::', '::', b.short)}", s, "&mut state goes to take_to_emit only", "a &mut borrow of Queue.state escapes to something other than take_to_emit")
    R.floor(8, "state-machine clauses")


# ---- R5: FIFO discipline of the containers ----------------------------------------------------------

EVENT_VEC = r"event::Event<event::RetryableScenario<"
# container operations that keep insertion order / address by key / are read-only
MAP_OK = {"new": "neutral", "with_capacity": "neutral", "len": "neutral", "is_empty": "neutral", "contains_key": "keyed", "get": "keyed",
          "get_mut": "keyed", "remove": "keyed", "insert": "append", "entry": "append", "iter": "front-iter", "iter_mut": "front-iter",
          "front": "front", "keys": "front-iter", "values": "front-iter", "values_mut": "front-iter"}
ENTRY_OK = {"or_insert_with": "append", "or_insert": "append", "or_default": "append", "key": "neutral"}
VEC_OK = {"new": "neutral", "with_capacity": "neutral", "len": "neutral", "is_empty": "neutral", "push": "append", "first": "front",
          "remove": "front-if-0", "iter": "front-iter", "reserve": "neutral"}
ITER_OK = {"next"}


def _strip(p):
    return re.sub(r"<[^<>]*(<[^<>]*(<[^<>]*(<[^<>]*(<[^<>]*>[^<>]*)*>[^<>]*)*>[^<>]*)*>[^<>]*)*>", "", p)


def normalize_bodies(F):
    return [b for b in F.crate_bodies() if "writer::normalize::" in b.name and "AssertNormalized" not in b.name]


def r5(F, R):
    census = {}
    for b in normalize_bodies(F):
        bshort = _strip(b.short).replace("::::", "::")
        for st, t in b.calls():
            f = op_fn(t["func"])
            if not f:
                continue
            path, full, slf = f["path"], f.get("full", ""), f.get("self", "")
            meth = path.rsplit("::", 1)[-1]
            kind = None
            if path.startswith("linked_hash_map::LinkedHashMap::"):
                kind = ("map", MAP_OK.get(meth))
            elif path.startswith("linked_hash_map::Entry::") or path.startswith("linked_hash_map::OccupiedEntry::") or path.startswith("linked_hash_map::VacantEntry::"):
                kind = ("entry", ENTRY_OK.get(meth))
            elif path.startswith("std::vec::Vec::") and EVENT_VEC in full:
                k = VEC_OK.get(meth)
                if k == "front-if-0":
                    k = "front" if const_int(t["args"][1]) == 0 else None
                kind = ("vec", k)
            elif "linked_hash_map::" in slf and f.get("trait", "").endswith("Iterator"):
                kind = ("map-iter", "front" if meth in ITER_OK else None)
            elif re.search(r"VecDeque|BTreeMap|HashMap|BinaryHeap", path) and "normalize" in b.name:
                kind = ("other-container", None)
            elif f.get("trait", "").endswith("Clone") and "linked_hash_map" in slf:
                continue
            if kind is None:
                continue
            cont, k = kind
            inst = f"fifo/op/{bshort[-60:]}/{cont}.{meth}"
            census.setdefault(k, []).append((b, st, meth))
            R.check(k is not None, inst, st, f"{cont}.{meth}: {k}",
                    f"{cont}.{meth}(..) in {bshort} is not in the order-preserving set (front take / append / keyed / read-only): queued events can be re-ordered, skipped or dropped")
    # the four current_item implementations take the front
    cis = roles.trait_impl_methods(F, r"normalize::Emitter$", "current_item")
    R.check(len(cis) == 4, "fifo/current_item/impls", None, "4 Emitter impls", f"{len(cis)} Emitter::current_item implementations (expected 4: run, feature, rule, scenario queues)")
    for a, b in cis:
        fronts = []
        for nb in F.nested(b):
            for st, t in nb.calls():
                f = op_fn(t["func"])
                if not f:
                    continue
                meth = f["path"].rsplit("::", 1)[-1]
                if ("linked_hash_map::" in f.get("self", "") and f.get("trait", "").endswith("Iterator") and meth == "next") or \
                   (f["path"].startswith("std::vec::Vec::") and meth == "remove" and const_int(t["args"][1]) == 0) or \
                   (f["path"].startswith("linked_hash_map::LinkedHashMap::") and meth in ("front", "pop_front")):
                    fronts.append(st)
        tag = _strip(b.impl.get("self", "") if b.impl else b.short)
        nm = "scenario-events" if "ScenariosQueue" in tag and "Queue<" not in (b.impl.get("self", "") if b.impl else "").replace("ScenariosQueue<", "") else None
        selfty = b.impl.get("self", "") if b.impl else ""
        if selfty.startswith("&mut writer::normalize::ScenariosQueue") or selfty.startswith("&'me mut writer::normalize::ScenariosQueue"):
            nm = "scenario-events"
        elif "Queue<event::Source<gherkin::Feature>" in selfty:
            nm = "features"
        elif "Queue<itertools::Either" in selfty:
            nm = "feature-items"
        else:
            nm = "rule-scenarios"
        R.check(len(fronts) == 1, f"fifo/current_item/{nm}", b, "takes the front element", f"current_item of the {nm} queue does not take exactly the front element of its container ({len(fronts)} front accesses)")
    # appends present: events pushed, keys inserted
    n_push = len([1 for b, st, m in census.get("append", []) if m == "push"])
    n_ins = len([1 for b, st, m in census.get("append", []) if m in ("insert", "entry")])
    R.check(n_push >= 2, "fifo/append/scenario-events", None, f"{n_push} Vec::push sites", "scenario events are no longer appended with Vec::push at the two insert_scenario_event sites")
    R.check(n_ins >= 4, "fifo/append/keys", None, f"{n_ins} insert/entry sites", "features / rules / scenarios are no longer inserted at the back of their insertion-ordered maps")
    # Queue::remove removes the key it is given; every caller passes a key returned by an emit
    rm = [b for b in F.crate_bodies() if re.match(r"^writer::normalize::Queue::<.*>::remove$", b.name)]
    if len(rm) != 1:
        raise Unverifiable(f"Queue::remove: {len(rm)}")
    rm = rm[0]
    calls = [(st, t) for st, t in rm.calls(lambda t: callee_is(t, r"LinkedHashMap::<.*>::remove$"))]
    okk = len(calls) == 1 and 2 in A.slice_back(rm, [calls[0][1]["args"][1]]).params
    R.check(okk, "fifo/remove/by-key", rm, "removes the given key", "Queue::remove does not remove the entry of the key it is given")
    n_callers = 0
    for b in normalize_bodies(F):
        for st, t in b.calls(lambda t: callee_is(t, r"normalize::Queue::<.*>::remove$")):
            n_callers += 1
            sl = A.slice_back(b, [t["args"][1]])
            ok = any(is_emit(tt) for _, tt in sl.calls)
            R.check(ok, f"fifo/remove/caller/{_strip(b.short)[-50:]}", st, "key comes from emit", "Queue::remove is called with a key that does not come from an Emitter::emit result")
    R.floor(30, "FIFO clauses")


# ---- R6: nested emitters ------------------------------------------------------------------------------

def r6(F, R):
    ems = roles.trait_impl_methods(F, r"normalize::Emitter$", "emit")
    R.check(len(ems) == 4, "emit/impls", None, "4 Emitter::emit impls", f"{len(ems)} Emitter::emit implementations (expected 4)")
    for a, b in ems:
        co = roles.coroutine_of(F, b)
        if co is None:
            R.unverifiable("emit/coroutine", f"{b.short} has no coroutine body")
            continue
        selfty = b.impl.get("self", "") if b.impl else ""
        if "ScenariosQueue" in selfty.split("<")[0] or selfty.replace("&'me mut ", "").replace("&mut ", "").startswith("writer::normalize::ScenariosQueue"):
            _scenario_emit(F, R, co)
            continue
        if "Queue<event::Source<gherkin::Feature>" in selfty:
            _keyed_emit(F, R, co, "features", "event::Feature::Started", "event::Feature::Finished", {"event::Rule::Started", "event::Rule::Finished"})
        elif "Queue<itertools::Either" in selfty:
            _dispatch_emit(F, R, co)
        else:
            _keyed_emit(F, R, co, "rule-scenarios", "event::Rule::Started", "event::Rule::Finished", set())
    R.floor(20, "nested emitter clauses")


def _fwds(F, co):
    out = []
    for st, t in co.calls():
        if is_inner_forward(t):
            out.append((st, t, A.event_tags(F, co, t["args"][1])[0]))
    return out


def _ret_sites(co):
    some, none = [], []
    for st, s in co.assigns(lambda s: not s["pl"]["p"] and s["pl"]["l"] == 0 and s["rv"]["k"] == "agg" and s["rv"].get("adt", "").endswith("option::Option")):
        (some if str(s["rv"]["variant"]) == "Some" else none).append(st)
    return some, none


def _keyed_emit(F, R, co, nm, started, finished, foreign):
    fw = _fwds(F, co)
    st_f = [(s, t) for s, t, tags in fw if started in tags and finished not in tags]
    fi_f = [(s, t) for s, t, tags in fw if finished in tags and started not in tags]
    other = [(s, t, tags) for s, t, tags in fw if not ((started in tags) ^ (finished in tags))]
    R.check(len(st_f) == 1 and len(fi_f) == 1 and not other, f"emit/{nm}/forwards", co, "one Started and one Finished forward",
            f"the {nm} emitter forwards {len(st_f)} Started, {len(fi_f)} Finished and {len(other)} other events itself (expected 1, 1, 0)")
    if len(st_f) != 1 or len(fi_f) != 1:
        return
    (ss, _), (fs, _) = st_f[0], fi_f[0]
    R.check(some_guard_from(co, ss, r"Option::<.*>::take$", r"option::Option::<T>::take$"), f"emit/{nm}/started-once", ss, "Started only from initial.take()",
            f"the {nm} emitter forwards Started without consuming `initial` (it is emitted on every drain, or never)")
    # initial.take(): the receiver is the `initial` field
    nested = [(s, t) for s, t in co.calls() if is_emit(t)]
    R.check(len(nested) >= 1, f"emit/{nm}/nested", co, "drains its children", f"the {nm} emitter never calls its children's emit")
    for s, t in nested:
        R.check(co.site_reaches(ss, s) and not co.site_reaches(s, ss), f"emit/{nm}/started-first", ss, "Started precedes the children's events",
                f"the {nm} emitter can forward its Started after events of its children")
        R.check(co.site_reaches(s, fs) and not co.site_reaches(fs, s), f"emit/{nm}/finished-last", fs, "Finished follows the children's drain",
                f"the {nm} emitter can forward its Finished before its children are drained (or drain again after it)")
    R.check(some_guard_from(co, fs, r"take_to_emit$"), f"emit/{nm}/finished-from-state", fs, "Finished only when take_to_emit() is Some",
            f"the {nm} emitter forwards Finished without take_to_emit() returning Some")
    some, none = _ret_sites(co)
    R.check(bool(some) and all(co.dominates(fs, r) for r in some), f"emit/{nm}/remove-me-after-finished", some[0] if some else co,
            "returns Some(key) only after forwarding Finished", f"the {nm} emitter returns Some(key) (= remove me) on a path that did not forward Finished: its queued events are discarded")
    R.check(bool(none), f"emit/{nm}/not-finished-none", co, "returns None otherwise", f"the {nm} emitter never returns None")
    # children are taken through current_item
    R.check(any(True for s, t in co.calls(lambda t: callee_is(t, r"Emitter::current_item$", r"Emitter<.*>>::current_item$"))), f"emit/{nm}/current_item", co,
            "children come from current_item()", f"the {nm} emitter does not take its child through current_item()")


def _dispatch_emit(F, R, co):
    nm = "feature-items"
    fw = _fwds(F, co)
    R.check(not fw, f"emit/{nm}/no-own-events", co, "forwards nothing itself", "the feature-items emitter forwards events itself")
    nested = [(s, t) for s, t in co.calls() if is_emit(t)]
    R.check(len(nested) == 2, f"emit/{nm}/delegates", co, "delegates to rule / scenario emitters", f"{len(nested)} delegating emit calls (expected 2)")
    R.check(any(True for s, t in co.calls(lambda t: callee_is(t, r"Emitter::current_item$", r"Emitter<.*>>::current_item$"))), f"emit/{nm}/current_item", co,
            "child comes from current_item()", "the feature-items emitter does not take its child through current_item()")


def _scenario_emit(F, R, co):
    nm = "scenario-events"
    fw = _fwds(F, co)
    if not R.check(len(fw) == 1, f"emit/{nm}/one-forward", co, "one forward per event", f"{len(fw)} forwards in the scenario-events emitter (expected 1)"):
        return
    fs, ft, tags = fw[0]
    cur = [(s, t) for s, t in co.calls(lambda t: callee_is(t, r"Emitter::current_item$", r"Emitter<.*>>::current_item$"))]
    R.check(len(cur) == 1 and cur[0][0] in A.slice_back(co, [ft["args"][1]]).sites, f"emit/{nm}/forwards-current", fs, "forwards the event current_item() returned",
            "the forwarded scenario event does not come from current_item()")
    R.check(len(cur) == 1 and co.site_reaches(fs, cur[0][0]), f"emit/{nm}/loop", fs, "loops until the buffer is empty or the scenario finished", "the scenario-events emitter forwards at most one event per call")
    some, none = _ret_sites(co)
    ok_dom = bool(some) and all(co.dominates(fs, r) for r in some)
    R.check(ok_dom, f"emit/{nm}/remove-me-after-forward", some[0] if some else co, "Some only after the forward", "the scenario-events emitter returns Some(..) before forwarding the event")
    # Some(..) only when the forwarded event is Scenario::Finished
    ok_fin = bool(some)
    for r in some:
        fin = False
        for g in A.guards_of(co, r):
            t = guard_call(co, g)
            if t is None or list(g.values) != [1] or not callee_is(t, r"bool>?::then$", r"bool::then$", r"::then::<"):
                continue
            bl = op_local(t["args"][0])
            if bl is None:
                continue
            trues = [d for d in co.defs.get(bl, []) if d[1] == "assign" and d[2]["rv"]["k"] == "use" and const_int(d[2]["rv"]["op"]) == 1]
            falses = [d for d in co.defs.get(bl, []) if d[1] == "assign" and d[2]["rv"]["k"] == "use" and const_int(d[2]["rv"]["op"]) == 0]
            if trues and falses and len(trues) + len(falses) == len(co.defs.get(bl, [])):
                if all(W.vc_by_adt(co, d[0]).get("event::Scenario") == frozenset(["Finished"]) for d in trues):
                    fin = True
        ok_fin = ok_fin and fin
    R.check(ok_fin, f"emit/{nm}/remove-me-iff-finished", some[0] if some else co, "Some only for Scenario::Finished",
            "the scenario-events emitter reports the scenario as removable for an event other than Scenario::Finished: later events of the scenario are lost (or it is never removed)")


# ---- R7: routing of a scenario event to its buffer ----------------------------------------------------

def _param(b, name):
    ls = [l for l in b.local_by_name(name) if 1 <= l <= b.arg_count]
    if len(ls) != 1:
        raise Unverifiable(f"parameter `{name}` of {b.short}: {len(ls)}")
    return ls[0]


def r7(F, R):
    outer = [b for b in F.crate_bodies() if re.match(r"^writer::normalize::Queue::<event::Source<gherkin::Feature>, .*>::insert_scenario_event$", b.name)]
    inner = [b for b in F.crate_bodies() if re.match(r"^writer::normalize::Queue::<itertools::Either<.*>::insert_scenario_event$", b.name)]
    if len(outer) != 1 or len(inner) != 1:
        raise Unverifiable(f"insert_scenario_event bodies: {len(outer)} run-level, {len(inner)} feature-level")
    ob, ib = outer[0], inner[0]
    # run level: look the feature up by the given key and hand rule / scenario / event down unchanged
    calls = [(st, t) for st, t in ob.calls() if F.callee_body(t, ob.crate) is ib]
    if R.check(len(calls) == 1, "route/run-level/delegates", ob, "delegates to the feature's queue", f"{len(calls)} delegating calls in the run-level insert_scenario_event"):
        st, t = calls[0]
        recv = A.slice_back(ob, [t["args"][0]])
        R.check(_param(ob, "feat") in recv.params and any(callee_is(tt, r"LinkedHashMap::<.*>::get_mut$") for _, tt in recv.calls), "route/run-level/feature-by-key", st,
                "feature queue looked up by the event's feature", "the feature queue is not looked up by the event's own feature: the event lands in another feature's buffer")
        want = {"rule": 1, "scenario": 2, "event": 4}
        for nm, i in want.items():
            sl = A.slice_back(ob, [t["args"][i]])
            R.check(_param(ob, nm) in sl.params, f"route/run-level/passes-{nm}", st, f"passes `{nm}` down", f"the run-level insert_scenario_event does not pass its `{nm}` down to the feature queue")
    # feature level: two buffers, chosen by `rule`
    pushes = [(st, t) for st, t in ib.calls(lambda t: callee_is(t, r"vec::Vec::<.*>::push$"))]
    if not R.check(len(pushes) == 2, "route/feature-level/two-buffers", ib, "one push per branch", f"{len(pushes)} Vec::push sites in the feature-level insert_scenario_event (expected 2)"):
        return
    rule_l, sc_l, re_l, ev_l = _param(ib, "rule"), _param(ib, "scenario"), _param(ib, "retries"), _param(ib, "ev")
    seen = set()
    for st, t in pushes:
        branch = None
        for g in A.guards_of(ib, st):
            d = g.cond_def()
            if d and d[0] == "discr" and d[1]["l"] == rule_l and not d[1]["p"]:
                branch = "in-rule" if list(g.values) == [1] else "top-level"
        if branch is None:
            R.violation("route/feature-level/branch", st, "a Vec::push of the scenario event is not selected by whether the event carries a rule")
            continue
        seen.add(branch)
        R.check(ev_l in A.slice_back(ib, [t["args"][1]]).params, f"route/feature-level/{branch}/pushes-event", st, "pushes the given event", "the pushed value is not the event that was passed in")
        recv = A.slice_back(ib, [t["args"][0]])
        need = {sc_l: "scenario", re_l: "retries"}
        if branch == "in-rule":
            need[rule_l] = "rule"
        missing = [n for l, n in need.items() if l not in recv.params]
        R.check(not missing, f"route/feature-level/{branch}/buffer-key", st, f"buffer addressed by {sorted(need.values())}",
                f"the buffer the event is pushed to is not addressed by {missing}: events of different scenarios / retry attempts / rules share a buffer")
        if branch == "top-level":
            R.check(rule_l not in recv.params or True, f"route/feature-level/{branch}/entry", st, "entry().or_insert_with")
        has_entry = any(callee_is(tt, r"LinkedHashMap::<.*>::entry$") for _, tt in recv.calls)
        R.check(has_entry, f"route/feature-level/{branch}/creates-on-first", st, "buffer created on first event (entry)", "the scenario's buffer is not created on its first event")
    R.check(seen == {"in-rule", "top-level"}, "route/feature-level/both-branches", ib, "both branches push", f"only {sorted(seen)} push the event")
    R.floor(14, "routing clauses")


RULES = [("R1", r1, None), ("R2", r2, None), ("R3", r3, None), ("R4", r4, None), ("R5", r5, None), ("R6", r6, None), ("R7", r7, None)]
