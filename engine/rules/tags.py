"""Shared rule: "the tags of scenario, rule and feature are all considered" — used by C07, C13, C15, C18.

The union must be built by unconditional composition (`Iterator::chain`): every leaf operand of the chain tree reads
the `tags` of exactly one of gherkin::{Scenario, Rule, Feature}, and the three leaves together cover all three.  A leaf
that *selects* between two levels (`rule.map_or(&feature.tags, |r| &r.tags)`) is reported: one level is then ignored
whenever the other is present."""
import re

from . import analysis as A
from .mir import callee_is, op_fn, op_local, op_place, place_fields

OWNERS = ("gherkin::Scenario", "gherkin::Rule", "gherkin::Feature")


def fields_read_deep(F, body, sl):
    """`tags` owners read in a slice, including inside closures that flow into it."""
    owners = {o for o, n in sl.fields if n == "tags" and o in OWNERS}
    for _, rv in sl.aggs:
        if rv.get("agg") == "closure":
            kb = F.body(rv["def"], body.crate)
            if kb is None:
                continue
            for nb in F.nested(kb):
                for _, st in nb.assigns():
                    for pl in A.rvalue_places(st["rv"]):
                        for o, n in place_fields(pl):
                            if n == "tags" and o in OWNERS:
                                owners.add(o)
    return owners


def chain_leaves(F, body, op, depth=0):
    """Leaf operands (as (body, operand)) of the `Iterator::chain` tree whose root value is `op`."""
    if depth > 8:
        return [(body, op)]
    l = op_local(op)
    if l is None:
        return [(body, op)]
    cp = A.canon_place(body, {"l": l, "p": []})
    sd = body.single_def(cp["l"]) if not cp["p"] else None
    # `&mut chain` / `&chain` passed by reference
    for _ in range(3):
        if sd and sd[1] == "assign" and sd[2]["rv"]["k"] == "ref" and not sd[2]["rv"]["pl"]["p"]:
            cp = A.canon_place(body, sd[2]["rv"]["pl"])
            sd = body.single_def(cp["l"]) if not cp["p"] else None
        else:
            break
    if sd and sd[1] == "call" and callee_is(sd[2], r"Iterator::chain$"):
        return chain_leaves(F, body, sd[2]["args"][0], depth + 1) + chain_leaves(F, body, sd[2]["args"][1], depth + 1)
    return [(body, op)]


def check_tag_union(F, R, body, op, inst, site=None, what="tags"):
    """`op`: the iterator that is searched / evaluated.  Reports instances `<inst>/…`."""
    leaves = chain_leaves(F, body, op)
    cover = {}
    ok = True
    for b, lo in leaves:
        sl = A.slice_back(b, [lo], stop_calls=[r"Iterator::chain$"])
        owners = fields_read_deep(F, b, sl)
        # a leaf must not select between levels
        if len(owners) > 1:
            ok = False
            R.violation(f"{inst}/leaf-selects-between-levels", site or b,
                        f"one operand of the {what} union reads the tags of {sorted(o.split('::')[1] for o in owners)}: it selects one level, "
                        "so the other level's tags are ignored whenever the first is present")
        for o in owners:
            cover[o] = cover.get(o, 0) + 1
    missing = [o.split("::")[1].lower() for o in OWNERS if o not in cover]
    R.check(not missing and ok, f"{inst}/covers-three-levels", site or body, f"{what} = scenario ∪ rule ∪ feature tags (chained unconditionally)",
            f"the {what} union does not (unconditionally) include the tags of: {missing or 'see leaf report'}")
    return not missing and ok
