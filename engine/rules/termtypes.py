"""Types and field names of deep-table terms.

Deep terms address fields by index (`("field", t, 2)`).  Rules that speak about *which* datum of a value reaches a sink
("the JSON step's `name` is the gherkin step's `value`") need the name: it is recovered from the projection facts of the
MIR (every field projection carries owner ADT, index, name and type), collected once per fact set, so that names of
fields of external ADTs (gherkin::Step ...) are known as well — without any table written by hand.
"""
import re


def _field_map(F):
    fm = getattr(F, "_field_map", None)
    if fm is not None:
        return fm
    fm = {}

    def scan_place(pl):
        if not isinstance(pl, dict):
            return
        for e in pl.get("p", ()):
            if isinstance(e, dict) and "f" in e:
                fm.setdefault((e["o"], e["f"]), (e["n"], e.get("t")))

    def scan(x):
        if isinstance(x, dict):
            if "l" in x and "p" in x:
                scan_place(x)
            for v in x.values():
                scan(v)
        elif isinstance(x, list):
            for v in x:
                scan(v)

    for b in F.bodies.values():
        for blk in b.blocks:
            scan(blk)
    for (c, path), a in F.adts.items():
        for v in a.get("variants", ()):
            owner = path if a.get("kind") != "Enum" else f"{path}::{v['name']}"
            for i, f in enumerate(v.get("fields", ())):
                fm.setdefault((owner, i), (f["name"], f.get("ty")))
    F._field_map = fm
    return fm


def strip_refs(ty):
    if ty is None:
        return None
    ty = ty.strip()
    while True:
        m = re.match(r"^&(?:'\w+ )?(?:mut )?(.*)$", ty)
        if m:
            ty = m.group(1).strip()
            continue
        m = re.match(r"^(?:std::boxed::Box|std::sync::Arc|std::rc::Rc|event::Source)<(.*)>$", ty)
        if m and _balanced(m.group(1)):
            ty = m.group(1).strip()
            continue
        return ty


def _balanced(s):
    d = 0
    for ch in s:
        if ch == "<":
            d += 1
        elif ch == ">":
            d -= 1
            if d < 0:
                return False
        elif ch == "," and d == 0:
            return False
    return d == 0


def adt_path(ty):
    """`a::b::C<X, Y>` -> `a::b::C`"""
    ty = strip_refs(ty)
    if ty is None:
        return None
    m = re.match(r"^([A-Za-z_][\w:]*)", ty)
    return m.group(1) if m else None


def generic_args(ty):
    ty = strip_refs(ty) or ""
    i = ty.find("<")
    if i < 0 or not ty.endswith(">"):
        return []
    inner, out, d, cur = ty[i + 1:-1], [], 0, ""
    for ch in inner:
        if ch == "<":
            d += 1
        elif ch == ">":
            d -= 1
        if ch == "," and d == 0:
            out.append(cur.strip())
            cur = ""
        else:
            cur += ch
    if cur.strip():
        out.append(cur.strip())
    return out


def place_term(pl):
    """A heap place as a term (so that it can be typed / named), or None."""
    if not isinstance(pl, tuple) or not pl:
        return None
    k = pl[0]
    if k == "deref":
        return ("deref", pl[1])
    if k in ("field", "as", "index"):
        b = place_term(pl[1])
        return None if b is None else (k, b, pl[2])
    if k == "L" and pl[1] == 0:
        return ("arg", pl[2])
    return None


class Typer:
    """Type / dotted field-name rendering of terms rooted at the arguments of `body`."""

    def __init__(self, F, body, dp=None):
        self.F, self.body, self.dp = F, body, dp
        self.fm = _field_map(F)
        self.nested = body.kind in ("Closure", "SyntheticCoroutineBody")
        self.upnames = body.upvar_names() if self.nested else {}
        self.parent = F.parent_body(body) if self.nested else None

    def _upvar(self, t):
        """(name, type) of a captured variable term of a closure / coroutine body, else None."""
        if self.nested and isinstance(t, tuple) and t[0] == "field" and t[1] in (("arg", 1), ("deref", ("arg", 1))):
            nm = self.upnames.get(t[2])
            if nm is None:
                return None
            ty = None
            if self.parent is not None:
                ls = self.parent.local_by_name(nm)
                if ls:
                    ty = self.parent.locals[ls[0]]
            return nm, ty
        return None

    def ty(self, t):
        if not isinstance(t, tuple) or not t:
            return None
        k = t[0]
        if k == "arg":
            return self.body.locals[t[1]] if t[1] < len(self.body.locals) else None
        up = self._upvar(t)
        if up is not None:
            return up[1]
        if k == "call":
            cb = self.F.body(t[1], self.body.crate)
            return cb.locals[0] if cb is not None else None
        if k == "ref":
            pt = place_term(t[1])
            return None if pt is None else self.ty(pt)
        if k == "deref":
            inner = self.ty(t[1])
            if inner is None:
                return None
            m = re.match(r"^&(?:'\w+ )?(?:mut )?(.*)$", inner.strip())
            return m.group(1) if m else strip_refs(inner)
        if k == "as":
            base = self.ty(t[1])
            if base is None and self.dp is not None:
                base = self.dp.adt_of.get(("discr", t[1]))
            return None if base is None or isinstance(base, tuple) else ("@variant", strip_refs(base), t[2])
        if k == "field":
            base = self.ty(t[1])
            if base is None:
                return None
            if isinstance(base, tuple):
                _, bt, var = base
                p = adt_path(bt)
                if p in ("std::option::Option", "core::option::Option") and var == "Some":
                    ga = generic_args(bt)
                    return ga[0] if ga else None
                if p in ("std::result::Result", "core::result::Result"):
                    ga = generic_args(bt)
                    return (ga[0] if var == "Ok" else ga[1]) if len(ga) == 2 else None
                ent = self.fm.get((f"{p}::{var}", t[2]))
                return ent[1] if ent else None
            ent = self.fm.get((adt_path(base), t[2]))
            return ent[1] if ent else None
        return None

    def name_of_field(self, t):
        """Name of the field a ("field", base, idx) term selects, or None."""
        base = self.ty(t[1])
        if base is None:
            return None
        if isinstance(base, tuple):
            ent = self.fm.get((f"{adt_path(base[1])}::{base[2]}", t[2]))
        else:
            ent = self.fm.get((adt_path(base), t[2]))
        return ent[0] if ent else None

    def path(self, t):
        """`step.position.line`-style rendering of a term made of arg / deref / field / as; None if it is something else."""
        if not isinstance(t, tuple) or not t:
            return None
        k = t[0]
        if k == "arg":
            return self.body.debug_name(t[1]) or f"_{t[1]}"
        up = self._upvar(t)
        if up is not None:
            return up[0]
        if k == "call":
            return re.sub(r"<[^<>]*(<[^<>]*(<[^<>]*>[^<>]*)*>[^<>]*)*>", "", t[1]).replace("::::", "::").rsplit("::", 1)[-1] + "()"
        if k in ("deref", "refto"):
            return self.path(t[1])
        if k == "ref":
            pt = place_term(t[1])
            return None if pt is None else self.path(pt)
        if k == "as":
            p = self.path(t[1])
            return None if p is None else f"{p}@{t[2]}"
        if k == "field":
            p = self.path(t[1])
            if p is None:
                return None
            n = self.name_of_field(t)
            return f"{p}.{n if n is not None else t[2]}"
        return None

    def roots(self, t):
        """Dotted paths of all argument-rooted sub-terms of `t` that are maximal (e.g. {"step.value", "meta.at"})."""
        out = set()

        def walk(x, top=True):
            if not isinstance(x, tuple) or not x:
                return
            if isinstance(x[0], str) and x[0] in ("arg", "deref", "refto", "as", "field"):
                p = self.path(x)
                if p is not None:
                    base, projected = x, False
                    while isinstance(base, tuple) and base and base[0] in ("deref", "refto", "as", "field"):
                        projected = projected or base[0] in ("as", "field")
                        base = base[1]
                    if isinstance(base, tuple) and base and base[0] == "call" and not projected:
                        walk(base[2], False)     # the call's own value: what it was computed from
                    else:
                        out.add(p)               # an argument-rooted datum, or a field of a call's result (`look_up(..).steps`)
                    return
            for y in (x[1:] if isinstance(x[0], str) else x):
                if isinstance(y, tuple):
                    walk(y, False)
        walk(t)
        return out
