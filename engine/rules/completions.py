"""Where the scheduler consumes completion messages: the routine containing the `try_next()` on the finished channel —
EXECUTE itself or a private helper it calls (`executor.process_finished_scenarios(..)`) — tabulated for ONE turn of its
receive loop (deep.py, started at the receive call, stopped at the loop's exits).  Rows with a received message give:
the message term, the bracket-bookkeeping calls, the collector de-registration, events sent, and the fail-fast trip."""
import re

from . import analysis as A
from . import deep as D
from . import roles
from .mir import Site, Unverifiable, callee_is, op_local, op_place

RECV_RX = r"UnboundedReceiver.*::try_next$|::try_recv$"
BK = "runner::basic::FinishedRulesAndFeatures"


def _strip(t):
    while isinstance(t, tuple) and t and t[0] in ("ref", "deref", "refto", "conv"):
        t = t[1]
    return t


class Completions:
    def __init__(self, F):
        self.F = F
        ex = self.ex = roles.execute(F)
        cands = [(b, s, t) for b in roles.family(F, ex) for s, t in b.calls(lambda t: callee_is(t, RECV_RX))]
        if len(cands) != 1:
            raise Unverifiable(f"completion receive site (try_next on the finished channel) in EXECUTE's family: {len(cands)}")
        self.body, self.site, self.term = cands[0]
        self.in_execute = self.body is ex
        # the site in EXECUTE that stands for the receive loop: the receive itself, or the call of the helper holding it
        self.ex_site, self.ex_term = self.site, self.term
        self.ff_term = None
        from .c08 import bool_param_upvar
        ff_up = bool_param_upvar(F, ex)
        if self.in_execute:
            self.ff_term = ("field", ("arg", 1), ff_up)
        else:
            if self.body.kind not in ("Fn", "AssocFn"):
                raise Unverifiable(f"completion receive site is in {self.body.short} (neither EXECUTE nor a plain helper fn)")
            calls = [(s, t) for s, t in ex.calls() if F.callee_body(t, ex.crate) is self.body]
            if len(calls) != 1:
                raise Unverifiable(f"calls of {self.body.short} in EXECUTE: {len(calls)}")
            self.ex_site, self.ex_term = calls[0]
            for i, a in enumerate(self.ex_term["args"]):
                pl = op_place(a)
                if pl is None:
                    continue
                cp = A.canon_place(ex, pl)
                if cp["l"] == 1 and cp["p"] and isinstance(cp["p"][0], dict) and cp["p"][0].get("o", "").startswith("{upvar}") and cp["p"][0]["f"] == ff_up and \
                        all(e == "*" for e in cp["p"][1:]):
                    self.ff_term = ("arg", i + 1)
        b = self.body
        loop = A.natural_loop(b, self.site.bb)
        self.exits = {y for x in loop for y in b.succ[x] if y not in loop and b.blocks[y]["term"]["k"] != "unreachable"}
        if self.site.bb not in loop or not self.exits:
            raise Unverifiable("the completion receive is not in a loop")
        bk_names = sorted({cb.name for cb in F.crate_bodies() if (cb.impl or {}).get("self_adt") == BK and cb.kind in ("Fn", "AssocFn")})
        rx = "|".join("^" + re.escape(n) + "$" for n in bk_names) + r"|Collector::finish_scenario$"
        self.deep = D.Deep(F, b, stop_at=self.exits, opaque=rx, max_paths=2000, watch_named=True)
        paths = self.deep.run(start_bb=self.site.bb)
        self.rows = [self._row(p) for p in paths]
        self.msg_rows = [r for r in self.rows if r["msg"] is not None]
        if not self.msg_rows:
            raise Unverifiable("no row of the completion table receives a message")

    def _row(self, p):
        recv = [e for e in p.effects if e[0] == "call" and re.search(RECV_RX, e[1])]
        r = {"p": p, "msg": None, "bk": [], "dereg": [], "trip": [], "sends": []}
        if not recv:
            return r
        c = ("call", recv[0][1], recv[0][2], recv[0][4])
        t, got = c, False
        for _ in range(4):
            o = [out for a, out in p.conds if a == ("discr", t)]
            if len(o) == 1 and o[0] in ("Ok", "Some"):
                t = ("field", ("as", t, o[0]), 0)
                got = o[0] == "Some"
            else:
                break
        if not got:
            return r
        r["msg"] = t
        for i, e in enumerate(p.effects):
            if e[0] == "call":
                info = self.deep.call_info.get(e[4]) or {}
                cb = self.F.body(info.get("res") or info.get("path") or "", self.body.crate) if info else None
                if cb is not None and (cb.impl or {}).get("self_adt") == BK:
                    r["bk"].append((i, cb, e))
                elif re.search(r"Collector::finish_scenario$", e[1]):
                    r["dereg"].append((i, e))
                elif re.search(r"UnboundedSender(::<.*>)?::unbounded_send$", e[1]):
                    r["sends"].append((i, e))
            elif e[0] == "write":
                v = e[2]
                if D.is_variant(v, "std::ops::ControlFlow", "Break") or (v == ("const", True) and e[1][0] == "L"):
                    r["trip"].append((i, e))
        return r

    def component(self, r, k):
        return ("field", r["msg"], k)

    def atoms(self, r):
        """{'ff': bool, 'm3': bool, 'm4': bool} as far as the row's conditions say."""
        out = {}
        for a, o in r["p"].conds:
            if not isinstance(o, bool):
                continue
            a = _strip(a)
            if a[0] == "undef" and a[1] == 0:
                # a local bound before the loop (the table starts at the receive): resolve it through its definition
                cp = A.canon_place(self.body, {"l": a[2], "p": []})
                if cp["l"] == 1 and cp["p"] and isinstance(cp["p"][0], dict) and cp["p"][0].get("o", "").startswith("{upvar}"):
                    a = ("field", ("arg", 1), cp["p"][0]["f"])
                elif not cp["p"] and 1 <= cp["l"] <= self.body.arg_count:
                    a = ("arg", cp["l"])
            if a[0] == "field" and a[1] == ("deref", ("arg", 1)):
                a = ("field", ("arg", 1), a[2])
            if self.ff_term is not None and a == self.ff_term:
                out["ff"] = o
            elif a == self.component(r, 3):
                out["m3"] = o
            elif a == self.component(r, 4):
                out["m4"] = o
        return out


_CACHE = {}


def table(F):
    k = id(F)
    if k not in _CACHE:
        _CACHE.clear()
        _CACHE[k] = Completions(F)
    return _CACHE[k]
