"""Deep path tables: abstract interpretation of a (small) body over symbolic terms, enumerating its acyclic paths,
with crate-local helper fns, closures and the std Option / Result / bool / ControlFlow combinators *inlined* — so that

    count.filter(|c| i >= *c).is_some()            and        if let Some(c) = count { if i >= c { .. } }
    x.and_then(f).map_or_else(d, g)                and        match x { Some(v) => match f(v) { .. }, None => .. }
    helper(a, b) (private fn)                      and        its body written in place

produce the same table: per path the branch conditions (over symbolic roots: parameters, captured variables, results of
opaque calls), the ordered effects (opaque calls, writes through references) and the returned value.  Nothing is executed
and no solver is involved: values are terms, branches are enumerated, loops are cut at the first revisit.

Terms are nested tuples:
  ("const", v) ("arg", i) ("field", t, name|idx) ("as", t, Variant) ("deref", t) ("ref", place) ("index", t, i)
  ("variant", adt, Variant, (fields..)) ("tuple", (..)) ("closure", def, (caps..)) ("fn", path)
  ("call", path, (args..), uid) ("bin", op, a, b) ("un", op, a) ("discr", t) ("await", t, uid) ("unknown", uid)
Places (heap keys): ("L", frame, local) ("field", place, idx) ("as", place, V) ("deref", term) ("index", place, t)
"""
import re
import sys

from .mir import Unverifiable, op_const, op_fn, op_local, op_place, const_int, const_str
from . import analysis as A

sys.setrecursionlimit(20000)

NOISE = re.compile(r"(Pin::<.*>::new_unchecked|future::get_context|IntoFuture>?::into_future|into_future|mem::drop|ptr::drop_in_place|Deref(Mut)?::deref(_mut)?|"
                   r"Clone::clone|clone::Clone::clone|convert::From::from|convert::Into::into|AsRef::as_ref|borrow::Borrow::borrow)$")


class TooManyPaths(Unverifiable):
    pass


class CondList(list):
    """List of (atom, outcome); `pos[i]` = number of effects recorded before condition i was decided."""

    def __init__(self, it=(), pos=None):
        list.__init__(self, it)
        self.pos = list(pos) if pos is not None else []
        self.eff = None

    def append(self, item):
        list.append(self, item)
        self.pos.append(len(self.eff) if self.eff is not None else 0)

    def copy_for(self, eff):
        c = CondList(self, self.pos)
        c.eff = eff
        return c


class Path:
    __slots__ = ("conds", "effects", "ret", "cut")

    def __init__(self, conds, effects, ret, cut=False):
        self.conds, self.effects, self.ret, self.cut = conds, effects, ret, cut

    @property
    def cond_pos(self):
        return getattr(self.conds, "pos", [0] * len(self.conds))

    def __repr__(self):
        return f"<Path conds={len(self.conds)} effects={len(self.effects)} ret={self.ret!r}>"


class St:
    """Per-path state (copied at branch points)."""
    __slots__ = ("heap", "known", "conds", "effects")

    def __init__(self, heap=None, known=None, conds=None, effects=None):
        self.heap = heap or {}
        self.known = known or {}
        self.effects = effects if effects is not None else []
        if conds is None:
            conds = CondList()
            conds.eff = self.effects
        self.conds = conds

    def fork(self):
        eff = list(self.effects)
        return St(dict(self.heap), dict(self.known), self.conds.copy_for(eff), eff)


class Frame:
    def __init__(self, fid, body, depth, stack):
        self.fid, self.body, self.depth, self.stack = fid, body, depth, stack
        self.awaits = {aw.poll_site.bb: aw for aw in A.awaits(body)} if body.is_coroutine else {}


def is_const(t):
    return isinstance(t, tuple) and t and t[0] == "const"


class Deep:
    def __init__(self, F, root, max_paths=3000, max_depth=6, inline=True, opaque=None, inline_only=None, stop_at=(), prune=None, unroll=1, watch_named=False,
                 pure_cache=False):
        self.stop_at = frozenset(stop_at)
        self.stop_read = {}
        self.stop_term = frozenset()
        # pure_cache: a second call of a side-effect-free std accessor (`slice.last()`, `v.len()`, `path.to_str()` ..) with the
        # very same argument terms yields the same term (and no second effect) — keeps a condition that is evaluated several
        # times (a style closure called per fragment) from re-branching every time
        self.pure_cache = pure_cache
        # unroll: how often a block of the root frame may be visited on one path (2 = every loop body is followed by
        # one more turn, so that what one turn accumulates can be seen in what is done after the loop)
        self.unroll = unroll
        self.watch_named = watch_named
        # prune: None, or a regex of "interesting" opaque callees.  With pruning, a frame is left as soon as no write
        # through a reference, no interesting call and no inlinable callee containing such is reachable any more: what
        # follows (formatting, logging ..) cannot change the recorded writes and is not explored (value: ("pruned", n)).
        self.prune = re.compile(prune) if isinstance(prune, str) and prune else (True if prune is not None else None)
        self._live_cache = {}
        self.F, self.root = F, root
        self.max_paths, self.max_depth, self.inline = max_paths, max_depth, inline
        self.opaque = re.compile(opaque) if opaque else None
        self.inline_only = inline_only  # None, or predicate(body) -> bool: which crate-local fns may be inlined
        self.uid = 0
        self.fid = 0
        self.paths = []
        self.mut_refs = set()  # heap places a `&mut` was taken of
        self.adt_of = {}    # ("discr", term) -> ADT path of the matched value
        self.call_info = {}  # uid of an opaque call -> its fn operand (path, self type, trait, ...)

    # ---- public -----------------------------------------------------------------------------------
    def run(self, start_bb=0):
        fr = Frame(0, self.root, 0, (self.root.key,))
        self._exec(fr, start_bb, St(), frozenset(), lambda st, v: self._finish(st, v))
        return self.paths

    def _finish(self, st, v, cut=False):
        if len(self.paths) >= self.max_paths:
            raise TooManyPaths(f"more than {self.max_paths} paths in {self.root.short}")
        self.paths.append(Path(st.conds, st.effects, v, cut))

    def fresh(self):
        self.uid += 1
        return self.uid

    # ---- memory ----------------------------------------------------------------------------------
    def read(self, st, place):
        v = self._read0(st, place)
        if v[0] in ("variant", "tuple", "closure", "coroutine", "const", "with"):
            return v
        # a symbolic aggregate some of whose fields were overwritten: `with` term
        ovs = {}
        for key, val in st.heap.items():
            if isinstance(key, tuple) and len(key) == 3 and key[0] == "field" and key[1] == place:
                ovs[key[2]] = val
        if ovs:
            return ("with", v, tuple(sorted(ovs.items(), key=lambda kv: str(kv[0]))))
        return v

    def _read0(self, st, place):
        if place in st.heap:
            return st.heap[place]
        k = place[0]
        if k == "L":
            if place[1] == 0 and 1 <= place[2] <= self.root.arg_count:
                return ("arg", place[2])
            return ("undef", place[1], place[2])
        if k == "field":
            return self.project(self.read(st, place[1]), place[2])
        if k == "as":
            v = self.read(st, place[1])
            if v[0] == "variant":
                return v
            return ("as", v, place[2])
        if k == "deref":
            return ("deref", place[1])
        if k == "index":
            return ("index", self.read(st, place[1]), place[2])
        return ("unknown", self.fresh())

    @staticmethod
    def project(v, idx):
        if v[0] == "tuple" and isinstance(idx, int) and idx < len(v[1]):
            return v[1][idx]
        if v[0] == "variant" and isinstance(idx, int) and idx < len(v[3]):
            return v[3][idx]
        if v[0] in ("closure", "coroutine") and isinstance(idx, int) and idx < len(v[2]):
            return v[2][idx]
        if v[0] == "with":
            for i, val in v[2]:
                if i == idx:
                    return val
            return ("field", v[1], idx)
        return ("field", v, idx)

    def write(self, st, place, val):
        k = place[0]
        if k == "field":
            base = self.read(st, place[1])
            idx = place[2]
            if base[0] == "tuple" and isinstance(idx, int) and idx < len(base[1]):
                nb = ("tuple", base[1][:idx] + (val,) + base[1][idx + 1:])
                return self.write(st, place[1], nb)
            if base[0] == "variant" and isinstance(idx, int) and idx < len(base[3]):
                nb = ("variant", base[1], base[2], base[3][:idx] + (val,) + base[3][idx + 1:])
                return self.write(st, place[1], nb)
            if base[0] == "with" and place[1] in st.heap and st.heap[place[1]][0] == "with":
                ovs = dict(base[2])
                ovs[idx] = val
                return self.write(st, place[1], ("with", base[1], tuple(sorted(ovs.items(), key=lambda kv: str(kv[0])))))
        # drop entries below this place
        for key in [key for key in st.heap if self._prefix(place, key)]:
            del st.heap[key]
        st.heap[place] = val

    @staticmethod
    def _prefix(p, key):
        while isinstance(key, tuple) and key and key[0] in ("field", "as", "index"):
            key = key[1]
            if key == p:
                return True
        return False

    def place_of(self, fr, st, pl):
        """MIR place -> heap place key."""
        cur = ("L", fr.fid, pl["l"])
        for e in pl["p"]:
            if e == "*":
                v = self.read(st, cur)
                if v[0] == "ref":
                    cur = v[1]
                else:
                    cur = ("deref", v)
            elif isinstance(e, dict) and "f" in e:
                cur = ("field", cur, e["f"])
            elif isinstance(e, dict) and "v" in e:
                cur = ("as", cur, e["v"])
            elif isinstance(e, dict) and "idx" in e:
                cur = ("index", cur, self.read(st, ("L", fr.fid, e["idx"])))
            else:
                cur = ("index", cur, ("unknown", self.fresh()))
        return cur

    def operand(self, fr, st, op):
        k = op.get("k")
        if k in ("copy", "move"):
            return self.read(st, self.place_of(fr, st, op["pl"]))
        if k == "const":
            s = const_str(op)
            if s is not None:
                return ("const", s)
            v = const_int(op)
            if v is not None:
                if op.get("ty") == "bool":
                    return ("const", bool(v))
                return ("const", v)
            return ("const", op.get("text", "?"))
        if k == "fn":
            return ("fn", op["path"], op.get("res") or "", op.get("local", False), op.get("full", ""))
        return ("unknown", self.fresh())

    # ---- rvalues -----------------------------------------------------------------------------------
    def rvalue(self, fr, st, rv):
        k = rv["k"]
        if k == "use":
            return self.operand(fr, st, rv["op"])
        if k == "ref":
            pl = self.place_of(fr, st, rv["pl"])
            if rv.get("mut"):
                self.mut_refs.add(pl)
            return ("ref", pl)
        if k == "discr":
            v = self.read(st, self.place_of(fr, st, rv["pl"]))
            return self.discr_of(st, v, rv)
        if k == "bin":
            return self.binop(rv["op"], self.operand(fr, st, rv["a"]), self.operand(fr, st, rv["b"]))
        if k == "un":
            a = self.operand(fr, st, rv["a"])
            if rv["op"] == "Not":
                return self.neg(a)
            if rv["op"] == "PtrMetadata":
                return ("len", a)
            return ("un", rv["op"], a)
        if k == "cast":
            return self.operand(fr, st, rv["op"])
        if k == "agg":
            ops = tuple(self.operand(fr, st, o) for o in rv["ops"])
            g = rv.get("agg")
            if g == "tuple":
                return ("tuple", ops)
            if g == "adt":
                return ("variant", rv["adt"], str(rv["variant"]), ops)
            if g in ("closure", "coroutine", "coroutine_closure"):
                return ("closure" if g != "coroutine" else "coroutine", rv["def"], ops)
            return ("array", ops)
        return ("unknown", self.fresh())

    @staticmethod
    def neg(a):
        if is_const(a) and isinstance(a[1], bool):
            return ("const", not a[1])
        if a[0] == "un" and a[1] == "Not":
            return a[2]
        if a[0] == "bin" and a[1] in NEGATE:
            return ("bin", NEGATE[a[1]], a[2], a[3])
        return ("un", "Not", a)

    @staticmethod
    def binop(op, a, b):
        base = op.replace("WithOverflow", "").replace("Unchecked", "")
        if is_const(a) and is_const(b) and isinstance(a[1], (int, bool)) and isinstance(b[1], (int, bool)):
            x, y = int(a[1]), int(b[1])
            r = {"Eq": x == y, "Ne": x != y, "Lt": x < y, "Le": x <= y, "Gt": x > y, "Ge": x >= y}.get(base)
            if r is not None:
                return ("const", r)
            r = {"Add": x + y, "Sub": x - y, "Mul": x * y}.get(base)
            if r is not None:
                v = ("const", r)
                return ("tuple", (v, ("const", False))) if "WithOverflow" in op else v
        v = ("bin", base, a, b)
        if "WithOverflow" in op:
            return ("tuple", (v, ("const", False)))
        return v

    def discr_of(self, st, v, rv=None):
        vm = tuple((val, n) for val, n in rv["variants"]) if rv else ()
        if rv and rv.get("adt"):
            self.adt_of[("discr", v)] = rv["adt"]
        if v[0] == "variant":
            return ("vconst", v[2], vm)
        kn = st.known.get(("discr", v))
        if kn is not None and len(kn) == 1:
            return ("vconst", next(iter(kn)), vm)
        return ("discr", v, vm)

    # ---- execution ---------------------------------------------------------------------------------
    def _exec(self, fr, bb, st, seen, k):
        body = fr.body
        while True:
            if self.prune is not None and not getattr(fr, "noprune", False) and bb not in self._live(body):
                if fr.fid == 0:
                    self._finish(st, ("pruned", 0))
                else:
                    k(st, ("pruned", self.fresh()))
                return
            if fr.fid == 0 and bb in self.stop_at and seen:
                # (with `stop_read`: the values, at this point, of the operands the caller asked for — e.g. the arguments of the call the
                # block ends in — are handed out with the result)
                want = self.stop_read.get(bb) if getattr(self, "stop_read", None) else None
                self._finish(st, ("reached", bb) if want is None else ("reached", bb, tuple(self.operand(fr, st, o) for o in want)))
                return
            if bb in seen and fr.fid == 0 and self.unroll >= 2 and ("again", bb) not in seen:
                seen = seen | {("again", bb)}
            elif bb in seen:
                # loop cut
                if fr.fid == 0:
                    self._finish(st, ("loop", fr.fid, bb), cut=True)
                else:
                    # a loop of an inlined callee: recorded, the callee is left with an unknown result
                    st.effects.append(("loop-back", body.name, bb))
                    k(st, ("loop", fr.fid, bb))
                return
            seen = seen | {bb}
            blk = body.blocks[bb]
            for si, stmt in enumerate(blk["stmts"]):
                rv = stmt["rv"]
                if rv["k"] == "other" and "pl" not in stmt:
                    continue
                val = self.rvalue(fr, st, rv)
                pl = stmt["pl"]
                place = self.place_of(fr, st, pl)
                if "*" in pl["p"] or place[0] == "deref" or self._outer(fr, place):
                    st.effects.append(("write", place, val, (body.key, bb, si)))
                elif self.watch_named and fr.fid == 0 and not pl["p"] and body.debug_name(pl["l"]):
                    # assignments to the root routine's own (user-named) variables, on request
                    st.effects.append(("write", place, val, (body.key, bb, si)))
                self.write(st, place, val)
            t = blk["term"]
            tk = t["k"]
            if fr.fid == 0 and getattr(self, "stop_term", None) and bb in self.stop_term:
                # cut at this block's terminator (its statements done): hand out the operands the caller asked for (`stop_read`)
                want = self.stop_read.get(bb, ())
                vals = []
                for o in want:
                    v = self.operand(fr, st, o)
                    n_ = 0
                    while isinstance(v, tuple) and len(v) == 2 and v[0] in ("ref", "refto") and isinstance(v[1], tuple) and v[1] and v[1][0] == "L" and n_ < 4:
                        v, n_ = self.read(st, v[1]), n_ + 1     # `&local`: what the local holds at this point
                    vals.append(v)
                self._finish(st, ("reached", bb, tuple(vals)))
                return
            if tk == "return":
                k(st, self.read(st, ("L", fr.fid, 0)))
                return
            if tk in ("goto", "drop", "assert"):
                nx = body.succ[bb]
                if not nx:
                    return
                bb = nx[0]
                continue
            if tk == "switch":
                self._switch(fr, bb, t, st, seen, k)
                return
            if tk == "call":
                self._call(fr, bb, t, st, seen, k)
                return
            if tk == "yield":
                # outside a recognised await: a bare yield; continue at resume
                st.effects.append(("yield", (body.key, bb)))
                bb = t["resume"]
                continue
            # unreachable / resume / other: path ends without a value
            return

    def _live(self, body, _stack=()):
        """Blocks of `body` from which something worth recording is still reachable (see `prune`)."""
        if body.key in self._live_cache:
            return self._live_cache[body.key]
        if body.key in _stack:
            return set(body.live_blocks)
        hot = set()
        for bb in body.live_blocks:
            blk = body.blocks[bb]
            if any("*" in st["pl"]["p"] for st in blk["stmts"] if "pl" in st):
                hot.add(bb)
                continue
            t = blk["term"]
            if t["k"] == "call":
                f = op_fn(t["func"])
                if f is None:
                    continue
                path = f["path"]
                if self.prune is not True and self.prune.search(path):
                    hot.add(bb)
                    continue
                cb = self.F.callee_body(t, body.crate) if f.get("local") else None
                if cb is not None and not cb.is_coroutine and (self.inline_only is None or self.inline_only(cb)) and \
                        not (self.opaque and self.opaque.search(path)) and self._live(cb, _stack + (body.key,)):
                    hot.add(bb)
                elif any(isinstance(a, dict) and a.get("k") in ("copy", "move") for a in t["args"]) and COMB.match(path):
                    # a combinator that may invoke a closure defined here which writes through a capture
                    for nb in self.F.children.get(body.key, []):
                        if self._live(nb, _stack + (body.key,)):
                            hot.add(bb)
                            break
        live = set(hot)
        work = list(hot)
        while work:
            x = work.pop()
            for y in body.pred[x]:
                if y not in live:
                    live.add(y)
                    work.append(y)
        self._live_cache[body.key] = live
        return live

    def _outer(self, fr, place):
        """Is the place rooted in a local of an enclosing frame (written from an inlined callee)?"""
        p = place
        while p[0] in ("field", "as", "index"):
            p = p[1]
        return p[0] == "L" and p[1] != fr.fid

    def _switch(self, fr, bb, t, st, seen, k):
        body = fr.body
        v = self.operand(fr, st, t["discr"])
        targets = [(val, tg) for val, tg in t["targets"]]
        listed = [val for val, _ in targets]
        nxt = set(body.succ[bb])

        def go(tg, st2):
            if tg in nxt:
                self._exec(fr, tg, st2, seen, k)

        def dead(tg):
            b = body.blocks[tg]
            return b["term"]["k"] == "unreachable" and not b["stmts"]

        if v[0] == "vconst":
            # known variant: need the numeric map — look at the defining discr statement's map via known table
            vm = v[2] if len(v) > 2 and v[2] else self._vmap_for(fr, t)
            num = [val for val, n in vm if n == v[1]]
            if num:
                tg = dict(targets).get(num[0], t["otherwise"])
                return go(tg, st)
            raise Unverifiable(f"deep: discriminant value of variant {v[1]} unknown in {body.short}")
        if is_const(v) and isinstance(v[1], (bool, int)):
            tg = dict(targets).get(int(v[1]), t["otherwise"])
            return go(tg, st)
        if v[0] == "discr":
            vm = dict(v[2])
            key = ("discr", v[1])
            allowed = st.known.get(key)
            groups = {}
            for val, tg in targets:
                n = vm.get(val, str(val))
                groups.setdefault(tg, set()).add(n)
            rest = {n for val, n in vm.items() if val not in listed}
            if rest and not dead(t["otherwise"]):
                groups.setdefault(t["otherwise"], set()).update(rest)
            for tg, names in groups.items():
                if allowed is not None:
                    names = names & allowed
                if not names or dead(tg):
                    continue
                st2 = st.fork()
                st2.known[key] = frozenset(names)
                st2.conds.append((("discr", v[1]), "|".join(sorted(names))))
                go(tg, st2)
            return
        # bool / int term
        atom, flip = v, False
        if v[0] == "un" and v[1] == "Not":
            atom, flip = v[2], True
        kn = st.known.get(atom)
        if body.locals[op_local(t["discr"])] == "bool" if op_local(t["discr"]) is not None else listed == [0]:
            for outcome in (False, True):
                val = outcome != flip  # value of `atom`
                if kn is not None and kn != val:
                    continue
                tg = dict(targets).get(0, t["otherwise"]) if not outcome else (dict(targets).get(1, t["otherwise"]))
                if dead(tg):
                    continue
                st2 = st.fork()
                if kn is None:
                    st2.known[atom] = val
                    st2.conds.append(canon_atom(atom, val))
                go(tg, st2)
            return
        for val, tg in targets + [(None, t["otherwise"])]:
            if dead(tg):
                continue
            if kn is not None and ((val is not None and kn != val) or (val is None and kn in listed)):
                continue
            st2 = st.fork()
            if kn is None:
                if val is not None:
                    st2.known[atom] = val
                st2.conds.append((atom, val if val is not None else "other"))
            go(tg, st2)

    def _vmap_for(self, fr, t):
        l = op_local(t["discr"])
        if l is None:
            return ()
        for site, kind, payload in fr.body.defs.get(l, []):
            if kind == "assign" and payload["rv"]["k"] == "discr":
                return tuple((val, n) for val, n in payload["rv"]["variants"])
        # copied discriminant
        sd = fr.body.single_def(l)
        if sd and sd[1] == "assign" and sd[2]["rv"]["k"] == "use" and op_local(sd[2]["rv"]["op"]) is not None:
            return self._vmap_for(fr, {"discr": sd[2]["rv"]["op"]})
        return ()

    # ---- calls -------------------------------------------------------------------------------------
    def _call(self, fr, bb, t, st, seen, k):
        body = fr.body
        nxt = t.get("t", -1)
        args = [self.operand(fr, st, a) for a in t["args"]]
        f = op_fn(t["func"])
        dest = t["dest"]
        site = (body.key, bb, "T")

        def cont(st2, val):
            if nxt is None or nxt < 0 or nxt not in body.succ[bb]:
                return
            place = self.place_of(fr, st2, dest)
            if "*" in dest["p"] or self._outer(fr, place):
                st2.effects.append(("write", place, val, site))
            self.write(st2, place, val)
            self._exec(fr, nxt, st2, seen, k)

        if bb in fr.awaits:
            aw = fr.awaits[bb]
            fut = self.read(st, ("L", fr.fid, aw.awaitee)) if aw.awaitee is not None else ("unknown", self.fresh())
            self._await(fr, st, fut, site, lambda st2, v: cont(st2, ("variant", "std::task::Poll", "Ready", (v,))))
            return
        if f is None:
            callee = self.operand(fr, st, t["func"])
            return self._invoke(fr, st, callee, args, site, cont)
        path = f["path"]
        if NOISE.search(path):
            if re.search(r"(Clone::clone|Deref(Mut)?::deref(_mut)?|AsRef::as_ref|Borrow::borrow)$", path) and args:
                a0 = args[0]
                if re.search(r"Clone::clone$", path):
                    return cont(st, self.read(st, a0[1]) if a0[0] == "ref" else ("deref", a0))
                return cont(st, a0)
            if re.search(r"into_future$", path) and args:
                return cont(st, args[0])
            if re.search(r"(From::from|Into::into)$", path) and args:
                return cont(st, ("conv", args[0]))
            return cont(st, ("unknown", self.fresh()))
        if re.search(r"ops::Fn(Once|Mut)?::call(_once|_mut)?$", path) and args:
            callee = args[0]
            if callee[0] == "ref":
                callee = self.read(st, callee[1])
            targs = args[1][1] if len(args) > 1 and args[1][0] == "tuple" else tuple(args[1:])
            return self._invoke(fr, st, callee, list(targs), site, cont, self_arg=args[0])
        if re.search(r"ops::Try::branch$|Try>::branch$", path) and args:
            slf = f.get("self", "")
            if slf.startswith("std::option::Option"):
                return self._case(st, args[0], "o", self.OPT, site, lambda s, n, p: cont(s, ("variant", "std::ops::ControlFlow", "Continue", (p(),))) if n == "Some" else
                                  cont(s, ("variant", "std::ops::ControlFlow", "Break", (self.NONE,))))
            if slf.startswith("std::result::Result"):
                return self._case(st, args[0], "r", self.RES, site, lambda s, n, p: cont(s, ("variant", "std::ops::ControlFlow", "Continue", (p(),))) if n == "Ok" else
                                  cont(s, ("variant", "std::ops::ControlFlow", "Break", (self.err(p()),))))
        if re.search(r"FromResidual(<.*>)?::from_residual$", path) and args:
            slf = f.get("self", "")
            if slf.startswith("std::option::Option"):
                return cont(st, self.NONE)
            if slf.startswith("std::result::Result"):
                r = args[0]
                if r[0] == "variant" and r[2] == "Err":
                    return cont(st, self.err(("conv", r[3][0])))
                return cont(st, self.err(("conv", ("field", ("as", r, "Err"), 0))))
        if re.search(r"::checked_sub$", path) and len(args) == 2 and not f.get("local"):
            # unsigned `a.checked_sub(b)`: None iff a < b
            def done(s2, lt):
                cont(s2, self.NONE if lt else self.some(self.binop("Sub", args[0], args[1])))
            return self._bool(st, self.binop("Lt", args[0], args[1]), done)
        if re.search(r"(^|::)mem::replace$", path) and len(args) == 2 and not f.get("local") and (not self.opaque or not self.opaque.search(path)):
            # `mem::replace(&mut place, v)`: the old value is the result, `v` is stored
            v, pl = self._self(st, args[0])
            if pl is not None:
                st.effects.append(("write", pl, args[1], site))
                self.write(st, pl, args[1])
                return cont(st, v)
        m = COMB.match(path)
        if m and (not self.opaque or not self.opaque.search(path)):
            h = getattr(self, "c_" + m.group(1).lower() + "_" + m.group(2), None)
            if h is not None:
                self._cur_f = f
                return h(fr, st, args, site, cont)
        cb = self.F.callee_body(t, body.crate) if f.get("local") else None
        if re.search(r"default::Default::default$", path) and not args:
            ty = f.get("self") or (f.get("targs") or [""])[0]
            if re.fullmatch(r"[ui](8|16|32|64|128|size)", ty or ""):
                return cont(st, ("const", 0))
            if ty == "bool":
                return cont(st, ("const", False))
            if (ty or "").startswith("std::option::Option<"):
                return cont(st, self.NONE)
        if cb is None and re.search(r"default::Default::default$", path) and f.get("res"):
            cb = self.F.body(f["res"], body.crate)     # `T::default()` of a crate type (derived or hand-written)
        if cb is not None and self._inlinable(fr, cb, path):
            if self.prune is not None and not self._live(cb):
                # nothing worth recording inside: small accessors of the event types are still evaluated (their value
                # matters for later branching), anything else (formatting helpers ..) is left as an opaque call
                if cb.name.startswith("event::") and len(cb.blocks) <= 40:
                    return self._inline(fr, st, cb, args, site, cont, noprune=True)
                return self._opaque(st, f.get("res") or path, args, site, cont, f)
            return self._inline(fr, st, cb, args, site, cont)
        if cb is None and re.search(r"::[A-Z]\w*$", re.sub(r"::<.*?>$", "", path)):
            v = self._ctor(path, args)
            if v is not None:
                return cont(st, v)
        return self._opaque(st, f.get("res") or path, args, site, cont, f)

    def _inlinable(self, fr, cb, path):
        if not self.inline or fr.depth >= self.max_depth or cb.key in fr.stack:
            return False
        if self.opaque and self.opaque.search(path):
            return False
        if cb.is_coroutine:
            return False
        if len(cb.blocks) > 400:
            return False
        if self.inline_only is not None and not self.inline_only(cb):
            return False
        return True

    PURE = re.compile(r"(slice::<impl \[T\]>::(last|first|len|is_empty)|Vec::<.*>::(len|is_empty)|str::<impl str>::(len|is_empty)|String::(len|is_empty|as_str)|Path::to_str|"
                      r"Option::<.*>::(is_some|is_none)|Iterator::last|slice::<impl \[T\]>::iter)$")

    def _opaque(self, st, path, args, site, cont, f=None):
        if self.pure_cache and self.PURE.search(path):
            key = ("pure", path, tuple(args))
            try:
                hit = st.heap.get(key)
            except TypeError:
                hit, key = None, None
            if hit is not None:
                return cont(st, hit)
            if key is not None:
                def cont2(st2, v, cont=cont, key=key):
                    st2.heap[key] = v
                    cont(st2, v)
                return self._opaque_(st, path, args, site, cont2, f)
        return self._opaque_(st, path, args, site, cont, f)

    def _opaque_(self, st, path, args, site, cont, f=None):
        uid = self.fresh()
        # shared references to known values (`&ScenarioType::Serial`, `&key`) are shown by value
        def by_value(a, depth=0):
            if isinstance(a, tuple) and a and a[0] == "ref":
                v = self.read(st, a[1])
                if v[0] == "const" or (v[0] == "variant" and not v[3]):
                    a = ("refto", v)
                elif a[1] in st.heap and v[0] not in ("undef", "unknown") and (a[1] not in self.mut_refs or v[0] not in ("variant", "const", "tuple")):
                    a = ("refto", v)
                elif a[1][0] in ("field", "as") and v[0] not in ("undef", "unknown", "havoc"):
                    # `&f.rules` of an owned local that is never borrowed mutably: the field of the local's value
                    pl, clean = a[1], True
                    while pl[0] in ("field", "as"):
                        clean = clean and pl not in self.mut_refs
                        pl = pl[1]
                    if clean and pl[0] == "L" and pl in st.heap and pl not in self.mut_refs:
                        a = ("refto", v)
            elif depth < 2 and isinstance(a, tuple) and a and a[0] == "variant" and a[3]:
                # `Some(&rule)`: a shared reference wrapped into an Option / tuple argument
                a = (a[0], a[1], a[2], tuple(by_value(x, depth + 1) for x in a[3]))
            elif depth < 2 and isinstance(a, tuple) and a and a[0] == "tuple":
                a = ("tuple", tuple(by_value(x, depth + 1) for x in a[1]))
            return a
        snap = [by_value(a) for a in args]
        # an opaque callee may write through the `&mut` references it receives (directly or captured by a closure
        # argument): what they point to is unknown afterwards
        for a in args:
            for x in subterms(a) if isinstance(a, tuple) else ():
                if x[0] == "ref" and x[1] in self.mut_refs and x[1] in st.heap:
                    old = st.heap[x[1]]
                    if old[0] in ("variant", "const", "tuple"):
                        self.write(st, x[1], ("havoc", uid, x[1]))
        args = snap
        if f is not None:
            self.call_info[uid] = f
        st.effects.append(("call", path, tuple(args), site, uid))
        # havoc what mutable references point to?  kept: callers that care look at the effect list
        cont(st, ("call", path, tuple(args), uid))

    def _await(self, fr, st, fut, site, cont):
        """`.await` of a future value: a coroutine created by a crate-local async fn / block is inlined."""
        if fut[0] == "coroutine":
            cb = self.F.body(fut[1], fr.body.crate)
            if cb is not None and fr.depth < self.max_depth and cb.key not in fr.stack and not (self.opaque and self.opaque.search(cb.name)):
                return self._inline(fr, st, cb, [fut], site, cont, self_is_state=True)
        if fut[0] == "asynccall":
            cb = self.F.body(fut[1], fr.body.crate)
            co = None
            if cb is not None:
                cos = [c for c in self.F.children.get(cb.key, []) if c.is_coroutine]
                co = cos[0] if len(cos) == 1 else None
            if co is not None and fr.depth < self.max_depth and co.key not in fr.stack and not (self.opaque and self.opaque.search(cb.name)):
                # async fn: the coroutine captures the fn's arguments in order
                return self._inline(fr, st, co, [("coroutine", co.name, tuple(fut[2]))], site, cont, self_is_state=True)
        # lazily evaluated future adaptors (futures-rs, tracing, std): awaiting them awaits their parts
        if fut[0] == "variant" and fut[1] in ("std::panic::AssertUnwindSafe", "future::YieldThenReturn") and fut[3]:
            if fut[1] == "future::YieldThenReturn":
                st.effects.append(("yield-once", site))
                v = fut[3][0]
                return cont(st, v[3][0] if is_variant(v, "std::option::Option", "Some") else ("field", ("as", v, "Some"), 0))
            return self._await(fr, st, fut[3][0], site, cont)
        if fut[0] == "call":
            path, a = fut[1], fut[2]
            if re.search(r"TryFutureExt::and_then$", path) and len(a) == 2:
                return self._await(fr, st, a[0], site, lambda s, r: self._case(s, r, "r", self.RES, site, lambda s2, n, p:
                                   self._callf(fr, s2, a[1], [p()], site, lambda s3, f2: self._await(fr, s3, f2, site, cont)) if n == "Ok" else cont(s2, self.err(p()))))
            if re.search(r"TryFutureExt::(map_ok|map_err)$", path) and len(a) == 2:
                which = "Ok" if path.endswith("map_ok") else "Err"
                return self._await(fr, st, a[0], site, lambda s, r: self._case(s, r, "r", self.RES, site, lambda s2, n, p:
                                   self._callf(fr, s2, a[1], [p()], site, lambda s3, v: cont(s3, ("variant", "std::result::Result", n, (v,)))) if n == which else cont(s2, ("variant", "std::result::Result", n, (p(),)))))
            if re.search(r"FutureExt::then$", path) and len(a) == 2:
                return self._await(fr, st, a[0], site, lambda s, r: self._callf(fr, s, a[1], [r], site, lambda s2, f2: self._await(fr, s2, f2, site, cont)))
            if re.search(r"FutureExt::map$", path) and len(a) == 2:
                return self._await(fr, st, a[0], site, lambda s, r: self._callf(fr, s, a[1], [r], site, cont))
            if re.search(r"FutureExt::catch_unwind$", path) and len(a) == 1:
                uid = self.fresh()
                key = ("panics", uid)
                st_p = st.fork()
                st_p.conds.append((key, True))
                st_p.effects.append(("caught-panic", a[0], site, uid))
                cont(st_p, self.err(("panic", uid)))
                st_n = st
                st_n.conds.append((key, False))
                return self._await(fr, st_n, a[0], site, lambda s, r: cont(s, self.ok(r)))
            if re.search(r"Instrument::instrument$|Instrument::in_current_span$|FutureExt::boxed(_local)?$|FutureExt::fuse$|Box::pin$|pin::Pin::<.*>::new$", path) and a:
                if "instrument" in path:
                    st.effects.append(("instrumented", a[0], a[1] if len(a) > 1 else None, site))
                return self._await(fr, st, a[0], site, cont)
        if fut[0] == "ref":
            # `(&mut fut).await`
            return self._await(fr, st, self.read(st, fut[1]), site, cont)
        uid = self.fresh()
        st.effects.append(("await", fut, site, uid))
        cont(st, ("await", fut, uid))

    def _invoke(self, fr, st, callee, args, site, cont, self_arg=None):
        if callee[0] == "closure":
            cb = self.F.body(callee[1], fr.body.crate)
            if cb is not None and self.opaque and self.opaque.search(cb.name):
                return self._opaque(st, "closure:" + cb.name, [self_arg if self_arg is not None else callee] + list(args), site, cont)
            if cb is not None and self.prune is not None and not self._live(cb) and len(cb.blocks) > 40:
                return self._opaque(st, "closure:" + cb.name, [self_arg if self_arg is not None else callee] + list(args), site, cont)
            if cb is not None and fr.depth < self.max_depth and cb.key not in fr.stack and not cb.is_coroutine:
                want_ref = cb.locals[1].startswith("&")
                if want_ref:
                    if self_arg is not None and self_arg[0] == "ref":
                        a0 = self_arg
                    else:
                        cell = ("L", -self.fresh(), 0)
                        st.heap[cell] = callee
                        a0 = ("ref", cell)
                else:
                    a0 = callee
                return self._inline(fr, st, cb, [a0] + list(args), site, cont, noprune=(self.prune is not None and not self._live(cb)))
        if callee[0] == "fn":
            path, res, local = callee[1], callee[2], callee[3]
            m = COMB.match(path)
            if m:
                h = getattr(self, "c_" + m.group(1).lower() + "_" + m.group(2), None)
                if h is not None:
                    return h(fr, st, list(args), site, cont)
            cb = (self.F.body(res, fr.body.crate) or self.F.body(path, fr.body.crate)) if local else None
            if cb is not None and self._inlinable(fr, cb, path):
                if self.prune is not None and not self._live(cb):
                    if cb.name.startswith("event::") and len(cb.blocks) <= 40:
                        return self._inline(fr, st, cb, list(args), site, cont, noprune=True)
                    return self._opaque(st, res or path, args, site, cont)
                return self._inline(fr, st, cb, list(args), site, cont)
            v = self._ctor(path, args)
            if v is not None:
                return cont(st, v)
            return self._opaque(st, res or path, args, site, cont)
        return self._opaque(st, "<indirect>", [callee] + list(args), site, cont)

    def _ctor(self, path, args):
        """`Enum::Variant` / tuple-struct constructor used as a function value: the constructed value."""
        plain = re.sub(r"::<[^<>]*(<[^<>]*(<[^<>]*>[^<>]*)*>[^<>]*)*>", "", path)
        m = re.match(r"^(.*)::(\w+)$", plain)
        if not m:
            return None
        adt, var = m.group(1), m.group(2)
        if adt.startswith(("std::prelude", "core::prelude")):
            adt = "std::option::Option" if var == "Some" else "std::result::Result" if var in ("Ok", "Err") else adt
        if adt in ("std::option::Option", "core::option::Option") and var == "Some":
            return self.some(args[0]) if args else None
        if adt in ("std::result::Result", "core::result::Result") and var in ("Ok", "Err"):
            return ("variant", "std::result::Result", var, tuple(args))
        for crate in ("cucumber", "gherkin"):
            a = self.F.adts.get((crate, adt))
            if a and any(v["name"] == var for v in a["variants"]):
                return ("variant", adt, var, tuple(args))
        a = self.F.adts.get(("cucumber", plain))
        if a and a.get("kind") == "Struct" and len(a["variants"]) == 1:
            return ("variant", plain, a["variants"][0]["name"], tuple(args))
        return None

    def _inline(self, fr, st, cb, args, site, cont, self_is_state=False, noprune=False):
        self.fid += 1
        nf = Frame(self.fid, cb, fr.depth + 1, fr.stack + (cb.key,))
        nf.noprune = noprune or getattr(fr, "noprune", False)
        for i, a in enumerate(args):
            st.heap[("L", nf.fid, i + 1)] = a
        if cb.is_coroutine and not self_is_state:
            pass
        st.effects.append(("enter", cb.name, site))

        def ret(st2, v):
            st2.effects.append(("leave", cb.name, site))
            cont(st2, v)
        self._exec(nf, 0, st, frozenset(), ret)

    # ---- combinator models -------------------------------------------------------------------------
    def _case(self, st, v, adt, variants, site, body_fn):
        """Case split on the variant of term v; body_fn(st, variant_name, payload_getter)."""
        if v[0] == "variant":
            return body_fn(st, v[2], lambda i=0: v[3][i] if i < len(v[3]) else ("unknown", self.fresh()))
        key = ("discr", v)
        self.adt_of.setdefault(key, {"o": "std::option::Option", "r": "std::result::Result", "c": "std::ops::ControlFlow", "e": "std::collections::hash_map::Entry"}.get(adt, adt))
        kn = st.known.get(key)
        for name in variants:
            if kn is not None and name not in kn:
                continue
            st2 = st.fork()
            if kn is None or len(kn) > 1:
                st2.known[key] = frozenset([name])
                st2.conds.append((key, name))
            body_fn(st2, name, lambda i=0, name=name: ("field", ("as", v, name), i))

    def _callf(self, fr, st, fval, args, site, cont):
        if fval[0] == "ref":
            fv = self.read(st, fval[1])
            return self._invoke(fr, st, fv, args, site, cont, self_arg=fval)
        return self._invoke(fr, st, fval, args, site, cont)

    @staticmethod
    def some(x):
        return ("variant", "std::option::Option", "Some", (x,))

    NONE = ("variant", "std::option::Option", "None", ())

    @staticmethod
    def ok(x):
        return ("variant", "std::result::Result", "Ok", (x,))

    @staticmethod
    def err(x):
        return ("variant", "std::result::Result", "Err", (x,))

    OPT = ("Some", "None")
    RES = ("Ok", "Err")

    def _self(self, st, a):
        """combinators taking &self / &mut self: look through the reference"""
        if a[0] == "ref":
            return self.read(st, a[1]), a[1]
        return a, None

    # hash_map::Entry (the closure runs only for a vacant entry)
    ENT = ("Occupied", "Vacant")

    def c_entry_or_insert_with(self, fr, st, a, site, cont):
        def vac(s):
            def ins(s2, r):
                uid = self.fresh()
                s2.effects.append(("call", "Entry::insert", (a[0], r), site, uid))
                cont(s2, ("call", "Entry::insert", (a[0], r), uid))
            self._callf(fr, s, a[1], [], site, ins)
        self._case(st, a[0], "e", self.ENT, site, lambda s, n, p: vac(s) if n == "Vacant" else cont(s, ("call", "Entry::get", (a[0],), self.fresh())))

    def c_entry_or_insert(self, fr, st, a, site, cont):
        def vac(s):
            uid = self.fresh()
            s.effects.append(("call", "Entry::insert", (a[0], a[1]), site, uid))
            cont(s, ("call", "Entry::insert", (a[0], a[1]), uid))
        self._case(st, a[0], "e", self.ENT, site, lambda s, n, p: vac(s) if n == "Vacant" else cont(s, ("call", "Entry::get", (a[0],), self.fresh())))

    # Option
    def c_option_map(self, fr, st, a, site, cont):
        self._case(st, a[0], "o", self.OPT, site, lambda s, n, p: self._callf(fr, s, a[1], [p()], site, lambda s2, r: cont(s2, self.some(r))) if n == "Some" else cont(s, self.NONE))

    def c_option_and_then(self, fr, st, a, site, cont):
        self._case(st, a[0], "o", self.OPT, site, lambda s, n, p: self._callf(fr, s, a[1], [p()], site, cont) if n == "Some" else cont(s, self.NONE))

    def c_option_filter(self, fr, st, a, site, cont):
        def some(s, p):
            cell = ("L", -self.fresh(), 0)
            s.heap[cell] = p()
            self._callf(fr, s, a[1], [("ref", cell)], site, lambda s2, r: self._bool(s2, r, lambda s3, b: cont(s3, a[0] if b else self.NONE)))
        self._case(st, a[0], "o", self.OPT, site, lambda s, n, p: some(s, p) if n == "Some" else cont(s, self.NONE))

    def c_option_is_some(self, fr, st, a, site, cont):
        v, _ = self._self(st, a[0])
        self._case(st, v, "o", self.OPT, site, lambda s, n, p: cont(s, ("const", n == "Some")))

    def c_option_is_none(self, fr, st, a, site, cont):
        v, _ = self._self(st, a[0])
        self._case(st, v, "o", self.OPT, site, lambda s, n, p: cont(s, ("const", n == "None")))

    def c_option_is_some_and(self, fr, st, a, site, cont):
        self._case(st, a[0], "o", self.OPT, site, lambda s, n, p: self._callf(fr, s, a[1], [p()], site, cont) if n == "Some" else cont(s, ("const", False)))

    def c_option_is_none_or(self, fr, st, a, site, cont):
        self._case(st, a[0], "o", self.OPT, site, lambda s, n, p: self._callf(fr, s, a[1], [p()], site, cont) if n == "Some" else cont(s, ("const", True)))

    def c_option_map_or(self, fr, st, a, site, cont):
        self._case(st, a[0], "o", self.OPT, site, lambda s, n, p: self._callf(fr, s, a[2], [p()], site, cont) if n == "Some" else cont(s, a[1]))

    def c_option_map_or_else(self, fr, st, a, site, cont):
        self._case(st, a[0], "o", self.OPT, site, lambda s, n, p: self._callf(fr, s, a[2], [p()], site, cont) if n == "Some" else self._callf(fr, s, a[1], [], site, cont))

    def c_option_or(self, fr, st, a, site, cont):
        self._case(st, a[0], "o", self.OPT, site, lambda s, n, p: cont(s, a[0]) if n == "Some" else cont(s, a[1]))

    def c_option_or_else(self, fr, st, a, site, cont):
        self._case(st, a[0], "o", self.OPT, site, lambda s, n, p: cont(s, a[0]) if n == "Some" else self._callf(fr, s, a[1], [], site, cont))

    def c_option_unwrap_or(self, fr, st, a, site, cont):
        self._case(st, a[0], "o", self.OPT, site, lambda s, n, p: cont(s, p()) if n == "Some" else cont(s, a[1]))

    def c_option_unwrap_or_else(self, fr, st, a, site, cont):
        self._case(st, a[0], "o", self.OPT, site, lambda s, n, p: cont(s, p()) if n == "Some" else self._callf(fr, s, a[1], [], site, cont))

    def c_option_unwrap_or_default(self, fr, st, a, site, cont):
        f = getattr(self, "_cur_f", None) or {}
        m = re.match(r"^(?:std|core)::option::Option<(.*)>$", f.get("self") or "")
        ty = m.group(1).strip() if m else ((f.get("targs") or [""])[0] if "Option" in (f.get("impl_of") or f.get("path") or "") else "")
        dflt = ("default",)
        if ty == "bool":
            dflt = ("const", False)
        elif re.fullmatch(r"[ui](8|16|32|64|128|size)", ty):
            dflt = ("const", 0)
        elif ty.startswith("std::option::Option<"):
            dflt = self.NONE
        self._case(st, a[0], "o", self.OPT, site, lambda s, n, p: cont(s, p()) if n == "Some" else cont(s, dflt))

    def c_option_as_ref(self, fr, st, a, site, cont):
        v, pl = self._self(st, a[0])
        if v[0] == "variant":
            if v[2] == "Some":
                return cont(st, self.some(("ref", ("field", pl, 0)) if pl else ("refto", v[3][0])))
            return cont(st, self.NONE)
        # symbolic: same discriminant, payload is a reference to the payload
        self._case(st, v, "o", self.OPT, site, lambda s, n, p: cont(s, self.some(("ref", ("field", ("as", pl, "Some"), 0)) if pl else ("refto", p()))) if n == "Some" else cont(s, self.NONE))

    c_option_as_mut = c_option_as_ref
    c_option_as_deref = c_option_as_ref
    c_option_as_deref_mut = c_option_as_ref

    def c_option_take(self, fr, st, a, site, cont):
        v, pl = self._self(st, a[0])
        if pl is None:
            return self._opaque(st, "std::option::Option::<T>::take", a, site, cont)
        st.effects.append(("write", pl, self.NONE, site))
        self.write(st, pl, self.NONE)
        cont(st, v)

    def c_option_take_if(self, fr, st, a, site, cont):
        """`opt.take_if(pred)`: Some(v) with pred(&mut v) true -> the option is emptied and Some(v) returned; otherwise None, untouched."""
        v, pl = self._self(st, a[0])
        if pl is None:
            return self._opaque(st, "std::option::Option::<T>::take_if", a, site, cont)

        def some(s, p):
            cell = ("L", -self.fresh(), 0)
            s.heap[cell] = p()

            def decided(s3, b):
                if b:
                    s3.effects.append(("write", pl, self.NONE, site))
                    self.write(s3, pl, self.NONE)
                    cont(s3, self.some(s3.heap.get(cell, p())))
                else:
                    cont(s3, self.NONE)
            self._callf(fr, s, a[1], [("ref", cell)], site, lambda s2, r: self._bool(s2, r, decided))
        self._case(st, v, "o", self.OPT, site, lambda s, n, p: some(s, p) if n == "Some" else cont(s, self.NONE))

    def c_option_ok_or(self, fr, st, a, site, cont):
        self._case(st, a[0], "o", self.OPT, site, lambda s, n, p: cont(s, self.ok(p())) if n == "Some" else cont(s, self.err(a[1])))

    def c_option_ok_or_else(self, fr, st, a, site, cont):
        self._case(st, a[0], "o", self.OPT, site, lambda s, n, p: cont(s, self.ok(p())) if n == "Some" else self._callf(fr, s, a[1], [], site, lambda s2, r: cont(s2, self.err(r))))

    def c_option_zip(self, fr, st, a, site, cont):
        self._case(st, a[0], "o", self.OPT, site, lambda s, n, p: self._case(s, a[1], "o", self.OPT, site, lambda s2, n2, p2: cont(s2, self.some(("tuple", (p(), p2()))) if n2 == "Some" else self.NONE)) if n == "Some" else cont(s, self.NONE))

    def c_option_flatten(self, fr, st, a, site, cont):
        self._case(st, a[0], "o", self.OPT, site, lambda s, n, p: cont(s, p()) if n == "Some" else cont(s, self.NONE))

    def c_option_unwrap(self, fr, st, a, site, cont):
        self._case(st, a[0], "o", ("Some",), site, lambda s, n, p: cont(s, p()))

    c_option_expect = c_option_unwrap

    # bool
    def _bool(self, st, v, body_fn):
        if is_const(v) and isinstance(v[1], (bool, int)):
            return body_fn(st, bool(v[1]))
        atom, flip = v, False
        if v[0] == "un" and v[1] == "Not":
            atom, flip = v[2], True
        kn = st.known.get(atom)
        for val in (False, True):
            if kn is not None and kn != val:
                continue
            st2 = st.fork()
            if kn is None:
                st2.known[atom] = val
                st2.conds.append(canon_atom(atom, val))
            body_fn(st2, val != flip)

    def c_bool_then(self, fr, st, a, site, cont):
        self._bool(st, a[0], lambda s, b: self._callf(fr, s, a[1], [], site, lambda s2, r: cont(s2, self.some(r))) if b else cont(s, self.NONE))

    def c_bool_then_some(self, fr, st, a, site, cont):
        self._bool(st, a[0], lambda s, b: cont(s, self.some(a[1])) if b else cont(s, self.NONE))

    # Result
    def c_result_map(self, fr, st, a, site, cont):
        self._case(st, a[0], "r", self.RES, site, lambda s, n, p: self._callf(fr, s, a[1], [p()], site, lambda s2, r: cont(s2, self.ok(r))) if n == "Ok" else cont(s, self.err(p())))

    def c_result_map_err(self, fr, st, a, site, cont):
        self._case(st, a[0], "r", self.RES, site, lambda s, n, p: self._callf(fr, s, a[1], [p()], site, lambda s2, r: cont(s2, self.err(r))) if n == "Err" else cont(s, self.ok(p())))

    def c_result_and_then(self, fr, st, a, site, cont):
        self._case(st, a[0], "r", self.RES, site, lambda s, n, p: self._callf(fr, s, a[1], [p()], site, cont) if n == "Ok" else cont(s, self.err(p())))

    def c_result_or_else(self, fr, st, a, site, cont):
        self._case(st, a[0], "r", self.RES, site, lambda s, n, p: self._callf(fr, s, a[1], [p()], site, cont) if n == "Err" else cont(s, self.ok(p())))

    def c_result_ok(self, fr, st, a, site, cont):
        self._case(st, a[0], "r", self.RES, site, lambda s, n, p: cont(s, self.some(p())) if n == "Ok" else cont(s, self.NONE))

    def c_result_err(self, fr, st, a, site, cont):
        self._case(st, a[0], "r", self.RES, site, lambda s, n, p: cont(s, self.some(p())) if n == "Err" else cont(s, self.NONE))

    def c_result_is_ok(self, fr, st, a, site, cont):
        v, _ = self._self(st, a[0])
        self._case(st, v, "r", self.RES, site, lambda s, n, p: cont(s, ("const", n == "Ok")))

    def c_result_is_err(self, fr, st, a, site, cont):
        v, _ = self._self(st, a[0])
        self._case(st, v, "r", self.RES, site, lambda s, n, p: cont(s, ("const", n == "Err")))

    def c_result_map_or_else(self, fr, st, a, site, cont):
        self._case(st, a[0], "r", self.RES, site, lambda s, n, p: self._callf(fr, s, a[2], [p()], site, cont) if n == "Ok" else self._callf(fr, s, a[1], [p()], site, cont))

    def c_result_map_or(self, fr, st, a, site, cont):
        self._case(st, a[0], "r", self.RES, site, lambda s, n, p: self._callf(fr, s, a[2], [p()], site, cont) if n == "Ok" else cont(s, a[1]))

    def c_result_unwrap_or_else(self, fr, st, a, site, cont):
        self._case(st, a[0], "r", self.RES, site, lambda s, n, p: cont(s, p()) if n == "Ok" else self._callf(fr, s, a[1], [p()], site, cont))

    def c_result_unwrap_or(self, fr, st, a, site, cont):
        self._case(st, a[0], "r", self.RES, site, lambda s, n, p: cont(s, p()) if n == "Ok" else cont(s, a[1]))

    def c_result_as_ref(self, fr, st, a, site, cont):
        v, pl = self._self(st, a[0])
        self._case(st, v, "r", self.RES, site, lambda s, n, p: cont(s, ("variant", "std::result::Result", n, (("refto", p()),))))

    c_result_as_mut = c_result_as_ref
    c_result_as_deref = c_result_as_ref
    c_result_as_deref_mut = c_result_as_ref

    # task::Poll
    POLL = ("Ready", "Pending")

    def c_poll_is_pending(self, fr, st, a, site, cont):
        v, _ = self._self(st, a[0])
        self._case(st, v, "std::task::Poll", self.POLL, site, lambda s, n, p: cont(s, ("const", n == "Pending")))

    def c_poll_is_ready(self, fr, st, a, site, cont):
        v, _ = self._self(st, a[0])
        self._case(st, v, "std::task::Poll", self.POLL, site, lambda s, n, p: cont(s, ("const", n == "Ready")))

    def c_poll_map(self, fr, st, a, site, cont):
        ready = lambda x: ("variant", "std::task::Poll", "Ready", (x,))
        self._case(st, a[0], "std::task::Poll", self.POLL, site, lambda s, n, p: self._callf(fr, s, a[1], [p()], site, lambda s2, r: cont(s2, ready(r))) if n == "Ready"
                   else cont(s, ("variant", "std::task::Poll", "Pending", ())))

    # ControlFlow
    CF = ("Continue", "Break")

    def c_controlflow_is_break(self, fr, st, a, site, cont):
        v, _ = self._self(st, a[0])
        self._case(st, v, "c", self.CF, site, lambda s, n, p: cont(s, ("const", n == "Break")))

    def c_controlflow_is_continue(self, fr, st, a, site, cont):
        v, _ = self._self(st, a[0])
        self._case(st, v, "c", self.CF, site, lambda s, n, p: cont(s, ("const", n == "Continue")))

    def c_controlflow_continue_value(self, fr, st, a, site, cont):
        self._case(st, a[0], "c", self.CF, site, lambda s, n, p: cont(s, self.some(p())) if n == "Continue" else cont(s, self.NONE))

    def c_controlflow_break_value(self, fr, st, a, site, cont):
        self._case(st, a[0], "c", self.CF, site, lambda s, n, p: cont(s, self.some(p())) if n == "Break" else cont(s, self.NONE))


NEGATE = {"Eq": "Ne", "Ne": "Eq", "Lt": "Ge", "Ge": "Lt", "Gt": "Le", "Le": "Gt"}
CANON_NEG = {"Ne": "Eq", "Ge": "Lt", "Gt": "Le"}


def canon_atom(atom, val):
    """Canonical form of a boolean condition: comparisons are expressed with Eq / Lt / Le only."""
    if isinstance(val, bool) and atom[0] == "bin" and atom[1] in CANON_NEG:
        atom, val = ("bin", CANON_NEG[atom[1]], atom[2], atom[3]), (not val)
    # comparisons of an (unsigned) quantity with 0 / 1 — `x < 1`, `x <= 0`, `0 == x` — are `x == 0`
    if isinstance(val, bool) and atom[0] == "bin":
        op, a, b = atom[1], atom[2], atom[3]
        if op == "Lt" and b == ("const", 1) or op == "Le" and b == ("const", 0):
            atom = ("bin", "Eq", a, ("const", 0))
        elif op == "Lt" and a == ("const", 0):          # 0 < x  ==  !(x == 0)
            atom, val = ("bin", "Eq", b, ("const", 0)), (not val)
        elif op == "Le" and a == ("const", 1):          # 1 <= x ==  !(x == 0)
            atom, val = ("bin", "Eq", b, ("const", 0)), (not val)
        elif op == "Eq" and a == ("const", 0):
            atom = ("bin", "Eq", b, ("const", 0))
    return atom, val
_BOOLP = re.compile(r"^(?:.*::)?bool::<impl bool>::(then|then_some)$")
_ENTP = re.compile(r"^std::collections::hash_map::Entry::<.*>::(or_insert_with|or_insert)$")
_COMBP = re.compile(r"^(?:std|core)::(?:option|result|ops|ops::control_flow)::(Option|Result|ControlFlow)::<.*>::(\w+)$")


_POLLP = re.compile(r"^(?:std|core)::task(?:::poll)?::Poll::<.*>::(is_pending|is_ready|map)$")


class _M:
    def __init__(self, a, b):
        self.a, self.b = a, b

    def group(self, i):
        return self.a if i == 1 else self.b


class COMB:
    """Recognise a modelled combinator by its generic path: match(path).group(1) = type, group(2) = method."""

    @staticmethod
    def match(path):
        m = _BOOLP.match(path)
        if m:
            return _M("bool", m.group(1))
        m = _COMBP.match(path)
        if m:
            return _M(m.group(1), m.group(2))
        m = _ENTP.match(path)
        if m:
            return _M("entry", m.group(1))
        m = _POLLP.match(path)
        if m:
            return _M("poll", m.group(1))
        return None


# ---- pretty printing ---------------------------------------------------------------------------------

def fmt(body, t, depth=0):
    """Line-free, debug-name based rendering of a term (root body = `body`)."""
    if not isinstance(t, tuple) or not t:
        return str(t)
    k = t[0]
    if depth > 8:
        return "…"
    f = lambda x: fmt(body, x, depth + 1)
    if k == "const":
        return repr(t[1]) if isinstance(t[1], str) else str(t[1]).lower() if isinstance(t[1], bool) else str(t[1])
    if k == "arg":
        return body.debug_name(t[1]) or f"_{t[1]}"
    if k == "field":
        if t[1] in (("arg", 1), ("deref", ("arg", 1))) and body.kind in A.NESTED_KINDS:
            nm = body.upvar_names().get(t[2])
            if nm:
                return f"^{nm}"
        return f"{f(t[1])}.{t[2]}"
    if k == "as":
        return f"({f(t[1])} as {t[2]})"
    if k == "deref":
        return f"*{f(t[1])}"
    if k == "ref":
        return f"&{fmt_place(body, t[1], depth + 1)}"
    if k == "refto":
        return f"&{f(t[1])}"
    if k == "variant":
        nm = t[1].rsplit("::", 1)[-1]
        return f"{nm}::{t[2]}({', '.join(f(x) for x in t[3])})" if t[3] else f"{nm}::{t[2]}"
    if k == "tuple":
        return "(" + ", ".join(f(x) for x in t[1]) + ")"
    if k == "call":
        nm = re.sub(r"<[^<>]*(<[^<>]*(<[^<>]*>[^<>]*)*>[^<>]*)*>", "", t[1]).replace("::::", "::")
        return f"{nm}({', '.join(f(x) for x in t[2])})#{t[3]}"
    if k == "bin":
        return f"{t[1]}({f(t[2])}, {f(t[3])})"
    if k == "un":
        return f"{t[1]}({f(t[2])})"
    if k == "discr":
        return f"discr({f(t[1])})"
    if k == "await":
        return f"await({f(t[1])})#{t[2]}"
    if k == "closure":
        return f"closure[{t[1].rsplit('::', 2)[-2:]}]"
    if k == "fn":
        return f"fn[{t[1]}]"
    if k == "conv":
        return f"conv({f(t[1])})"
    if k == "with":
        return f"{f(t[1])}{{" + ", ".join(f".{i}={f(v)}" for i, v in t[2]) + "}"
    if k == "len":
        return f"len({f(t[1])})"
    return k


def fmt_place(body, p, depth=0):
    k = p[0]
    if k == "L":
        if p[1] == 0:
            return body.debug_name(p[2]) or f"_{p[2]}"
        return f"f{p[1]}._{p[2]}"
    if k == "field":
        if p[1] == ("L", 0, 1) and body.kind in A.NESTED_KINDS:
            nm = body.upvar_names().get(p[2])
            if nm:
                return f"^{nm}"
        return f"{fmt_place(body, p[1], depth + 1)}.{p[2]}"
    if k == "as":
        return f"({fmt_place(body, p[1], depth + 1)} as {p[2]})"
    if k == "deref":
        return f"*{fmt(body, p[1], depth + 1)}"
    if k == "index":
        return f"{fmt_place(body, p[1], depth + 1)}[..]"
    return str(p)


def table(F, body, **kw):
    return Deep(F, body, **kw).run()


def subterms(t):
    """All sub-terms of a term (pre-order)."""
    out = []
    work = [t]
    while work:
        x = work.pop()
        if not isinstance(x, tuple) or not x:
            continue
        if isinstance(x[0], str):
            out.append(x)
            rest = x[1:]
        else:
            rest = x
        for y in rest:
            if isinstance(y, tuple):
                work.append(y)
    return out


def is_variant(x, adt, name=None):
    return isinstance(x, tuple) and len(x) == 4 and x[0] == "variant" and x[1] == adt and (name is None or x[2] == name)


def mentions(t, pred):
    return any(pred(x) for x in subterms(t))


def dump(body, paths, out=sys.stdout):
    for i, p in enumerate(paths):
        cs = " ∧ ".join(f"{fmt(body, a)}={o}" for a, o in p.conds)
        out.write(f"[{i}] {'CUT ' if p.cut else ''}if {cs or 'true'}\n")
        for e in p.effects:
            if e[0] == "call":
                out.write(f"      call {fmt(body, ('call', e[1], e[2], e[4]))}\n")
            elif e[0] == "write":
                out.write(f"      {fmt_place(body, e[1])} := {fmt(body, e[2])}\n")
            elif e[0] == "await":
                out.write(f"      await {fmt(body, e[1])}\n")
            elif e[0] in ("enter", "leave"):
                out.write(f"      {e[0]} {e[1][-60:]}\n")
        out.write(f"      => {fmt(body, p.ret)}\n")
