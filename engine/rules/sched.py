"""Shared semantic facts about the scheduler's queue access (`Features::get` and its drain predicate), derived from deep
path tables (deep.py) so that they do not depend on how the code is spelled (combinators / match / helper fns)."""
import re

from . import analysis as A
from . import deep as D
from . import roles
from .c04 import role_get
from .mir import Unverifiable, callee_is

WD = "runner::basic::RetryOptionsWithDeadline"


def lur_body(F):
    """left_until_retry: inherent method of RetryOptionsWithDeadline returning Option<Duration>."""
    lur = [b for b in F.crate_bodies() if b.impl and b.impl.get("self_adt") == WD and not b.impl.get("trait")
           and b.locals[0] == "std::option::Option<std::time::Duration>"]
    if len(lur) != 1:
        raise Unverifiable(f"left_until_retry role: {len(lur)} candidates")
    return lur[0]


def drain_predicate(F):
    """(GET coroutine, body calling the drain primitive, call site, call term, predicate closure body)."""
    aw, get = role_get(F)
    preds = []
    for b in roles.family(F, get):   # GET, its closures, or a private helper fn of it (`Features::drain_ready(storage, ty, limit, ..)`)
        for s, t in b.calls(lambda t: callee_is(t, r"drain_filter$", r"extract_if$", r"retain$", r"retain_mut$")):
            kb = A.closure_of_operand(F, b, t["args"][-1])
            if kb is not None:
                preds.append((get, b, s, t, kb))
    if len(preds) != 1:
        raise Unverifiable(f"drain predicate of GET: {len(preds)} candidates")
    return preds[0]


class PredTable:
    """Path table of the drain predicate with `left_until_retry` kept opaque."""

    def __init__(self, F):
        self.F = F
        self.get, self.drain_body, self.site, self.term, self.pred = drain_predicate(F)
        self.lur = lur_body(F)
        self.paths = D.Deep(F, self.pred, opaque=re.escape(self.lur.name) + "$", max_paths=400).run()
        if not self.paths or any(p.cut for p in self.paths):
            raise Unverifiable("drain predicate: empty or cut path table")
        self.true_paths = [p for p in self.paths if p.ret == ("const", True)]
        self.false_paths = [p for p in self.paths if p.ret == ("const", False)]
        if len(self.true_paths) + len(self.false_paths) != len(self.paths):
            raise Unverifiable("drain predicate: a path returns a non-constant value")

    # -- atoms
    def is_lur(self, t):
        return isinstance(t, tuple) and t and t[0] == "call" and t[1] in (self.lur.name,)

    def lur_outcome(self, p):
        """'Some' / 'None' / None: what the path learned about left_until_retry(..)'s result."""
        for atom, out in p.conds:
            if atom[0] == "discr" and self.is_lur(atom[1]):
                return out
        return None

    def counter_writes(self, p):
        """write effects of the form  X := Add(read X, 1)"""
        out = []
        for e in p.effects:
            if e[0] != "write":
                continue
            place, val = e[1], e[2]
            if val[0] == "bin" and val[1] == "Add" and val[3] == ("const", 1) and val[2] == _read_term(place):
                out.append(place)
        return out

    def other_writes(self, p, counter):
        return [e for e in p.effects if e[0] == "write" and e[1] != counter]

    def limit_outcome(self, p, counter):
        """'reached' / 'free' / 'unlimited' / None for the comparison of the counter with the limit on this path."""
        cr = _read_term(counter)
        res = None
        for atom, out in p.conds:
            if atom[0] == "discr" and out == "None" and res is None:
                # candidate `limit is None`: decided below only if this Option is the one compared elsewhere
                pass
            if atom[0] == "bin" and atom[1] in ("Ge", "Lt", "Le", "Gt", "Eq", "Ne") and isinstance(out, bool):
                a, b = atom[2], atom[3]
                if a == cr and _is_some_payload(b):
                    ge = {"Ge": out, "Lt": not out}.get(atom[1])
                elif b == cr and _is_some_payload(a):
                    ge = {"Le": out, "Gt": not out}.get(atom[1])
                else:
                    continue
                if ge is None:
                    return "odd:" + atom[1]
                res = "reached" if ge else "free"
        return res

    def limit_option(self, counter):
        """The Option term whose payload the counter is compared with (over all paths)."""
        cr = _read_term(counter)
        opts = set()
        for p in self.paths:
            for atom, out in p.conds:
                if atom[0] == "bin" and len(atom) == 4:
                    for x, y in ((atom[2], atom[3]), (atom[3], atom[2])):
                        if x == cr and _is_some_payload(y):
                            opts.add(y[1][1])
        return opts


def _read_term(place):
    """The term a read of heap place `place` yields when nothing was written to it."""
    k = place[0]
    if k == "deref":
        return ("deref", place[1])
    if k == "field":
        return ("field", _read_term(place[1]), place[2])
    if k == "as":
        return ("as", _read_term(place[1]), place[2])
    if k == "L":
        return ("arg", place[2])
    return place


def _is_some_payload(t):
    return isinstance(t, tuple) and len(t) == 3 and t[0] == "field" and t[2] == 0 and isinstance(t[1], tuple) and t[1][0] == "as" and t[1][2] == "Some"


# ---- GET: order of the Serial / Concurrent drains ----------------------------------------------------

class GetTable:
    def __init__(self, F):
        self.F = F
        self.get, self.drain_body, self.site, self.term, self.pred = drain_predicate(F)
        # the drain routine: the closure (or fn) that contains the drain primitive; kept opaque
        self.drain = self.drain_body
        if self.drain is self.get:
            raise Unverifiable("the drain primitive is called directly in GET (no drain routine to treat as a unit)")
        self.paths = D.Deep(F, self.get, opaque=re.escape(self.drain.name) + "$", max_paths=600).run()
        if not self.paths:
            raise Unverifiable("GET: empty path table")

    def drains(self, p):
        """[(index in effects, 'Serial'|'Concurrent'|'?', call term, uid)] of the drain-routine calls on path p."""
        out = []
        for i, e in enumerate(p.effects):
            if e[0] == "call" and (e[1] == "closure:" + self.drain.name or e[1] == self.drain.name):
                ty = "?"
                for a in e[2]:
                    for x in D.subterms(a):
                        if D.is_variant(x, "runner::basic::ScenarioType"):
                            ty = x[2]
                out.append((i, ty, e, e[4]))
        return out

    def gave(self, p, d):
        """What path p learned about the result of drain invocation d (from drains()): 'nothing' | 'something' | None.
        Covers the routine returning `Option<Vec>` (None = nothing) and returning a `Vec` tested with is_empty() / len()."""
        uid = d[3]
        o = self.outcome_of(p, uid)
        if o == "None":
            return "nothing"
        if o == "Some":
            return "something"
        for atom, out in p.conds:
            if not isinstance(out, bool):
                continue
            if atom[0] == "call" and re.search(r"Vec(::<.*>)?::is_empty$|\]>::is_empty$", atom[1]) and \
                    any(x[0] == "call" and x[3] == uid for a in atom[2] for x in D.subterms(a)):
                return "nothing" if out else "something"
            if atom[0] == "bin" and atom[1] == "Eq" and ("const", 0) in (atom[2], atom[3]):
                other = atom[3] if atom[2] == ("const", 0) else atom[2]
                if other[0] == "call" and re.search(r"Vec(::<.*>)?::len$", other[1]) and any(x[0] == "call" and x[3] == uid for a in other[2] for x in D.subterms(a)):
                    return "nothing" if out else "something"
        return None

    @staticmethod
    def outcome_of(p, uid):
        for atom, out in p.conds:
            if atom[0] == "discr" and atom[1][0] == "call" and atom[1][3] == uid:
                return out
        return None
