"""C03 — event stream framing: run/feature/rule brackets (DESIGN §4 C03)."""
import re

from . import analysis as A
from . import deep as D
from . import roles
from . import c08
from . import writers as W
from .c04 import role_get, role_is_finished, _reaches_block
from .mir import Site, Unverifiable, callee_is, callee_path, const_int, op_fn, op_local, op_place, place_fields, place_str

CFGS = {"quick": ["default", "all"], "thorough": ["default", "all", "nodefault", "tracing"]}

EXPLANATION = """
Static rules over the MIR of the bracket bookkeeping: (R1) run bracket: in EXECUTE the Cucumber::Started emission
dominates every other emission and every await, lies in no cycle; the Cucumber::Finished emission lies in no cycle,
on every path to return, and nothing is emitted after it; (R2) leftover brackets are closed first (= C08.R4);
(R3) who-may-construct: Feature/Rule Started events are built only from vectors filled inside vacant-entry closures
of the bracket maps (i.e. only when the key was absent), features chained before rules; Feature/Rule Finished only
(a) inside the closure of `(count == finished).then(..)` after the per-bracket counter was incremented and the key
removed, or (b) in the final drain; the bookkeeping functions return before touching the maps when `is_retried`;
EXECUTE handles the rule before the feature; (R4) parsing summary: ParsingFinished is emitted exactly once, after
the ingestion loop, before the finished flag is set, each field from its accumulator, each accumulator updated only
in the matching arm (features +1, rules += f.rules.len(), scenarios += count_scenarios(), steps += count_steps()
on Ok; parser_errors +1 on Err); (R5) EXECUTE leaves its loop only on IS_FINISHED, whose flag is stored after the
ParsingFinished emission.
Not decided: equality of the counts with what a concrete parser delivered; nesting under Normalize (C11).
Added after the second seeded round: (R6) the bracket bookkeeping is keyed by Source values whose equality / hash are the identity of the shared allocation (Arc::ptr_eq / Arc::as_ptr).
"""
DECLINED = ["numeric equality of ParsingFinished counts with a concrete parser's output", "nesting after Normalize (C11)"]
ASSUMPTIONS = ["HashMap::entry(..).or_insert_with(f) calls f exactly when the key is absent"]

BK = "runner::basic::FinishedRulesAndFeatures"


def execute_emissions(F):
    ex = roles.execute(F)
    rs, root, tree = roles.attempt_tree(F)
    emit_fns = roles.emitters(F, tree)
    sends = [(s, t) for s, t in ex.calls() if F.callee_body(t) is not None and F.callee_body(t).key in emit_fns]
    return ex, sends, emit_fns


def r1(F, R):
    ex, sends, emit_fns = execute_emissions(F)
    tagged = [(s, t, A.event_tags(F, ex, t["args"][1])[0]) for s, t in sends]
    st = [(s, t) for s, t, tg in tagged if "event::Cucumber::Started" in tg]
    fi = [(s, t) for s, t, tg in tagged if "event::Cucumber::Finished" in tg and "event::Cucumber::Started" not in tg]
    R.check(len(st) == 1 and len(fi) == 1, "run-bracket-sites", ex, "one Started and one Finished emission", f"Started x{len(st)}, Finished x{len(fi)}")
    if len(st) != 1 or len(fi) != 1:
        return
    s_st, s_fi = st[0][0], fi[0][0]
    others = [s for s, t in sends if s != s_st] + [aw.poll_site for aw in A.awaits(ex)]
    R.check(all(ex.dominates(s_st, x) for x in others), "started-first", s_st, f"Started dominates {len(others)} emissions/awaits",
            "an event can be emitted (or the scheduler can await) before Cucumber::Started")
    R.check(not ex.in_cycle(s_st) and not ex.in_cycle(s_fi), "run-bracket-once", s_st, "", "Cucumber::Started/Finished emitted inside a loop")
    R.check(not ex.entry_reaches_return(stop=[s_fi]), "finished-on-every-path", s_fi, "every path to return emits Cucumber::Finished",
            "a path through execute returns without emitting Cucumber::Finished")
    after = [s for s, t in sends if s != s_fi and ex.site_reaches(s_fi, s)]
    R.check(not after, "finished-last", s_fi, "nothing is emitted after Cucumber::Finished", f"events are emitted after Cucumber::Finished at {[x.loc for x in after]}")
    aw_after = [aw for aw in A.awaits(ex) if ex.site_reaches(s_fi, aw.poll_site)]
    R.check(not aw_after, "no-await-after-finished", s_fi, "", "the scheduler awaits after Cucumber::Finished")
    R.floor(5)


def r2(F, R):
    c08.r4(F, R)


def ctor_refs(F, name):
    """References to an event constructor from the runner (Normalize legitimately rebuilds bracket events: out of scope)."""
    return [(s, k, f) for s, k, f in F.fn_refs(r"^event::Cucumber::<.*>::" + name + r"$|^event::Cucumber::" + name + r"$")
            if re.match(r"^<?runner::", F.root_fn(s.body).name) or F.root_fn(s.body).name.startswith("event::")]


def _same_modulo_conv(a, b):
    """Equal terms up to Clone / conversions of their leaves (`feature.clone()` vs `feature`)."""
    def strip(t):
        if isinstance(t, tuple) and t:
            if t[0] in ("conv", "refto") and len(t) == 2:
                return strip(t[1])
            if t[0] == "deref" and len(t) == 2 and isinstance(t[1], tuple) and t[1] and t[1][0] == "ref":
                return ("place", t[1][1])
            return tuple(strip(x) for x in t)
        return t
    return strip(a) == strip(b)


def _finished_table_ok(F, fb, kind, bparam):
    tab = D.Deep(F, fb, max_paths=200, opaque=r"count_scenarios$").run()
    if not tab or any(p.cut for p in tab):
        return "path table is empty or has a loop"
    some_paths = 0
    for p in tab:
        retried = [out for a, out in p.conds if a == ("arg", bparam)]
        ret_some = D.is_variant(p.ret, "std::option::Option", "Some")
        ret_none = D.is_variant(p.ret, "std::option::Option", "None")
        if not (ret_some or ret_none):
            return f"a path returns {D.fmt(fb, p.ret)[:80]}"
        incs = [e for e in p.effects if e[0] == "write" and e[2][0] == "bin" and e[2][1] == "Add" and e[2][3] == ("const", 1)]
        removes = [e for e in p.effects if e[0] == "call" and re.search(r"HashMap(::<.*>)?::remove$", e[1])]
        if retried and retried[0] is True:
            if ret_some or incs or removes:
                return "a retried attempt is counted"
            continue
        if len(incs) != 1:
            return f"{len(incs)} counter increments on a non-retried path"
        newv = incs[0][2]
        total_rx = r"count_scenarios$" if kind == "feature" else r"Vec(::<.*>)?::len$"
        eqs = [(a, out) for a, out in p.conds if a[0] == "bin" and a[1] == "Eq" and
               ((a[2] == newv and a[3][0] == "call" and re.search(total_rx, a[3][1])) or (a[3] == newv and a[2][0] == "call" and re.search(total_rx, a[2][1])))]
        if len(eqs) != 1:
            return "no comparison of the incremented counter with the scenario count on a non-retried path"
        done = eqs[0][1] is True
        if done != ret_some:
            return "Finished returned when counts differ / not returned when they are equal"
        if ret_some:
            some_paths += 1
            want = "event::Rule" if kind == "rule" else "event::Feature"
            if not D.mentions(p.ret, lambda x: D.is_variant(x, want, "Finished")):
                return f"the returned event is not {want}::Finished"
            if not removes:
                return "the key is not removed when the bracket finishes"
        elif removes:
            return "the key is removed although the bracket is not finished"
    if not any(True for p in tab for a, out in p.conds if a == ("arg", bparam) and out is True):
        return "no retried path"
    return True if some_paths >= 1 else "no path returns Finished"


def r3(F, R):
    ex = roles.execute(F)
    # START := callee of EXECUTE in the bookkeeping type whose result is sent before the pushes
    # (calls made from closures of EXECUTE — `rule.and_then(|r| storage.rule_scenario_finished(..))` — count as EXECUTE's)
    bk_calls = [(A.lift_site(F, s, ex), t, F.callee_body(t)) for nb in F.nested(ex) for s, t in nb.calls()
                if F.callee_body(t) is not None and (F.callee_body(t).impl or {}).get("self_adt") == BK and A.lift_site(F, s, ex) is not None]
    start = [x for x in bk_calls if any(f[2]["path"].endswith("feature_started") for nb in F.nested(x[2]) for f in _refs_in(F, nb, "feature_started"))]
    if len(start) != 1:
        raise Unverifiable(f"START role: {len(start)}")
    s_start, t_start, start_fn = start[0]
    nested = F.nested(start_fn)
    for nm in ("feature_started", "rule_started"):
        refs = ctor_refs(F, nm)
        outside = [F.root_fn(s.body).short for s, k, f in refs if F.root_fn(s.body) is not start_fn and not F.root_fn(s.body).name.startswith("event::")]
        R.check(bool(refs) and not outside, f"who-may-build/{nm}", start_fn, f"{nm} referenced only in the start bookkeeping", f"{nm} is also used in {sorted(set(outside))}")
    for nm in ("feature_finished", "rule_finished"):
        refs = ctor_refs(F, nm)
        roots = sorted({F.root_fn(s.body).short for s, k, f in refs if not F.root_fn(s.body).name.startswith("event::")})
        ok = bool(refs) and all((F.root_fn(s.body).impl or {}).get("self_adt") == BK for s, k, f in refs if not F.root_fn(s.body).name.startswith("event::"))
        R.check(ok and len(roots) == 2, f"who-may-build/{nm}", None, f"{nm} referenced in {roots}", f"{nm} is used in {roots}; expected the per-scenario bookkeeping fn and the final drain only")
    # vacant-entry rule: the vectors mapped with *_started are pushed only inside or_insert_with closures
    pushes = [(nb, s, t) for nb in nested for s, t in nb.calls(lambda t: callee_is(t, r"Vec::<.*>::push$"))]
    R.check(len(pushes) == 2, "started-vectors/push-sites", start_fn, "", f"{len(pushes)} push sites in the start bookkeeping")
    # decided on the path table of the start bookkeeping (deep.py): a push happens only on a path that found the
    # key's entry vacant and inserts it — `entry(k).or_insert_with(|| { push; 0 })` and `if let Entry::Vacant(v) = entry(k)
    # { v.insert(0); push }` are the same table
    tab = D.Deep(F, start_fn, max_paths=400).run()
    seen_kinds = {}
    for p in tab:
        for i, e in enumerate(p.effects):
            if e[0] != "call" or not re.search(r"Vec(::<.*>)?::push$", e[1]):
                continue
            kind = "rule" if e[2][1][0] == "tuple" else "feature"
            vac = [a[1] for a, out in p.conds if a[0] == "discr" and out == "Vacant" and a[1][0] == "call" and re.search(r"HashMap(::<.*>)?::entry$", a[1][1])]
            ok = False
            for ent in vac:
                same_key = ent[2][1] == e[2][1] or D.mentions(ent[2][1], lambda x: x == e[2][1]) or D.mentions(e[2][1], lambda x: x == ent[2][1]) or \
                    _same_modulo_conv(ent[2][1], e[2][1])
                inserted = any(e2[0] == "call" and re.search(r"(Entry::insert|VacantEntry(::<.*>)?::insert(_entry)?)$", e2[1]) and D.mentions(e2[2], lambda x: x == ent or x == ("field", ("as", ent, "Vacant"), 0))
                               for e2 in p.effects)
                if same_key and inserted:
                    ok = True
            seen_kinds[kind] = seen_kinds.get(kind, True) and ok
    for kind in ("feature", "rule"):
        R.check(seen_kinds.get(kind) is True, f"started-only-if-absent/{kind}", start_fn, "recorded as started only when its entry was vacant (and is inserted)",
                f"a {kind} is recorded as started outside a vacant-entry closure: its Started event can be emitted twice (or for a running bracket)")
    # features before rules
    chains = [(s, t) for s, t in start_fn.calls(lambda t: callee_is(t, r"Iterator::chain$"))]
    okc = False
    if len(chains) == 1:
        a = A.slice_back(start_fn, [chains[0][1]["args"][0]])
        b = A.slice_back(start_fn, [chains[0][1]["args"][1]])
        fa = {f["path"].rsplit("::", 1)[-1] for f in a.fns} | {rv["def"] for _, rv in a.aggs if rv.get("agg") == "closure"}
        fb = {f["path"].rsplit("::", 1)[-1] for f in b.fns}
        a_feat = any(x == "feature_started" for x in fa)
        b_rule = any(_refs_in(F, F.body(rv["def"]), "rule_started") for _, rv in b.aggs if rv.get("agg") == "closure" and F.body(rv["def"]) is not None) or "rule_started" in fb
        a_rule = any(_refs_in(F, F.body(rv["def"]), "rule_started") for _, rv in a.aggs if rv.get("agg") == "closure" and F.body(rv["def"]) is not None)
        okc = a_feat and b_rule and not a_rule
    R.check(okc, "feature-started-before-rule-started", chains[0][0] if chains else start_fn, "features.chain(rules)", "Rule::Started events are not chained after Feature::Started events")
    # the Started events are sent before the batch is pushed
    pushes_ex = [(s, t) for s, t in ex.calls(lambda t: callee_is(t, r"Futures(Un)?[Oo]rdered::<.*>::push(_back)?$"))]
    sent = [(s, t) for s, t in ex.calls() if F.callee_body(t) is not None and len(t["args"]) > 1 and op_local(t["args"][1]) is not None and
            A.canon_place(ex, {"l": op_local(t["args"][1]), "p": []})["l"] == t_start["dest"]["l"]]
    R.check(len(sent) == 1 and all(ex.dominates(sent[0][0], p) for p, _ in pushes_ex), "started-sent-before-dispatch", s_start, "bracket Started events precede the batch",
            "the batch can be dispatched before its Feature/Rule Started events are sent")
    # finished bookkeeping — the calls made per received completion message (completions.py: the receive loop may live in
    # EXECUTE or in a private helper of it)
    from . import completions as CP
    C = CP.table(F)
    fbs = {}
    for r in C.msg_rows:
        for i, cb, e in r["bk"]:
            if cb is not start_fn and any(ty == "bool" for ty in cb.locals[1:cb.arg_count + 1]):
                fbs[cb.key] = cb
    fins = list(fbs.values())
    R.check(len(fins) == 2, "finished-bookkeeping/found", C.body, "", f"{len(fins)} finished-bookkeeping calls")
    for fb in fins:
        kind = "rule" if any("gherkin::Rule" in ty for ty in fb.locals[1:fb.arg_count + 1]) else "feature"
        bparam = [i for i, ty in enumerate(fb.locals) if ty == "bool" and 1 <= i <= fb.arg_count][0]
        # Finished is returned exactly when the incremented counter equals the bracket's scenario count, after the key
        # was removed, and a retried attempt touches nothing — on the function's path table (spelling-independent)
        okt = _finished_table_ok(F, fb, kind, bparam)
        R.check(okt != "a retried attempt is counted" and okt != "no retried path", f"retried-does-not-count/{kind}", fb, "if is_retried { return None } before touching the map",
                f"a retried attempt is counted as a finished scenario of its {kind} (the bracket closes too early)")
        R.check(okt is True, f"finished-iff-all-scenarios-done/{kind}", fb, "(total == finished + 1).then(|| { remove; Finished })",
                f"{kind.capitalize()}::Finished is not emitted exactly when the incremented counter equals the {kind}'s scenario count (after removing the key)" +
                (f": {okt}" if okt is not True else ""))
    if len(fins) == 2:
        is_rule = lambda cb: any("gherkin::Rule" in ty for ty in cb.locals[1:cb.arg_count + 1])
        order_ok, both = True, 0
        for r in C.msg_rows:
            ri = [i for i, cb, e in r["bk"] if cb.key in fbs and is_rule(cb)]
            fi = [i for i, cb, e in r["bk"] if cb.key in fbs and not is_rule(cb)]
            if ri and fi:
                both += 1
                order_ok = order_ok and max(ri) < min(fi)
            order_ok = order_ok and len(fi) == 1
        R.check(order_ok and both >= 1, "rule-closed-before-feature", C.body,
                "Rule::Finished is produced before Feature::Finished", "for one completion the feature bracket can be closed before the rule bracket (or the feature's bookkeeping is skipped)")
    R.floor(14)


def _refs_in(F, body, name):
    out = []
    if body is None:
        return out
    for nb in F.nested(body):
        for bi in sorted(nb.live_blocks):
            blk = nb.blocks[bi]
            for si, st in enumerate(blk["stmts"]):
                for op in A.rvalue_operands(st["rv"]):
                    f = op_fn(op)
                    if f and f["path"].endswith("::" + name):
                        out.append((Site(nb, bi, si), "value", f))
            t = blk["term"]
            if t["k"] == "call":
                f = op_fn(t["func"])
                if f and f["path"].endswith("::" + name):
                    out.append((Site(nb, bi, "T"), "call", f))
                for a in t["args"]:
                    f = op_fn(a)
                    if f and f["path"].endswith("::" + name):
                        out.append((Site(nb, bi, "T"), "arg", f))
    return out


def field_index(F, owner, name):
    """Index of field `name` of (possibly foreign) ADT `owner`, read off any place projection of the crate's MIR."""
    for b in F.crate_bodies():
        for bb in b.blocks:
            for st in bb["stmts"]:
                for pl in (st.get("pl"), (st.get("rv") or {}).get("pl")):
                    for e in (pl or {}).get("p", []):
                        if isinstance(e, dict) and e.get("o") == owner and e.get("n") == name:
                            return e["f"]
    return None


def _strip(t):
    while isinstance(t, tuple) and t and t[0] in ("ref", "deref", "refto"):
        t = t[1]
    return t


def _addends(t):
    """Flatten a sum: (constant part, [other addends])."""
    if isinstance(t, tuple) and t and t[0] == "bin" and t[1] == "Add":
        c1, r1_ = _addends(t[2])
        c2, r2_ = _addends(t[3])
        return c1 + c2, r1_ + r2_
    if isinstance(t, tuple) and t and t[0] == "const" and isinstance(t[1], int) and not isinstance(t[1], bool):
        return t[1], []
    return 0, [t]


def ingest_table(F):
    """Path table of the ingestion routine over TWO loop turns (deep.py, unroll=2): per row the items received from the
    parser stream, the sends and what `ParsingFinished` finally carries."""
    ing = roles.insert_features(F)
    sync_small = lambda cb: not any(c.is_coroutine for c in F.children.get(cb.key, [])) and len(cb.blocks) <= 80
    rows = D.Deep(F, ing, unroll=2, inline_only=sync_small, opaque=r"count_scenarios$|count_steps$", max_paths=3000).run()
    out = []
    for p in rows:
        hist = []
        for i, e in enumerate(p.effects):
            if e[0] == "await" and e[1][0] == "call" and re.search(r"StreamExt::next$|TryStreamExt::try_next$", e[1][1]):
                a = ("await", e[1], e[3])
                o = [out_ for c, out_ in p.conds if c == ("discr", a)]
                if o == ["Some"]:
                    item = ("field", ("as", a, "Some"), 0)
                    k = [out_ for c, out_ in p.conds if c == ("discr", item)]
                    hist.append((i, k[0] if len(k) == 1 else "?", ("field", ("as", item, k[0]), 0) if len(k) == 1 else None))
                elif o == ["None"]:
                    hist.append((i, "end", None))
                else:
                    hist.append((i, "?", None))
        sends = [(i, e) for i, e in enumerate(p.effects) if e[0] == "call" and re.search(r"UnboundedSender(::<.*>)?::unbounded_send$", e[1])]
        pf, errs = [], []
        for i, e in sends:
            v = e[2][1] if len(e[2]) > 1 else None
            fin = [x for x in D.subterms(v) if D.is_variant(x, "event::Cucumber", "ParsingFinished")] if v is not None else []
            if fin:
                pf.append((i, fin[0]))
            elif v is not None and D.is_variant(v, "std::result::Result", "Err"):
                errs.append((i, v[3][0]))
        flag = [i for i, e in enumerate(p.effects) if e[0] == "call" and re.search(r"atomic::Atomic\w*(::<.*>)?::store$", e[1])]
        out.append({"p": p, "hist": hist, "pf": pf, "errs": errs, "flag": flag})
    return ing, out


def r4(F, R):
    """`ParsingFinished` — sent once, after the loop, before the finished flag, with counts that equal what was received:
    decided on the ingestion routine's table over two loop turns (every row: the received items Ok(f)/Err(e) in order)."""
    ing, rows = ingest_table(F)
    done = [r for r in rows if not r["p"].cut]
    if not done or any(k == "?" for r in rows for _, k, _ in r["hist"]):
        raise Unverifiable("ingestion table: no completed row, or a stream item whose kind is not examined")
    R.check(all(len(r["pf"]) == 1 for r in done), "summary-send-site", ing, "one ParsingFinished per completed path", "a completed path of ingestion sends ParsingFinished not exactly once")
    R.check(all(len(r["pf"]) == 1 for r in done), "summary-on-every-path", ing, "every path sends ParsingFinished", "a path through ingestion returns without sending ParsingFinished")
    after = all(not r["pf"] for r in rows if r["p"].cut) and all(r["pf"][0][0] > max([i for i, _, _ in r["hist"]] + [i for i, _ in r["errs"]] + [-1]) for r in done if r["pf"])
    R.check(after, "summary-after-loop", ing, "ParsingFinished is sent once, after the ingestion loop", "ParsingFinished can be sent inside the ingestion loop (several times / before all features or parser errors)")
    R.check(all(r["flag"] and r["pf"] and min(r["flag"]) > r["pf"][0][0] for r in done) and all(not r["flag"] for r in rows if r["p"].cut), "summary-before-finished-flag", ing,
            "ParsingFinished precedes Features::finish()", "the finished flag can be set before ParsingFinished is sent (run-Finished could overtake it), or is not set on a completed path")
    # every received parser error is sent, once, in order (C03: "every parser error exactly once and in order")
    oke = True
    for r in rows:
        want = [f for _, k, f in r["hist"] if k == "Err"]
        oke = oke and [_strip(e) for _, e in r["errs"]] == want
    R.check(oke, "errors-forwarded-in-order", ing, "each Err item is sent as it is received", "a parser error received from the stream is not sent exactly once, in order")
    i_rules = field_index(F, "gherkin::Feature", "rules")
    if i_rules is None:
        raise Unverifiable("field index of gherkin::Feature::rules")
    names = ["features", "rules", "scenarios", "steps", "parser_errors"]
    adt = F.adts.get(("cucumber", "event::Cucumber"))
    order = None
    for v in (adt or {}).get("variants", []):
        if v["name"] == "ParsingFinished":
            order = [f["name"] for f in v["fields"]]
    if order is None or sorted(order) != sorted(names):
        raise Unverifiable(f"fields of Cucumber::ParsingFinished: {order}")
    bad = {n: None for n in names}
    n_rows = 0
    for r in done:
        if not r["pf"]:
            continue
        n_rows += 1
        fields = dict(zip(order, r["pf"][0][1][3]))
        oks = [f for _, k, f in r["hist"] if k == "Ok"]
        n_err = len([1 for _, k, _ in r["hist"] if k == "Err"])
        def is_len(t, f):
            t = _strip(t)
            return t[0] == "call" and re.search(r"Vec::<.*>::len$|Vec::len$", t[1]) is not None and _strip(t[2][0]) == ("field", f, i_rules)
        def is_cnt(t, f, rx):
            t = _strip(t)
            return t[0] == "call" and re.search(rx, t[1]) is not None and _strip(t[2][0]) == f
        checks = {
            "features": lambda c, ts: c == len(oks) and not ts,
            "parser_errors": lambda c, ts: c == n_err and not ts,
            "rules": lambda c, ts: c == 0 and len(ts) == len(oks) and all(is_len(t, f) for t, f in zip(ts, oks)),
            "scenarios": lambda c, ts: c == 0 and len(ts) == len(oks) and all(is_cnt(t, f, r"count_scenarios$") for t, f in zip(ts, oks)),
            "steps": lambda c, ts: c == 0 and len(ts) == len(oks) and all(is_cnt(t, f, r"count_steps$") for t, f in zip(ts, oks)),
        }
        for n in names:
            c, ts = _addends(fields[n])
            if not checks[n](c, ts) and bad[n] is None:
                bad[n] = f"after receiving {[k for _, k, _ in r['hist']]} the field is {D.fmt(ing, fields[n])[:160]}"
    for n in names:
        R.check(bad[n] is None and n_rows >= 4, f"summary-field/{n}", ing, f"{n} equals what was received on all {n_rows} completed two-turn paths",
                f"ParsingFinished.{n} does not equal the number received: {bad[n]}")
    R.floor(9)


def r5(F, R):
    ex = roles.execute(F)
    aw_fin, fin = role_is_finished(F)
    ex2, sends, emit_fns = execute_emissions(F)
    fi = [(s, t) for s, t in sends if "event::Cucumber::Finished" in A.event_tags(F, ex, t["args"][1])[0]]
    if len(fi) != 1:
        raise Unverifiable("Cucumber::Finished emission")
    s_fi = fi[0][0]
    # the exit is guarded by the awaited IS_FINISHED result being true
    ok = False
    for g in A.guards_of(ex, s_fi):
        l = g.discr_local
        if l is None:
            continue
        sl = A.slice_back(ex, start_locals=[l], stop_calls=[r"Future::poll$"])
        if aw_fin.poll_site in sl.sites and g.polarity() is True:
            ok = True
    R.check(ok, "exit-only-if-finished", s_fi, "the loop is left only when IS_FINISHED returned true", "the scheduling loop can be left although IS_FINISHED is false")
    from .c04 import check_finished_requires_flag
    check_finished_requires_flag(F, R, "finished-requires-parsing-finished")
    R.floor(2)


def r6(F, R):
    """Brackets are kept per *delivered* feature / rule: the bookkeeping maps are keyed by `Source<_>`, whose equality and hash
    must be the identity of the shared allocation (two equal-looking features are two brackets).  Decided on the path
    tables of Source's PartialEq / Hash impls."""
    bk = F.adts.get(("cucumber", BK))
    key_tys = " ".join(f.get("ty", "") for v in (bk or {}).get("variants", []) for f in v["fields"])
    R.check("HashMap<event::Source<gherkin::Feature>" in key_tys and "event::Source<gherkin::Rule>" in key_tys, "bracket-keys-are-sources", None,
            "bookkeeping maps keyed by Source<Feature> / (Source<Feature>, Source<Rule>)", f"the bracket bookkeeping is not keyed by Source values any more: {key_tys[:200]}")
    def strip(t):
        if isinstance(t, tuple) and t:
            if t[0] in ("ref", "deref", "refto", "conv") and len(t) == 2:
                return strip(t[1])
            return tuple(strip(x) for x in t)
        return t
    def ptr_of(t, who):
        t = strip(t)
        return isinstance(t, tuple) and t and t[0] == "call" and re.search(r"Arc(::<.*>)?::as_ptr$", t[1]) is not None and strip(t[2][0]) == ("field", ("arg", who), 0)
    eqs = [b for b in F.crate_bodies() if (b.impl or {}).get("self_adt") == "event::Source" and (b.impl or {}).get("trait", "").startswith("std::cmp::PartialEq") and b.name.endswith("::eq")]
    hs = [b for b in F.crate_bodies() if (b.impl or {}).get("self_adt") == "event::Source" and (b.impl or {}).get("trait") == "std::hash::Hash" and b.name.endswith("::hash")]
    if len(eqs) != 1 or len(hs) != 1:
        raise Unverifiable(f"Source: {len(eqs)} PartialEq::eq / {len(hs)} Hash::hash impls")
    rows = D.Deep(F, eqs[0], max_paths=20).run()
    ok = len(rows) == 1 and not rows[0].cut
    if ok:
        ret = strip(rows[0].ret)
        by_ptr_eq = ret[0] == "call" and re.search(r"Arc(::<.*>)?::ptr_eq$|ptr::eq$", ret[1]) is not None and \
            {strip(strip(a)) for a in ret[2]} == {("field", ("arg", 1), 0), ("field", ("arg", 2), 0)}
        by_as_ptr = ret[0] == "bin" and ret[1] == "Eq" and ((ptr_of(ret[2], 1) and ptr_of(ret[3], 2)) or (ptr_of(ret[2], 2) and ptr_of(ret[3], 1)))
        by_as_ptr_call = ret[0] == "call" and re.search(r"::eq$", ret[1]) is not None and len(ret[2]) == 2 and ((ptr_of(ret[2][0], 1) and ptr_of(ret[2][1], 2)) or (ptr_of(ret[2][0], 2) and ptr_of(ret[2][1], 1)))
        ok = by_ptr_eq or by_as_ptr or by_as_ptr_call
    R.check(ok, "source-eq-is-identity", eqs[0], "Source == Source  <=>  same allocation (Arc::ptr_eq)",
            "Source's equality is not pointer identity: two structurally equal features / rules share one bracket counter (one Started, early Finished)")
    rows = D.Deep(F, hs[0], max_paths=20).run()
    okh = len(rows) == 1 and not rows[0].cut
    if okh:
        hashed = [e for e in rows[0].effects if e[0] == "call" and re.search(r"::hash$", e[1])]
        okh = len(hashed) == 1 and ptr_of(hashed[0][2][0], 1)
    R.check(okh, "source-hash-is-identity", hs[0], "hash(Source) = hash(Arc::as_ptr)", "Source's hash is not the hash of its allocation's address (inconsistent with identity equality, or by value)")
    R.floor(3)


def r7(F, R):
    """The two totals the framing relies on are what their names say: `count_scenarios()` (compared with the per-feature counter before
    `Feature::Finished`, reported in ParsingFinished) is the number of the feature's own scenarios PLUS those of all its rules, and
    `count_steps()` sums the steps of both kinds of scenarios — each reads `scenarios`, `rules` and the rules' `scenarios` (and `steps`)
    through counting adaptors only (`len`, `iter`, `map`, `flat_map`, `sum`, `count`, `+`), nothing that filters, skips or limits."""
    OKA = r"(::len|::iter|Iterator::map|Iterator::flat_map|Iterator::flatten|Iterator::sum|Iterator::count|IntoIterator::into_iter|Iterator::chain|Deref::deref|Iterator::fold)$"
    for name, need in (("count_scenarios", {("gherkin::Feature", "scenarios"), ("gherkin::Feature", "rules"), ("gherkin::Rule", "scenarios")}),
                       ("count_steps", {("gherkin::Feature", "scenarios"), ("gherkin::Feature", "rules"), ("gherkin::Rule", "scenarios"), ("gherkin::Scenario", "steps")})):
        bs = [b for b in F.crate_bodies() if re.search(r"feature::Ext(<.*>)?>?::" + name + "$", b.name) or (b.name.endswith("::" + name) and (b.impl or {}).get("self_adt") == "gherkin::Feature")]
        if len(bs) != 1:
            raise Unverifiable(f"{name}: {len(bs)} bodies")
        b = bs[0]
        fields, calls = set(), []
        for nb in F.nested(b):
            for _, st in nb.assigns():
                for pl in A.rvalue_places(st["rv"]):
                    fields |= {(o, n) for o, n in place_fields(pl) if o.startswith("gherkin::")}
            for _, t in nb.calls():
                calls.append(callee_path(t) or "?")
                for a in t["args"]:
                    pl = op_place(a)
                    if pl:
                        fields |= {(o, n) for o, n in place_fields(pl) if o.startswith("gherkin::")}
        bad_calls = sorted({c for c in calls if not re.search(OKA, c)})
        if any(re.search(r"Iterator::next$", c) for c in bad_calls):
            # explicit-loop spelling (`for r in &self.rules { n += r.scenarios.len() }`, possibly nested): every loop is left only when its
            # iterator is exhausted and every turn passes the addition (or the loop nested in it)
            loops_ok = True
            for nb in F.nested(b):
                nexts = [(s_, t) for s_, t in nb.calls(lambda t: callee_is(t, r"Iterator::next$")) if nb.in_cycle(s_)]
                add_bbs = {s_.bb for s_, st in nb.assigns(lambda st: st["rv"]["k"] in ("bin", "checked") and st["rv"].get("op") in ("Add", "AddWithOverflow"))}
                loops = sorted(((A.natural_loop(nb, s_.bb), s_, t) for s_, t in nexts), key=lambda x: len(x[0]))
                for i, (lp, s_, t) in enumerate(loops):
                    inner = [l2 for l2, _, _ in loops[:i] if set(l2) <= set(lp)]
                    handler = set(inner[-1]) if inner else (add_bbs & set(lp))
                    loops_ok = loops_ok and bool(handler) and A.for_loop_handles_every_element(nb, s_, t, handler)
                if [1 for s_, t in nb.calls(lambda t: callee_is(t, r"Iterator::next$")) if not nb.in_cycle(s_)]:
                    loops_ok = False
            if loops_ok:
                bad_calls = [c for c in bad_calls if not re.search(r"Iterator::next$", c)]
        adds = [st for nb in F.nested(b) for _, st in nb.assigns(lambda st: st["rv"]["k"] in ("bin", "checked") and st["rv"].get("op") in ("Add", "AddWithOverflow"))]
        others = [st["rv"].get("op") for nb in F.nested(b) for _, st in nb.assigns(lambda st: st["rv"]["k"] in ("bin", "checked") and st["rv"].get("op") not in ("Add", "AddWithOverflow"))]
        ok = need <= fields and not bad_calls and len(adds) >= 1 and not others
        R.check(ok, f"total/{name}", b, f"{name} = own scenarios + rules' scenarios ({'steps of both' if name == 'count_steps' else 'counted'})",
                f"`{name}` does not count the feature's own and its rules' scenarios{' steps' if name == 'count_steps' else ''}: reads {sorted(n for _, n in fields)}, "
                f"missing {sorted(n for _, n in need - fields)}, non-counting calls {bad_calls[:3]}, other arithmetic {others[:3]}")
    R.floor(2)


def r8(F, R):
    """What the runner emits is what the writers see: in `Cucumber::filter_run` the stream returned by `Runner::run` is handed — itself, no
    skipping / limiting / filtering adaptor in between — to a loop that is left only when the stream ends and passes EVERY item to
    `Writer::handle_event` (the item itself), and the writer that received them is the one returned (whose Stats give the verdict)."""
    from . import c15
    co = c15.filter_run_co(F)
    run = [(s_, t) for s_, t in co.calls(lambda t: (op_fn(t["func"]) or {}).get("trait") == "runner::Runner")]
    is_he = lambda t: (op_fn(t["func"]) or {}).get("trait") == "writer::Writer" and callee_is(t, r"::handle_event$")
    is_adaptor = lambda ct: (op_fn(ct["func"]) or {}).get("trait", "").endswith(("StreamExt", "Stream", "TryStreamExt")) and not callee_is(ct, r"StreamExt::next$")
    # the pump: the coroutine of `cucumber::` that polls a stream in a loop and hands items to Writer::handle_event — filter_run's own
    # body, or a private async helper it passes the runner's stream to
    pcs = [b_ for b_ in F.crate_bodies() if b_.is_coroutine and b_.name.startswith("cucumber::") and any(True for _ in b_.calls(is_he))
           and any(True for _ in b_.calls(lambda t: callee_is(t, r"StreamExt::next$")))]
    if len(run) != 1 or len(pcs) != 1:
        raise Unverifiable(f"filter_run: Runner::run x{len(run)}, event pumps x{len(pcs)}")
    pc = pcs[0]
    he = list(pc.calls(is_he))
    if len(he) != 1:
        raise Unverifiable(f"event pump: Writer::handle_event x{len(he)}")
    s_run, t_run = run[0]
    s_he, t_he = he[0]
    nxt = [(s_, t) for s_, t in pc.calls(lambda t: callee_is(t, r"StreamExt::next$"))]
    STOP = [r"Future::poll$", r"runner::Runner(<.*>)?>?::run$", r"Runner::run$"]
    pump = []
    if pc is co:
        # the stream polled by the loop is the runner's
        for s_, t in nxt:
            sl = A.slice_back(co, [t["args"][0]], stop_calls=STOP)
            if s_run in sl.sites:
                pump.append((s_, t, sorted({callee_path(ct).rsplit("::", 1)[-1] for _, ct in sl.calls if is_adaptor(ct)})))
    else:
        hf = F.root_fn(pc)
        hcalls = [(s_, t) for s_, t in co.calls(lambda t: F.callee_body(t, co.crate) is hf)]
        if len(hcalls) != 1:
            raise Unverifiable(f"event pump helper `{hf.short}` is called {len(hcalls)} times from filter_run")
        s_h, t_h = hcalls[0]
        sl = A.slice_back(co, list(t_h["args"]), stop_calls=STOP)
        outer = sorted({callee_path(ct).rsplit("::", 1)[-1] for _, ct in sl.calls if is_adaptor(ct)})
        awaited = any(a.src_op is not None and s_h in A.slice_back(co, [a.src_op]).sites for a in A.awaits(co))
        R.check(s_run in sl.sites and awaited, "pump/helper-gets-runner-stream", s_h, f"`{hf.short.rsplit('::', 1)[-1]}(runner.run(..), ..)` is awaited",
                "the event-pump helper is not given the runner's stream, or its future is not awaited")
        for s_, t in nxt:
            sl2 = A.slice_back(pc, [t["args"][0]], stop_calls=STOP)
            inner = sorted({callee_path(ct).rsplit("::", 1)[-1] for _, ct in sl2.calls if is_adaptor(ct)})
            pump.append((s_, t, outer + inner))
    ok = len(pump) == 1 and not pump[0][2]
    R.check(ok, "pump/runner-stream-unadapted", s_run, "the loop polls runner.run(..) itself", f"the event loop of filter_run does not poll the runner's stream as it is (adaptors: {[p_[2] for p_ in pump]})")
    co = pc
    if len(pump) == 1:
        s_n, t_n, _ = pump[0]
        aw = [a for a in A.awaits(co) if a.src_op is not None and s_n in A.slice_back(co, [a.src_op]).sites]
        # the item handed to the writer is what next() yielded
        ev_sl = A.slice_back(co, [t_he["args"][1]])
        from_next = bool(aw) and any(a.poll_site in ev_sl.sites for a in aw) or s_n in A.slice_back(co, [t_he["args"][1]], stop_calls=[]).sites
        R.check(from_next, "pump/item-forwarded", s_he, "writer.handle_event(ev, ..) with the stream's item", "the writer is not handed the item the runner's stream yielded")
        # every turn forwards: the loop around next() contains handle_event, is left only on None, and no way round skips the forward
        loop = A.natural_loop(co, s_n.bb)
        R.check(s_he.bb in loop and co.in_cycle(s_n), "pump/every-item", s_he, "every item of the stream is forwarded", "Writer::handle_event is not called inside the loop over the runner's stream")
        guards = [g for g in A.guards_of(co, s_he) if g.bb in loop]
        extra = []
        for g in guards:
            d = g.cond_def()
            if d and d[0] == "discr" and g.variants() in ({"Some"}, {"Ready"}):
                continue
            extra.append(A.describe_operand(co, g.term["discr"]))
        R.check(not extra, "pump/unconditional", s_he, "forwarding depends on nothing but the stream yielding an item", f"an event is forwarded to the writer only under {extra}: the other events are lost")
    R.floor(4)


RULES = [("R1", r1, None), ("R2", r2, None), ("R3", r3, None), ("R4", r4, None), ("R5", r5, None), ("R6", r6, None), ("R7", r7, None), ("R8", r8, None)]
