"""C20 — tracing logs are attributed to the scenario and step that emitted them (clauses; DESIGN §4 C20)."""
import re

from . import analysis as A
from . import deep as D
from . import roles
from . import spans as SP
from .c04 import _reaches_block
from .mir import Site, Unverifiable, callee_is, callee_path, const_int, const_str, op_fn, op_local, op_place, place_fields, place_str

CFGS = {"quick": ["all"], "thorough": ["all", "tracing", "macros_tracing"]}

EXPLANATION = """
Structural clauses of the tracing integration (all-features build): (R1) instrumentation: every user future of the
attempt routine (attempt body, step, before hook, after hook) is wrapped by Instrument::instrument with a span
created in the same function — the attempt span by scenario_span() on the very ScenarioId the attempt was given —
and it is the instrumented future that is awaited; (R2) hand-shake: in each of those functions, once the
`waiter.zip(span_id)` is Some, the emission of the step's / hook's / scenario's result event is reachable only
through the await of wait_for_span_close(id) on the id of that same span; (R3) forwarding: the log forwarder is the
*first* (biased) argument of select_with_biased_first, it drains emitted_logs() in a loop until None before
yielding (then_yield), Collector::start_scenarios(batch) precedes the dispatch of the batch and finish_scenario(id)
is called with the id of the consumed completion message; (R4) attribution: emitted_logs() looks the message's
scenario id up in the registered scenarios and builds Scenario::Log with that entry's feature/rule/scenario/retries;
the writer side parses the id that AppendScenarioMsg appended (END / BEFORE_SCENARIO_ID / NO_SCENARIO_ID pairing).
Not decided: ordering under real timing, exactly-once delivery, loss before run-Finished (schedule properties of two
channels and a subscriber).
Added after the second seeded round: (R4, extended) the ScenarioId is searched on every span of the event's scope, not on one chosen span; (R6) a received span-close id marks its entry as closed on every path of the collector's drain routine.
"""
DECLINED = ["exactly-once delivery and no-loss under every timing", "relative order of logs and events on two channels"]
ASSUMPTIONS = ["tracing's Instrument enters the span on every poll of the instrumented future", "on_close fires when the last handle of a span is dropped"]


def instrument_sites(F, bodies):
    out = []
    for b in bodies:
        for s, t in b.calls(lambda t: callee_is(t, r"tracing::Instrument::instrument$", r"Instrument::instrument$")):
            out.append((b, s, t))
    return out


def _rname(r):
    return F_short(r).rsplit("::", 1)[-1]


def F_short(r):
    return r.F.root_fn(r.body).short


def _user_runs(r, row):
    """(index, coroutine name) of every point of the path where a user future (a coroutine nested in the routine) is run:
    its await, or the panic caught out of it."""
    out = []
    for i, e in enumerate(row.p.effects):
        if e[0] == "await" and e[1][0] == "coroutine" and e[1][1] in r.user:
            out.append((i, e[1][1]))
        elif e[0] == "caught-panic":
            for x in D.subterms(e[1]):
                if x[0] == "coroutine" and x[1] in r.user:
                    out.append((i, x[1]))
    return out


def r1(F, R):
    """On the deep path tables of the attempt's routines (spans.py): every run of a user future is inside
    `Instrument::instrument(fut, <kind>_span(..))`."""
    kinds = {}
    for r in SP.table(F):
        name = _rname(r)
        ks = set()
        n_paths = 0
        for row in r.rows:
            runs = _user_runs(r, row)
            if not runs and not row.instr:
                continue
            n_paths += 1
            for i, fut, span in row.instr:
                ks.add(r.span_kind(span))
            for i, co in runs:
                cov = [ins for ins in row.instr if ins[0] < i and r.covered(ins[1], co)]
                R.check(len(cov) == 1, f"instrumented-and-awaited/{name}", r.body, "every run of a user future is under fut.instrument(span)",
                        f"a user future ({co.rsplit('::', 2)[-1]}) is polled outside any tracing span ({len(cov)} covering Instrument::instrument): its logs are not attributed")
        if n_paths == 0:
            continue
        R.check(len(ks) == 1 and None not in ks, f"one-span-kind/{name}", r.body, f"{ks}", f"{name} instruments with spans {ks} (unknown = not a scenario_span/step_span/hook_span call)")
        for k in ks:
            if k is not None:
                nm = k[0] + ("/" + k[1] if k[1] else "")
                kinds[nm] = kinds.get(nm, 0) + 1
        if ks == {("scenario_span", None)}:
            ok = True
            upv = r.upv
            ids = [i for i, ty in upv.items() if ty == "runner::basic::ScenarioId"]
            for row in r.rows:
                for i, fut, span in row.instr:
                    a0 = SP._strip(span[2][0]) if span[2] else None
                    ok = ok and a0 is not None and a0[0] == "field" and a0[1] in (("arg", 1), ("deref", ("arg", 1))) and len(ids) == 1 and a0[2] == ids[0]
            R.check(ok, "attempt-span-carries-own-id", r.body, "scenario_span() of the attempt's own ScenarioId",
                    "the attempt's span is created for a different ScenarioId than the one the attempt was dispatched with (logs go to another scenario)")
    want = {"scenario_span": 1, "step_span": 1, "hook_span/Before": 1, "hook_span/After": 1}
    R.check(kinds == want, "four-instrumented-futures", None, f"{kinds}", f"instrumented user futures: {kinds}; expected {want}")
    R.floor(5)


def _handshake(r, row, ins):
    """For the future instrumented at `ins` on this path: (required, wait index, awaited index, own-span?, end of the user run)."""
    i0, fut, span = ins
    runs = [i for i, co in _user_runs(r, row) if i > i0 and r.covered(fut, co)]
    end = max(runs) if runs else i0
    absent = False
    for a, out in row.p.conds:
        if a[0] != "discr" or out != "None":
            continue
        x = SP._strip(a[1])
        if x[0] == "call" and re.search(r"Span::id$", x[1]):
            absent = True
        elif x[0] == "field" and x[1] in (("arg", 1), ("deref", ("arg", 1))) and "SpanCloseWaiter" in r.upv.get(x[2], ""):
            absent = True
    wait = [(j, e) for j, e in row.waits if j > end]
    own, awaited = None, None
    if wait:
        j, e = wait[0]
        idt = SP._strip(e[2][1]) if len(e[2]) > 1 else None
        own = False
        if idt is not None and idt[0] == "field" and idt[1][0] == "as" and idt[1][2] == "Some":
            c = SP._strip(idt[1][1])
            own = c[0] == "call" and re.search(r"Span::id$", c[1]) is not None and bool(c[2]) and SP._strip(c[2][0]) == span
        wt = ("call", e[1], e[2], e[4])
        aw = [k for k, f in row.awaits if k > j and f == wt]
        awaited = aw[0] if aw else None
    return (not absent), (wait[0][0] if wait else None), awaited, own, end


def r2(F, R):
    """Hand-shake on the path tables: on every path on which the waiter and the span's id are both present, the routine
    awaits wait_for_span_close(id of the instrumenting span) after the user future and before any later event."""
    n = 0
    for r in SP.table(F):
        name = _rname(r)
        rows = [row for row in r.rows if row.instr]
        if not rows:
            continue
        n += 1
        req_rows = 0
        for row in rows:
            for ins in row.instr:
                required, j, k, own, end = _handshake(r, row, ins)
                if not required:
                    continue
                req_rows += 1
                R.check(j is not None, f"{name}/handshake-sites", r.body, "", "a path with a waiter and a span id has no wait_for_span_close after the user future")
                if j is None:
                    continue
                R.check(own is True, f"{name}/waits-for-own-span", r.body, "wait_for_span_close(id of the instrumenting span)",
                        "the hand-shake waits for a different span than the one the user future ran in")
                R.check(k is not None, f"{name}/wait-awaited", r.body, "", "wait_for_span_close is called but its future is not awaited")
                if k is None:
                    continue
                late = [i for i, e in row.sends if end < i < k]
                R.check(not late, f"{name}/result-after-span-closed", r.body, "result emission(s) only after the span closed",
                        "a result event can be emitted before the step's/hook's span has closed (its logs may arrive after the result)")
        R.check(req_rows > 0, f"{name}/every-outcome-after-span-closed", r.body, f"{req_rows} path(s) with waiter and id checked",
                "no path of the routine has both a waiter and a span id: the hand-shake can never happen")
    R.check(n == 4, "handshake-functions", None, "run_scenario, run_step, before hook, after hook", f"{n} functions perform the span-close hand-shake")
    R.floor(12)


def _return_reachable_block(b, start, stop_site):
    seen, work = set(), [start]
    while work:
        x = work.pop()
        if x in seen or x == stop_site.bb:
            continue
        seen.add(x)
        if b.blocks[x]["term"]["k"] == "return":
            return True
        work.extend(b.succ[x])
    return False


def r3(F, R):
    ex = roles.execute(F)
    sel = [(s, t) for s, t in ex.calls(lambda t: callee_is(t, r"future::select_with_biased_first$"))]
    if len(sel) != 1:
        raise Unverifiable(f"select_with_biased_first calls: {len(sel)}")
    s, t = sel[0]
    a0 = A.slice_back(ex, [t["args"][0]], stop_calls=[r"Future::poll$"])
    a1 = A.slice_back(ex, [t["args"][1]], stop_calls=[r"Future::poll$"])
    fw = [rv["def"] for _, rv in a0.aggs if rv.get("agg") == "coroutine"]
    R.check(len(fw) == 1 and a1.has_call(r"StreamExt::next$") and not a0.has_call(r"StreamExt::next$"), "forwarder-is-biased-arm", s, "select_with_biased_first(forward_logs, run_scenarios.next())",
            "the log forwarder is not the biased (first) argument of the select: completions can overtake pending logs")
    if len(fw) == 1:
        fb = F.body(fw[0])
        # on the forwarder's path table (each row = one way through the loop body, cut at the loop heads): a row that
        # suspends (yield / await) does so only after the *last* emitted_logs() of that row returned None (or there is no
        # collector); a row that got Some(logs) hands exactly those logs to the sending routine
        EL = r"Collector::emitted_logs$"
        send_fns = [F.callee_body(t3) for s3, t3 in fb.calls() if F.callee_body(t3) is not None and roles.reaches_send(F, F.callee_body(t3))]
        send_rx = "|".join(re.escape(x.name.rsplit("::", 1)[-1]) + "$" for x in send_fns) or "$^"
        rows = D.Deep(F, fb, opaque=EL + "|" + send_rx, max_paths=400).run()
        n_el = n_y = 0
        drained = sent = True
        for p in rows:
            last = None
            for i, e in enumerate(p.effects):
                if e[0] == "call" and re.search(EL, e[1]):
                    n_el += 1
                    last = ("call", e[1], e[2], e[4])
                    st_ = [out for a_, out in p.conds if a_ == ("discr", last)]
                    if st_ == ["Some"]:
                        nxt = [e2 for e2 in p.effects[i + 1:] if e2[0] == "call" and (re.search(EL, e2[1]) or re.search(send_rx, e2[1]))]
                        got = ("field", ("as", last, "Some"), 0)
                        sent = sent and bool(nxt) and re.search(send_rx, nxt[0][1]) is not None and any(D.mentions(a_, lambda y: y == got) for a_ in nxt[0][2])
                elif e[0] in ("await", "yield-once", "yield"):
                    n_y += 1
                    if last is not None:
                        st_ = [out for a_, out in p.conds if a_ == ("discr", last)]
                        drained = drained and st_ == ["None"]
                    else:
                        # no collector at all
                        drained = drained and any(a_[0] == "discr" and out == "None" and not D.mentions(a_, lambda y: y[0] in ("call", "await")) for a_, out in p.conds)
        R.check(n_el >= 1 and n_y >= 1, "forwarder-shape", fb, "drain loop + then_yield", f"emitted_logs calls on the forwarder's paths: {n_el}, suspensions: {n_y}")
        if n_el >= 1 and n_y >= 1:
            R.check(drained, "forwarder-drains-before-yield", fb, "yield only when emitted_logs() returned None", "the forwarder yields while emitted_logs() may still have logs (its last result was not None)")
            R.check(sent, "forwarder-sends-what-it-drained", fb, "send_all_events(logs)", "drained logs are not sent on the event channel")
    # registration before dispatch, de-registration on the consumed message
    st = [(s2, t2) for s2, t2 in ex.calls(lambda t2: callee_is(t2, r"tracing::Collector::start_scenarios$", r"Collector::start_scenarios"))]
    pushes = [(s2, t2) for s2, t2 in ex.calls(lambda t2: callee_is(t2, r"FuturesUnordered::<.*>::push$"))]
    R.check(len(st) == 1 and len(pushes) == 1 and _dominated_or_guarded(ex, st[0][0], pushes[0][0]), "register-before-dispatch", st[0][0] if st else ex, "start_scenarios(batch) precedes the pushes",
            "scenarios can be dispatched before they are registered with the log collector")
    deregistration(F, R)
    R.floor(6)


def deregistration(F, R):
    """Every consumed completion message de-registers its attempt from the log collector — on every row of the completion
    table (completions.py) that has a collector; otherwise a finished attempt stays registered and later unattributed logs
    are delivered as Log events of it, after its Finished event."""
    from . import completions as CP
    C = CP.table(F)
    dr = [(r, e) for r in C.msg_rows for _, e in r["dereg"]]
    okd = bool(dr) and all(len(e[2]) > 1 and CP._strip(e[2][1]) == C.component(r, 0) for r, e in dr) and all(len(r["dereg"]) <= 1 for r in C.msg_rows)
    R.check(okd, "deregister-on-consumed-completion", C.body, "finish_scenario(message.0)", "finish_scenario is not called (once) with the id of the consumed completion message")
    skipped = [r for r in C.msg_rows if not r["dereg"] and not any(a[0] == "discr" and o == "None" and not D.mentions(a, lambda y: y[0] == "call") for a, o in r["p"].conds)]
    R.check(not skipped, "deregister-every-completion", C.body, f"all {len(C.msg_rows)} message rows with a collector de-register",
            "a completion message can be consumed without finish_scenario(id) although a collector is present (e.g. for retried attempts): the attempt stays registered")


def span_close_bookkeeping(F, R):
    """The span-close hand-shake can complete: whenever the collector receives the id of a closed span it marks that span's
    entry as closed — also when the entry already exists (a waiter subscribed first) — on every path of the routine that
    drains the close notifications.  Otherwise `wait_for_span_close` never resolves and the run never ends."""
    from . import deep as D
    cands = []
    for b in F.crate_bodies():
        if (b.impl or {}).get("self_adt") != "tracing::Collector" or b.kind not in ("Fn", "AssocFn"):
            continue
        for s, t in b.calls(lambda t: callee_is(t, r"UnboundedReceiver.*::try_next$|::try_recv$")):
            if "span::Id>" in (op_fn(t["func"]) or {}).get("self", "") + (op_fn(t["func"]) or {}).get("full", ""):
                cands.append(b)
    cands = list({b.key: b for b in cands}.values())
    if len(cands) != 1:
        raise Unverifiable(f"collector routine receiving closed span ids: {len(cands)}")
    b = cands[0]
    rows = D.Deep(F, b, opaque=r"retain$", max_paths=400).run()
    n, bad = 0, None
    strip = lambda t: strip(t[1]) if isinstance(t, tuple) and t and t[0] in ("ref", "deref", "refto", "conv") else t
    for p in rows:
        # closed ids received on this path: try_next results of item type span::Id that the conditions say are Some
        for a, o in p.conds:
            if a[0] == "discr" and o == "Some":
                src = [x for x in D.subterms(a[1]) if x[0] == "call" and re.search(r"try_next$|try_recv$", x[1])]
                if len(src) != 1:
                    continue
                got = ("field", ("as", a[1], "Some"), 0)
                keyed = [e for e in p.effects if e[0] == "call" and re.search(r"HashMap(::<.*>)?::entry$", e[1]) and len(e[2]) > 1 and strip(e[2][1]) == got]
                if not keyed:
                    continue   # the other receiver (its item is a pair, the key a component of it)
                n += 1
                ent = ("call", keyed[0][1], keyed[0][2], keyed[0][4])
                marks = [e for e in p.effects if e[0] == "write" and e[2] == ("const", True) and D.mentions(e[1], lambda y: y == ent)]
                if not marks:
                    bad = "a received close notification does not mark its (possibly already existing) entry as closed"
    R.check(bad is None and n >= 1, "close-marks-entry", b, f"every received close id marks its entry on all {n} paths", bad or "no path receives a close notification")
    # ... and a waiter that subscribed before its span closed stays registered until it does: the predicate that sweeps the entries
    # removes one (and notifies its waiters) only after learning that its span was closed, and leaves every entry it keeps untouched
    # (the sweep may live in the routine that drains the notifications or in a sibling method of the collector)
    sweeps = [(cb, s, t) for cb in F.crate_bodies() if (cb.impl or {}).get("self_adt") == "tracing::Collector" and cb.kind in ("Fn", "AssocFn")
              for s, t in cb.calls(lambda t: callee_is(t, r"HashMap(::<.*>)?::retain$"))]
    if len(sweeps) < 1:
        raise Unverifiable("sweep of the span entries (`retain`) in tracing::Collector: 0")
    n_keep = n_rm = 0
    for sw_body, sw_site, sw_t in sweeps:
        cl = A.closure_of_operand(F, sw_body, sw_t["args"][1])
        if cl is None:
            raise Unverifiable("predicate of the span-entry sweep")
        V = ("arg", 3 if cl.kind == "Closure" else 2)     # (key, value): a closure has its environment in front
        srows = D.Deep(F, cl, max_paths=400).run()
        if not srows:
            raise Unverifiable("span-entry sweep: empty table")

        def noop_write(p, e):
            """storing `None` into an Option the row learned to be `None` already (`callbacks.take()` on an empty entry) changes nothing"""
            return D.is_variant(e[2], "std::option::Option", "None") and any(a == ("discr", e[1]) and o == "None" for a, o in p.conds)
        touched = lambda p: [e for e in p.effects if (e[0] == "write" and D.mentions(e[1], lambda y: y == V) and not noop_write(p, e)) or
                             (e[0] == "call" and re.search(r"Sender.*::send$|mem::(take|replace)$|Option::<.*>::take$|Vec::<.*>::(clear|drain|pop)$", e[1]) and D.mentions(e[2], lambda y: y == V))]
        closed = lambda p: any(o is True and a[0] != "discr" and D.mentions(a, lambda y: y == V) and not (isinstance(a, tuple) and a[0] in ("call", "bin")) for a, o in p.conds)
        waited = lambda p: any(a[0] == "discr" and o == "Some" and D.mentions(a, lambda y: y == V) for a, o in p.conds)
        where = f"{sw_body.short.rsplit('::', 1)[-1]}"
        for p in srows:
            conds = " ∧ ".join(f"{D.fmt(cl, a)[:50]}={o}" for a, o in p.conds) or "always"
            if p.ret == ("const", True) and not p.cut:
                n_keep += 1
                R.check(not touched(p), f"sweep/kept-entry-untouched/{where}", cl, "an entry that is kept is not modified",
                        f"[{conds}] the sweep keeps the entry but has taken its waiters / modified it: a waiter registered before its span closed is dropped "
                        f"(un-notified) and the step's result overtakes the logs of its span")
            else:
                n_rm += 1
                R.check(closed(p), f"sweep/removed-only-when-closed/{where}", cl, "an entry is removed / its waiters notified only after `closed` was learned true",
                        f"[{conds}] the sweep notifies the waiters of / removes an entry whose span has not been reported closed")
                R.check(waited(p), f"sweep/removed-only-with-waiters/{where}", cl, "an entry is removed only together with notifying its waiters",
                        f"[{conds}] the sweep removes an entry nobody waits for yet: if its span is already closed the notification is lost and the waiter that "
                        f"subscribes next (a step's / scenario's `wait_for_span_close`) never resumes — the run hangs")
    R.check(n_keep >= 1 and n_rm >= 1, "sweep/table", b, f"{n_keep} keeping rows, {n_rm} removing rows", f"sweep table incomplete: keep {n_keep}, remove {n_rm}")


def _dominated_or_guarded(b, a, c):
    """Every path from entry to c passes a, or skips a only through the `None` edge of an Option<Collector>."""
    if b.dominates(a, c):
        return True
    # allow: if let Some(coll) = logs_collector.as_mut() { coll.start_scenarios() }
    for g in A.guards_of(b, a):
        d = g.cond_def()
        if d and d[0] == "discr" and g.variants() == {"Some"} and d[2] == "std::option::Option":
            # the only way around `a` must be the None edge of that switch: with that edge cut, `a` dominates `c`
            none_edges = {(g.bb, tg) for v, tg in b.switch_edges(g.bb) if tg not in g.targets}
            seen, work = set(), [0]
            reached = False
            while work:
                x = work.pop()
                if x in seen or x == a.bb:
                    continue
                seen.add(x)
                if x == c.bb:
                    reached = True
                    break
                for s2 in b.succ[x]:
                    if (x, s2) not in none_edges:
                        work.append(s2)
            return not reached and b.dominates(Site(b, g.bb, "T"), c)
    return False


def _key(t):
    """structural key of a term with the call ids dropped"""
    if isinstance(t, tuple):
        if len(t) == 4 and t[0] == "call":
            return ("call", t[1], tuple(_key(x) for x in t[2]), 0)
        return tuple(_key(x) for x in t)
    return t


def r4(F, R):
    el = [b for b in F.crate_bodies() if (b.impl or {}).get("self_adt") == "tracing::Collector" and b.name.endswith("::emitted_logs")]
    if len(el) != 1:
        raise Unverifiable("Collector::emitted_logs")
    b = el[0]
    nested = [x for x in roles.family(F, b) if not x.name.endswith("::notify_about_closing_spans") and "notify_about_closing_spans::" not in x.name]
    gets = [(nb, s, t) for nb in nested for s, t in nb.calls(lambda t: callee_is(t, r"HashMap::<.*>::get(_mut)?$"))]
    ok = False
    for nb, s, t in gets:
        ksl = A.slice_back(nb, [t["args"][1]])
        # the key is the id that came with the message: a ScenarioId parameter of the closure / helper the look-up sits in, or
        # (written in place) a part of what was received from the logs channel
        if ksl.params and "runner::basic::ScenarioId" in "".join(nb.locals[p] for p in ksl.params):
            ok = True
        dsl = A.deep_slice(F, nb, [t["args"][1]])
        if any(callee_is(ct, r"UnboundedReceiver::<.*>::try_next$|Receiver::<.*>::try_next$|StreamExt::next$") for _, ct in dsl.calls):
            ok = True
    R.check(ok, "lookup-by-message-id", gets[0][1] if gets else b, "scenarios.get(&id of the message)", "a log message is not attributed through its own scenario id")
    logs = [(nb, s, st) for nb in nested for s, st in nb.assigns(lambda st: st["rv"]["k"] == "agg" and st["rv"].get("adt") == "event::Scenario" and st["rv"]["variant"] == "Log")]
    R.check(len(logs) == 1, "builds-log-event", b, "", f"{len(logs)} Scenario::Log aggregates")
    # the Log event is a event of THAT attempt: its `retries` is the registered entry's retry counter as it is — Some(entry.retries) exactly when
    # the entry has retry options, None exactly when it has none (every other event of the attempt carries the same value; Normalize keys its
    # queues by it)
    for nb in nested:
        if not any(True for _ in nb.assigns(lambda st: st["rv"]["k"] == "agg" and st["rv"].get("adt") == "event::RetryableScenario")):
            continue
        rows = D.Deep(F, nb, max_paths=4000, inline=False).run()
        okr, whyr, n_r = bool(rows), "empty table", 0
        none_rows, opt_terms = [], set()
        for p in rows:
            # (the event may be returned by a closure / fn item, or pushed into a vector inside a loop of the routine itself)
            cands = [p.ret] + [a for e in p.effects if e[0] == "call" for a in e[2]]
            for x in (y for c in cands for y in D.subterms(c)):
                if not (isinstance(x, tuple) and len(x) == 4 and x[0] == "variant" and x[1] == "event::RetryableScenario" and len(x[3]) == 2):
                    continue
                n_r += 1
                rt = x[3][1]
                conds = " ∧ ".join(f"{D.fmt(nb, a)[:40]}={o}" for a, o in p.conds)
                if D.is_variant(rt, "std::option::Option", "Some"):
                    pay = rt[3][0]
                    # the optional value the counter is taken from: the first `(.. as Some)` below the payload's projections
                    inner = pay
                    while isinstance(inner, tuple) and inner and inner[0] in ("field", "deref", "ref", "refto", "conv") and not (inner[0] == "as"):
                        inner = inner[1]
                    src = [a for a, o in p.conds if a[0] == "discr" and o == "Some" and isinstance(inner, tuple) and inner[:1] == ("as",) and inner == ("as", a[1], "Some")]
                    if not src or not (isinstance(pay, tuple) and pay[0] == "field"):
                        okr, whyr = False, f"[{conds}] retries = {D.fmt(nb, rt)[:50]} is not a field of the entry's retry options"
                    opt_terms |= {_key(a[1]) for a in src}
                elif D.is_variant(rt, "std::option::Option", "None"):
                    none_rows.append((p, conds))
                else:
                    okr, whyr = False, f"[{conds}] retries = {D.fmt(nb, rt)[:60]}"
        # `None` only where the entry's retry options (the optional value the `Some` rows take the counter from) were learned absent
        for p, conds in none_rows:
            if any(a[0] == "discr" and o == "Some" and _key(a[1]) in opt_terms for a, o in p.conds):
                okr, whyr = False, f"[{conds}] the entry has retry options but the Log event is built with `retries: None`: it belongs to an attempt no other event names"
        R.check(okr and n_r >= 2 and bool(opt_terms), "log-carries-entry-retries", nb, "retries = entry.retries (Some iff the entry has retry options)", f"Scenario::Log is built with other retries than its attempt's: {whyr}")
    # writer side: parse the id after BEFORE_SCENARIO_ID, None after NO_SCENARIO_ID
    wr = [x for x in F.crate_bodies() if (x.impl or {}).get("self_adt") == "tracing::CollectorWriter" and (x.impl or {}).get("trait") == "std::io::Write" and x.name.endswith("::write")]
    R.check(len(wr) == 1, "collector-writer", None, "", f"{len(wr)} io::Write impls for CollectorWriter")
    if len(wr) == 1:
        w = wr[0]
        wfam = roles.family(F, w)   # the parsing may live in a private helper of `write`
        consts = []
        named = {"tracing::suffix::END": "__cucumber__scenario", "tracing::suffix::NO_SCENARIO_ID": "__unknown", "tracing::suffix::BEFORE_SCENARIO_ID": "__"}
        for wb in wfam:
            for _, t in wb.calls():
                consts += [const_str(a) for a in t["args"] if const_str(a) is not None]
                consts += [named[a["text"]] for a in t["args"] if a.get("k") == "const" and a.get("text") in named]
            for _, st in wb.assigns():
                consts += [const_str(o) for o in A.rvalue_operands(st["rv"]) if const_str(o) is not None]
        fm = [x for x in F.crate_bodies() if (x.impl or {}).get("self_adt") == "tracing::AppendScenarioMsg" and x.name.endswith("::format_event")]
        fconsts = []
        for x in fm:
            for nb in F.nested(x):
                for _, t in nb.calls():
                    fconsts += [const_str(a) for a in t["args"] if const_str(a) is not None]
                for _, st in nb.assigns():
                    fconsts += [const_str(o) for o in A.rvalue_operands(st["rv"]) if const_str(o) is not None]
        # the id appended to a record is found on ANY span enclosing the log event (the scenario's span need not be the root:
        # the run itself may execute inside a user's span): the `extensions().get::<ScenarioId>()` probe sits in a search over
        # the whole scope (find_map / filter_map / any / find ...), or in a loop over it — not on one chosen span
        probes = []
        for x in fm:
            for nb in roles.family(F, x):
                for s_, t_ in nb.calls(lambda t_: callee_is(t_, r"Extensions(::<.*>)?::get$|ExtensionsInner::get$|::get$") and "ScenarioId" in " ".join((op_fn(t_["func"]) or {}).get("targs", []) or [])):
                    probes.append((nb, s_, t_))
        ok_scope = bool(probes)
        WHOLE = r"Iterator::(find_map|filter_map|find|any|flat_map|map|filter|for_each|fold|try_fold|rev)$"
        for nb, s_, t_ in probes:
            good = False
            cc = A.closure_creation(F, nb) if nb.kind not in ("Fn", "AssocFn") else None
            if cc is not None:
                P, cs, st = cc
                uses, _ = A.forward_uses(P, st["pl"]["l"])
                for u in uses:
                    if u[0].idx == "T":
                        term = P.blocks[u[0].bb]["term"]
                        if term["k"] == "call" and callee_is(term, WHOLE) and not callee_is(term, r"Option::"):
                            good = True
            if not good:
                for sn, tn in nb.calls(lambda tn: callee_is(tn, r"Iterator::next$")):
                    if s_.bb in A.natural_loop(nb, sn.bb):
                        good = True
            ok_scope = ok_scope and good
        R.check(ok_scope, "id-searched-in-every-span", fm[0] if fm else w, "scope.from_root().find_map(|span| span.extensions().get::<ScenarioId>())",
                "the scenario id is looked for on one chosen span only (e.g. the root): when the run executes inside a user's span every log is tagged `unknown` and broadcast to all scenarios")
        need = {"__cucumber__scenario", "__unknown", "__"}
        R.check(need <= set(consts), "writer-separators", w, "splits on END / NO_SCENARIO_ID / BEFORE_SCENARIO_ID", f"CollectorWriter::write uses separators {sorted(set(consts) & need)}")
        # the id / no-id markers are APPENDED to the formatted message (format_event writes them last), and the message
        # text itself may contain them: they must be searched for from the END of the record
        FROM_END = {"rsplit_once", "rfind", "rsplitn", "rsplit", "strip_suffix", "ends_with", "rsplit_terminator", "rmatch_indices", "rmatches"}
        FROM_START = {"split_once", "find", "splitn", "split", "strip_prefix", "starts_with", "match_indices", "matches", "split_inclusive"}
        n_sep = 0
        for s2, t2 in [(s_, t_) for wb in wfam for s_, t_ in wb.calls()]:
            f2 = op_fn(t2["func"])
            if not f2 or not re.search(r"(^|::)str::", f2["path"]) and "str" not in f2.get("self", ""):
                continue
            meth = f2["path"].rsplit("::", 1)[-1]
            pats = [const_str(a) for a in t2["args"][1:] if const_str(a) is not None] + \
                   [named[a["text"]] for a in t2["args"][1:] if a.get("k") == "const" and a.get("text") in named]
            for pat in pats:
                if pat in ("__unknown", "__") and (meth in FROM_END or meth in FROM_START):
                    n_sep += 1
                    R.check(meth in FROM_END, f"writer-marker-from-end/{'id' if pat == '__' else 'no-id'}", s2, f"{meth}({pat!r}) searches from the end",
                            f"the appended marker {pat!r} is searched with `{meth}` (from the start): a log text containing {pat!r} is split at the wrong place and the record is dropped or mis-attributed")
        R.check(n_sep >= 2, "writer-marker-sites", w, "", f"{n_sep} marker searches found in CollectorWriter::write")
        # what is sent, per path of `write` (deep table, helpers inlined): (None, text) when the no-id marker ended the
        # record, (Some(parsed id), text) when the id marker did
        kinds = {}
        for p in D.Deep(F, w, max_paths=2000).run():
            for e in p.effects:
                if e[0] == "call" and re.search(r"UnboundedSender(::<.*>)?::unbounded_send$", e[1]) and len(e[2]) > 1 and e[2][1][0] == "tuple":
                    first = e[2][1][1][0]
                    noid = [o for a, o in p.conds if a[0] == "discr" and a[1][0] == "call" and re.search(r"str::.*split|::r?split_once$|::r?find$", a[1][1]) and
                            any(x in (("const", "__unknown"), ("const", "tracing::suffix::NO_SCENARIO_ID")) for x in D.subterms(a[1]))]
                    if D.is_variant(first, "std::option::Option", "None"):
                        kinds.setdefault("None", []).append(noid[-1:] == ["Some"])
                    elif D.is_variant(first, "std::option::Option", "Some"):
                        parsed = D.mentions(first, lambda x: x[0] == "call" and re.search(r"str::parse$|FromStr::from_str$|::parse$", x[1]))
                        kinds.setdefault("Some", []).append(parsed and noid[-1:] == ["None"])
                    else:
                        kinds.setdefault("?", []).append(False)
        okk = set(kinds) == {"None", "Some"} and all(all(v) for v in kinds.values())
        R.check(okk, "writer-attributes-id", w, "(None, msg) for unknown, (Some(id), msg) for tagged", f"CollectorWriter sends { {k: v for k, v in kinds.items()} }")
    R.floor(8)


def _agg_local(w, rv):
    return 0


def r5(F, R):
    """"... positioned after the Started event of the step or hook that emitted it": a necessary structural condition is
    that the routine running a step / hook sends that step's / hook's Started event BEFORE it starts polling the
    instrumented user future — otherwise the future's logs (forwarded while it runs and at its span close) precede Started.
    Decided on the routines' path tables (spans.py)."""
    n = 0
    for r in SP.table(F):
        kinds = {r.span_kind(span) for row in r.rows for _, _, span in row.instr}
        if len(kinds) != 1 or None in kinds:
            continue
        kind, hk = next(iter(kinds))
        if kind not in ("step_span", "hook_span"):
            continue
        n += 1
        name = kind + ("/" + hk if hk else "")
        ok = True
        for row in r.rows:
            for i0, fut, span in row.instr:
                started = False
                for i, e in row.sends:
                    if i > i0:
                        continue
                    for x in D.subterms(e[2][1] if len(e[2]) > 1 else e[2]):
                        if kind == "hook_span" and D.is_variant(x, "event::Scenario", "Hook") and len(x[3]) == 2 and \
                                D.is_variant(x[3][0], "event::HookType", hk) and D.is_variant(x[3][1], "event::Hook", "Started"):
                            started = True
                        elif kind == "step_span" and D.is_variant(x, "event::Step", "Started"):
                            started = True
                        elif kind == "step_span" and x[0] == "call" and x[1] == "<indirect>" and not D.mentions(x, lambda y: y[0] in ("await", "panic")):
                            # run_step receives the three event constructors as FnOnce parameters; that the one sent first
                            # is `Step::Started` at every call site is C02.R2's rule — here: an emission precedes the user future
                            started = True
                ok = ok and started
        want = "Step::Started" if kind == "step_span" else "Hook::Started"
        R.check(ok, f"started-before-user-code/{name}", r.body, f"{want} is sent before the instrumented future is polled",
                f"the routine polls the instrumented {name} future without having sent its Started event first: logs emitted by that "
                f"{'hook' if kind == 'hook_span' else 'step'} are delivered BEFORE its Started event")
    R.check(n == 3, "started-before-user-code/routines", None, "step, before hook, after hook", f"{n} step/hook routines with an instrumented user future")
    R.floor(3)


def r6(F, R):
    span_close_bookkeeping(F, R)
    R.floor(4)


def r7_clone(F, R):
    """Collector handles and scenario ids are cloned into every scenario's span and writer: a clone keeps every field."""
    n = roles.check_clone_faithful_table(F, R, r"^tracing::|^runner::basic::ScenarioId$", "clone-faithful")
    R.floor(2)


def r8(F, R):
    """"... and never of another scenario": logs are routed by the attempt's `ScenarioId`; two attempts in flight must never share one —
    `ScenarioId::new()` returns what a `fetch_add` with a non-zero constant step on a `static` atomic returned, and every dispatched
    attempt gets its id from it (no constant / copied id)."""
    news = [b for b in F.crate_bodies() if (b.impl or {}).get("self_adt") == "runner::basic::ScenarioId" and not (b.impl or {}).get("trait") and b.arg_count == 0
            and re.sub(r"<.*", "", b.locals[0]) == "runner::basic::ScenarioId"]
    if len(news) != 1:
        raise Unverifiable(f"ScenarioId constructor: {len(news)}")
    b = news[0]
    fa = [(s_, t) for s_, t in b.calls(lambda t: callee_is(t, r"Atomic(\w*|::<.*>)::fetch_add$"))]
    ok = len(fa) == 1 and const_int(fa[0][1]["args"][1]) not in (None, 0)
    if ok:
        rets = [st for _, st in b.assigns(lambda st: st["pl"]["l"] == 0)]
        sl = A.slice_back(b, [{"k": "copy", "pl": {"l": 0, "p": []}}]) if False else None
        aggs = [st for _, st in b.assigns(lambda st: st["rv"]["k"] == "agg" and st["rv"].get("adt") == "runner::basic::ScenarioId")]
        ok = len(aggs) == 1 and op_local(aggs[0]["rv"]["ops"][0]) is not None and \
            A.canon_place(b, {"l": op_local(aggs[0]["rv"]["ops"][0]), "p": []})["l"] == A.canon_place(b, fa[0][1]["dest"])["l"]
    R.check(ok, "scenario-id-fresh", b, "ScenarioId::new = static counter.fetch_add(non-zero)", "`ScenarioId::new()` does not hand out the value of a `fetch_add(<non-zero>)` on its counter: two attempts can get the same id and receive each other's logs")
    # every id given to an attempt comes from the constructor
    ctor_calls = [(nb, s_) for nb in F.crate_bodies() for s_, t in nb.calls() if F.callee_body(t, nb.crate) is b or
                  (callee_is(t, r"Default::default$") and (op_fn(t["func"]) or {}).get("self") == "runner::basic::ScenarioId")]
    lit = [(nb, s_) for nb in F.crate_bodies() if nb is not b and nb.name.startswith("runner::") and not nb.name.startswith("runner::basic::retry_options") for s_, st in nb.assigns(lambda st: st["rv"]["k"] == "agg" and st["rv"].get("adt") == "runner::basic::ScenarioId")
           if not ((nb.impl or {}).get("trait") in ("std::clone::Clone", "std::str::FromStr", "std::default::Default"))]
    R.check(bool(ctor_calls) and not lit, "scenario-id-only-from-constructor", b, f"{len(ctor_calls)} constructor call site(s), no literal ids",
            f"scenario ids are built outside the constructor at {[str(x[1].loc) for x in lit][:3]} (constructor calls: {len(ctor_calls)})")
    R.floor(2)


def r9_span_levels(F, R):
    """The spans the attribution rests on (the scenario span carrying the id; the step / hook spans whose closing is waited for) are created
    at `Level::ERROR`, all of them: a user's filter that drops INFO / WARN spans (a legal configuration) must not drop them — without the
    scenario span every log is tagged `unknown` and broadcast to all running scenarios."""
    import json
    metas = [(k, b) for k, b in F.bodies.items() if b.crate == "cucumber" and k.startswith("tracing::") and k.endswith("::META") and "Kind::SPAN" in json.dumps(b.blocks)]
    if len(metas) < 3:
        raise Unverifiable(f"span call-site metadata of the tracing integration: {len(metas)}")
    for k, b in metas:
        lv = sorted(set(re.findall(r"Level::(\w+)", json.dumps(b.blocks))))
        fn = re.sub(r"::__CALLSITE.*$", "", k).rsplit("::", 1)[-1]
        R.check(lv == ["ERROR"], f"span-level/{fn}", b, "created at Level::ERROR", f"the span created in `{fn}` has level {lv} (expected ERROR like its siblings): a filter stricter than that "
                f"level disables it — logs lose their scenario id and are broadcast to every running scenario")
    R.floor(3)


RULES = [("R1", r1, None), ("R2", r2, None), ("R3", r3, None), ("R4", r4, None), ("R5", r5, None), ("R6", r6, None), ("R7", r7_clone, None), ("R8", r8, None), ("R9", r9_span_levels, None)]
