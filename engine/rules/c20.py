"""C20 — tracing logs are attributed to the scenario and step that emitted them (clauses; DESIGN §4 C20)."""
import re

from . import analysis as A
from . import roles
from .c04 import _reaches_block
from .mir import Site, Unverifiable, callee_is, callee_path, const_int, const_str, op_fn, op_local, op_place, place_fields, place_str

CFGS = {"quick": ["all"], "thorough": ["all", "tracing", "macros_tracing"]}

EXPLANATION = """
Structural clauses of the tracing integration (all-features build): (R1) instrumentation: every user future of the
attempt routine (attempt body, step, before hook, after hook) is wrapped by Instrument::instrument with a span
created in the same function — the attempt span by scenario_span() on the very ScenarioId the attempt was given —
and it is the instrumented future that is awaited; (R2) hand-shake: in each of those functions, once the
`waiter.zip(span_id)` is Some, the emission of the step's / hook's / scenario's result event is reachable only
through the await of wait_for_span_close(id) on the id of that same span; (R3) forwarding: the log forwarder is the
*first* (biased) argument of select_with_biased_first, it drains emitted_logs() in a loop until None before
yielding (then_yield), Collector::start_scenarios(batch) precedes the dispatch of the batch and finish_scenario(id)
is called with the id of the consumed completion message; (R4) attribution: emitted_logs() looks the message's
scenario id up in the registered scenarios and builds Scenario::Log with that entry's feature/rule/scenario/retries;
the writer side parses the id that AppendScenarioMsg appended (END / BEFORE_SCENARIO_ID / NO_SCENARIO_ID pairing).
Not decided: ordering under real timing, exactly-once delivery, loss before run-Finished (schedule properties of two
channels and a subscriber).
"""
DECLINED = ["exactly-once delivery and no-loss under every timing", "relative order of logs and events on two channels"]
ASSUMPTIONS = ["tracing's Instrument enters the span on every poll of the instrumented future", "on_close fires when the last handle of a span is dropped"]


def instrument_sites(F, bodies):
    out = []
    for b in bodies:
        for s, t in b.calls(lambda t: callee_is(t, r"tracing::Instrument::instrument$", r"Instrument::instrument$")):
            out.append((b, s, t))
    return out


def r1(F, R):
    rs, root, tree = roles.attempt_tree(F)
    ins = instrument_sites(F, tree)
    kinds = {}
    for b, s, t in ins:
        ssl = A.slice_back(b, [t["args"][1]], stop_calls=[r"Future::poll$"])
        span_calls = [(cs, ct) for cs, ct in ssl.calls if re.search(r"(scenario_span|step_span|hook_span)$", callee_path(ct) or "")]
        kind = (callee_path(span_calls[0][1]).rsplit("::", 1)[-1] if len(span_calls) == 1 else "?")
        hk = {rv["variant"] for _, rv in ssl.aggs if rv.get("adt") == "event::HookType"}
        name = kind + ("/" + "+".join(sorted(hk)) if hk else "")
        kinds[name] = kinds.get(name, 0) + 1
        # the instrumented future is awaited
        aw = []
        for a in A.awaits(b):
            if a.src_op is None:
                continue
            asl = A.slice_back(b, [a.src_op], stop_calls=[r"Future::poll$"])
            if s in asl.sites and not asl.has_call(r"wait_for_span_close$"):
                aw.append(a)
        R.check(len(span_calls) == 1 and len(aw) == 1, f"instrumented-and-awaited/{name}", s, "fut.instrument(span) is what gets awaited",
                f"a user future is instrumented with {len(span_calls)} spans / awaited {len(aw)} times")
        if kind == "scenario_span" and span_calls:
            idsl = A.slice_back(b, [span_calls[0][1]["args"][0]], stop_calls=[r"Future::poll$"])
            id_ups = {e for e in idsl.upvars}
            fn = F.parent_body(b)
            id_params = [i for i, ty in enumerate(fn.locals[1:fn.arg_count + 1]) if ty == "runner::basic::ScenarioId"]
            R.check(len(id_params) == 1 and id_ups == {id_params[0]}, "attempt-span-carries-own-id", span_calls[0][0], "scenario_span() of the attempt's own ScenarioId",
                    "the attempt's span is created for a different ScenarioId than the one the attempt was dispatched with (logs go to another scenario)")
    want = {"scenario_span": 1, "step_span": 1, "hook_span/Before": 1, "hook_span/After": 1}
    R.check(kinds == want, "four-instrumented-futures", None, f"{kinds}", f"instrumented user futures: {kinds}; expected {want}")
    # every user-callback call site lies under one of the instrumented futures (step fn / hooks / World::new in step & before hook)
    R.floor(5)


def r2(F, R):
    rs, root, tree = roles.attempt_tree(F)
    emit_fns = roles.emitters(F, tree)
    n = 0
    for b in tree:
        zips = [(s, t) for s, t in b.calls(lambda t: callee_is(t, r"Option::<.*>::zip$"))]
        waits = [(s, t) for s, t in b.calls(lambda t: callee_is(t, r"SpanCloseWaiter::wait_for_span_close$"))]
        if not waits:
            continue
        n += 1
        name = F.root_fn(b).short.rsplit("::", 1)[-1]
        R.check(len(zips) == 1 and len(waits) == 1, f"{name}/handshake-sites", b, "", f"zip x{len(zips)}, wait_for_span_close x{len(waits)}")
        if len(zips) != 1 or len(waits) != 1:
            continue
        s_z, t_z = zips[0]
        s_w, t_w = waits[0]
        # the id waited for is the id of the span used for instrumenting
        ins = instrument_sites(F, [b])
        ok_id = False
        if len(ins) == 1:
            span_l = A.canon_place(b, op_place(ins[0][2]["args"][1]))["l"] if op_place(ins[0][2]["args"][1]) else None
            idsl = A.slice_back(b, [t_w["args"][1]], stop_calls=[r"Future::poll$"])
            ids = [(cs, ct) for cs, ct in idsl.calls if callee_is(ct, r"tracing::Span::id$", r"Span::id$")]
            if len(ids) == 1 and span_l is not None:
                rl = op_local(ids[0][1]["args"][0])
                ok_id = rl is not None and A.canon_place(b, {"l": rl, "p": ["*"]})["l"] == span_l
        R.check(ok_id, f"{name}/waits-for-own-span", s_w, "wait_for_span_close(id of the instrumenting span)", "the hand-shake waits for a different span than the one the user future ran in")
        # result emission only after the wait (on the Some edge)
        aw = [a for a in A.awaits(b) if a.src_op is not None and s_w in A.slice_back(b, [a.src_op], stop_calls=[r"Future::poll$"]).sites]
        sw = b.blocks[t_z["t"]]["term"]
        some_t = None
        if sw["k"] == "switch":
            some_t = [tg for v, tg in sw["targets"] if v == 1] or None
        sends = [(s, t) for s, t in b.calls() if F.callee_body(t) is not None and F.callee_body(t).key in emit_fns and b.site_reaches(s_z, s)]
        R.check(len(aw) == 1 and some_t is not None, f"{name}/wait-awaited", s_w, "", "wait_for_span_close is not awaited under the Some edge of zip")
        if len(aw) == 1 and some_t:
            ready = Site(b, aw[0].ready_bb, "T")
            late = [s for s, t in sends if _reaches_block(b, some_t[0], s.bb, [ready])]
            R.check(not late, f"{name}/result-after-span-closed", s_w, f"{len(sends)} result emission(s) only after the span closed",
                    f"a result event can be emitted before the step's/hook's span has closed (its logs may arrive after the result): {[x.loc for x in late]}")
            # returns (failure results) too: `return` not reachable on the Some edge without the wait
            skips = b.return_reachable_from(Site(b, some_t[0], "T"), stop=[ready]) if False else _return_reachable_block(b, some_t[0], ready)
            R.check(not skips, f"{name}/every-outcome-after-span-closed", s_w, "", "the function can return (failure outcome) before the span has closed")
    R.check(n == 4, "handshake-functions", None, "run_scenario, run_step, before hook, after hook", f"{n} functions perform the span-close hand-shake")
    R.floor(12)


def _return_reachable_block(b, start, stop_site):
    seen, work = set(), [start]
    while work:
        x = work.pop()
        if x in seen or x == stop_site.bb:
            continue
        seen.add(x)
        if b.blocks[x]["term"]["k"] == "return":
            return True
        work.extend(b.succ[x])
    return False


def r3(F, R):
    ex = roles.execute(F)
    sel = [(s, t) for s, t in ex.calls(lambda t: callee_is(t, r"future::select_with_biased_first$"))]
    if len(sel) != 1:
        raise Unverifiable(f"select_with_biased_first calls: {len(sel)}")
    s, t = sel[0]
    a0 = A.slice_back(ex, [t["args"][0]], stop_calls=[r"Future::poll$"])
    a1 = A.slice_back(ex, [t["args"][1]], stop_calls=[r"Future::poll$"])
    fw = [rv["def"] for _, rv in a0.aggs if rv.get("agg") == "coroutine"]
    R.check(len(fw) == 1 and a1.has_call(r"StreamExt::next$") and not a0.has_call(r"StreamExt::next$"), "forwarder-is-biased-arm", s, "select_with_biased_first(forward_logs, run_scenarios.next())",
            "the log forwarder is not the biased (first) argument of the select: completions can overtake pending logs")
    if len(fw) == 1:
        fb = F.body(fw[0])
        el = [(s2, t2) for s2, t2 in fb.calls(lambda t2: any((op_fn(a) or {}).get("path", "").endswith("Collector::emitted_logs") for a in t2["args"]) or callee_is(t2, r"Collector::emitted_logs$"))]
        ty = [(s2, t2) for s2, t2 in fb.calls(lambda t2: callee_is(t2, r"FutureExt::then_yield$"))]
        R.check(len(el) == 1 and len(ty) == 1, "forwarder-shape", fb, "drain loop + then_yield", f"emitted_logs sites: {len(el)}, then_yield sites: {len(ty)}")
        if len(el) == 1 and len(ty) == 1:
            # the yield is reached only through the None edge of the drain (all pending logs forwarded first)
            s_e, t_e = el[0]
            vcy = A.vc_at(fb, ty[0][0])
            k = f"_{t_e['dest']['l']}"
            R.check(vcy.get(k) == frozenset(["None"]), "forwarder-drains-before-yield", ty[0][0], "yield only when emitted_logs() returned None", f"the forwarder yields while emitted_logs() may still be {sorted(vcy.get(k, ['?']))}")
            sends = [(s3, t3) for s3, t3 in fb.calls() if F.callee_body(t3) is not None and any(True for _ in roles.sends(F, [F.callee_body(t3)]))]
            okf = len(sends) == 1 and s_e in A.slice_back(fb, sends[0][1]["args"][1:], stop_calls=[r"Future::poll$"]).sites
            R.check(okf, "forwarder-sends-what-it-drained", sends[0][0] if sends else fb, "send_all_events(logs)", "drained logs are not sent on the event channel")
    # registration before dispatch, de-registration on the consumed message
    st = [(s2, t2) for s2, t2 in ex.calls(lambda t2: callee_is(t2, r"tracing::Collector::start_scenarios$", r"Collector::start_scenarios"))]
    pushes = [(s2, t2) for s2, t2 in ex.calls(lambda t2: callee_is(t2, r"FuturesUnordered::<.*>::push$"))]
    R.check(len(st) == 1 and len(pushes) == 1 and _dominated_or_guarded(ex, st[0][0], pushes[0][0]), "register-before-dispatch", st[0][0] if st else ex, "start_scenarios(batch) precedes the pushes",
            "scenarios can be dispatched before they are registered with the log collector")
    fi = [(s2, t2) for s2, t2 in ex.calls(lambda t2: callee_is(t2, r"Collector::finish_scenario$"))]
    okd = False
    if len(fi) == 1:
        cp = A.canon_place(ex, op_place(fi[0][1]["args"][1])) if op_place(fi[0][1]["args"][1]) else None
        fs = place_fields(cp) if cp else []
        okd = bool(fs) and fs[-1] == ("{tuple}", "0")
    R.check(okd, "deregister-on-consumed-completion", fi[0][0] if fi else ex, "finish_scenario(message.0)", "finish_scenario is not called with the id of the consumed completion message")
    R.floor(6)


def _dominated_or_guarded(b, a, c):
    """Every path from entry to c passes a, or skips a only through the `None` edge of an Option<Collector>."""
    if b.dominates(a, c):
        return True
    # allow: if let Some(coll) = logs_collector.as_mut() { coll.start_scenarios() }
    for g in A.guards_of(b, a):
        d = g.cond_def()
        if d and d[0] == "discr" and g.variants() == {"Some"} and d[2] == "std::option::Option":
            # the only way around `a` must be the None edge of that switch: with that edge cut, `a` dominates `c`
            none_edges = {(g.bb, tg) for v, tg in b.switch_edges(g.bb) if tg not in g.targets}
            seen, work = set(), [0]
            reached = False
            while work:
                x = work.pop()
                if x in seen or x == a.bb:
                    continue
                seen.add(x)
                if x == c.bb:
                    reached = True
                    break
                for s2 in b.succ[x]:
                    if (x, s2) not in none_edges:
                        work.append(s2)
            return not reached and b.dominates(Site(b, g.bb, "T"), c)
    return False


def r4(F, R):
    el = [b for b in F.crate_bodies() if (b.impl or {}).get("self_adt") == "tracing::Collector" and b.name.endswith("::emitted_logs")]
    if len(el) != 1:
        raise Unverifiable("Collector::emitted_logs")
    b = el[0]
    nested = F.nested(b)
    gets = [(nb, s, t) for nb in nested for s, t in nb.calls(lambda t: callee_is(t, r"HashMap::<.*>::get$"))]
    ok = False
    for nb, s, t in gets:
        ksl = A.slice_back(nb, [t["args"][1]])
        if ksl.params and "runner::basic::ScenarioId" in "".join(nb.locals[p] for p in ksl.params):
            ok = True
    R.check(ok, "lookup-by-message-id", gets[0][1] if gets else b, "scenarios.get(&id of the message)", "a log message is not attributed through its own scenario id")
    logs = [(nb, s, st) for nb in nested for s, st in nb.assigns(lambda st: st["rv"]["k"] == "agg" and st["rv"].get("adt") == "event::Scenario" and st["rv"]["variant"] == "Log")]
    R.check(len(logs) == 1, "builds-log-event", b, "", f"{len(logs)} Scenario::Log aggregates")
    # writer side: parse the id after BEFORE_SCENARIO_ID, None after NO_SCENARIO_ID
    wr = [x for x in F.crate_bodies() if (x.impl or {}).get("self_adt") == "tracing::CollectorWriter" and (x.impl or {}).get("trait") == "std::io::Write" and x.name.endswith("::write")]
    R.check(len(wr) == 1, "collector-writer", None, "", f"{len(wr)} io::Write impls for CollectorWriter")
    if len(wr) == 1:
        w = wr[0]
        wfam = roles.family(F, w)   # the parsing may live in a private helper of `write`
        consts = []
        named = {"tracing::suffix::END": "__cucumber__scenario", "tracing::suffix::NO_SCENARIO_ID": "__unknown", "tracing::suffix::BEFORE_SCENARIO_ID": "__"}
        for wb in wfam:
            for _, t in wb.calls():
                consts += [const_str(a) for a in t["args"] if const_str(a) is not None]
                consts += [named[a["text"]] for a in t["args"] if a.get("k") == "const" and a.get("text") in named]
            for _, st in wb.assigns():
                consts += [const_str(o) for o in A.rvalue_operands(st["rv"]) if const_str(o) is not None]
        fm = [x for x in F.crate_bodies() if (x.impl or {}).get("self_adt") == "tracing::AppendScenarioMsg" and x.name.endswith("::format_event")]
        fconsts = []
        for x in fm:
            for nb in F.nested(x):
                for _, t in nb.calls():
                    fconsts += [const_str(a) for a in t["args"] if const_str(a) is not None]
                for _, st in nb.assigns():
                    fconsts += [const_str(o) for o in A.rvalue_operands(st["rv"]) if const_str(o) is not None]
        need = {"__cucumber__scenario", "__unknown", "__"}
        R.check(need <= set(consts), "writer-separators", w, "splits on END / NO_SCENARIO_ID / BEFORE_SCENARIO_ID", f"CollectorWriter::write uses separators {sorted(set(consts) & need)}")
        # the id / no-id markers are APPENDED to the formatted message (format_event writes them last), and the message
        # text itself may contain them: they must be searched for from the END of the record
        FROM_END = {"rsplit_once", "rfind", "rsplitn", "rsplit", "strip_suffix", "ends_with", "rsplit_terminator", "rmatch_indices", "rmatches"}
        FROM_START = {"split_once", "find", "splitn", "split", "strip_prefix", "starts_with", "match_indices", "matches", "split_inclusive"}
        n_sep = 0
        for s2, t2 in [(s_, t_) for wb in wfam for s_, t_ in wb.calls()]:
            f2 = op_fn(t2["func"])
            if not f2 or not re.search(r"(^|::)str::", f2["path"]) and "str" not in f2.get("self", ""):
                continue
            meth = f2["path"].rsplit("::", 1)[-1]
            pats = [const_str(a) for a in t2["args"][1:] if const_str(a) is not None] + \
                   [named[a["text"]] for a in t2["args"][1:] if a.get("k") == "const" and a.get("text") in named]
            for pat in pats:
                if pat in ("__unknown", "__") and (meth in FROM_END or meth in FROM_START):
                    n_sep += 1
                    R.check(meth in FROM_END, f"writer-marker-from-end/{'id' if pat == '__' else 'no-id'}", s2, f"{meth}({pat!r}) searches from the end",
                            f"the appended marker {pat!r} is searched with `{meth}` (from the start): a log text containing {pat!r} is split at the wrong place and the record is dropped or mis-attributed")
        R.check(n_sep >= 2, "writer-marker-sites", w, "", f"{n_sep} marker searches found in CollectorWriter::write")
        # what is sent, per path of `write` (deep table, helpers inlined): (None, text) when the no-id marker ended the
        # record, (Some(parsed id), text) when the id marker did
        from . import deep as D
        kinds = {}
        for p in D.Deep(F, w, max_paths=2000).run():
            for e in p.effects:
                if e[0] == "call" and re.search(r"UnboundedSender(::<.*>)?::unbounded_send$", e[1]) and len(e[2]) > 1 and e[2][1][0] == "tuple":
                    first = e[2][1][1][0]
                    noid = [o for a, o in p.conds if a[0] == "discr" and a[1][0] == "call" and re.search(r"str::.*split|::r?split_once$|::r?find$", a[1][1]) and
                            any(x in (("const", "__unknown"), ("const", "tracing::suffix::NO_SCENARIO_ID")) for x in D.subterms(a[1]))]
                    if D.is_variant(first, "std::option::Option", "None"):
                        kinds.setdefault("None", []).append(noid[-1:] == ["Some"])
                    elif D.is_variant(first, "std::option::Option", "Some"):
                        parsed = D.mentions(first, lambda x: x[0] == "call" and re.search(r"str::parse$|FromStr::from_str$|::parse$", x[1]))
                        kinds.setdefault("Some", []).append(parsed and noid[-1:] == ["None"])
                    else:
                        kinds.setdefault("?", []).append(False)
        okk = set(kinds) == {"None", "Some"} and all(all(v) for v in kinds.values())
        R.check(okk, "writer-attributes-id", w, "(None, msg) for unknown, (Some(id), msg) for tagged", f"CollectorWriter sends { {k: v for k, v in kinds.items()} }")
    R.floor(8)


def _agg_local(w, rv):
    return 0


def r5(F, R):
    """"... positioned after the Started event of the step or hook that emitted it": a necessary structural condition is
    that the routine running a step / hook sends that step's / hook's Started event BEFORE it starts polling the
    instrumented user future — otherwise the future's logs (forwarded while it runs and at its span close) precede Started."""
    rs, root, tree = roles.attempt_tree(F)
    emit_fns = roles.emitters(F, tree)
    n = 0
    for b, s, t in instrument_sites(F, tree):
        ssl = A.slice_back(b, [t["args"][1]], stop_calls=[r"Future::poll$"])
        span_calls = [(cs, ct) for cs, ct in ssl.calls if re.search(r"(step_span|hook_span)$", callee_path(ct) or "")]
        if len(span_calls) != 1:
            continue
        kind = callee_path(span_calls[0][1]).rsplit("::", 1)[-1]
        hk = {rv["variant"] for _, rv in ssl.aggs if rv.get("adt") == "event::HookType"}
        name = kind + ("/" + "+".join(sorted(hk)) if hk else "")
        aws = []
        for a in A.awaits(b):
            if a.src_op is None:
                continue
            asl = A.slice_back(b, [a.src_op], stop_calls=[r"Future::poll$"])
            if s in asl.sites and not asl.has_call(r"wait_for_span_close$"):
                aws.append(a)
        if len(aws) != 1:
            continue
        n += 1
        want = "event::Step::Started" if kind == "step_span" else "event::Hook::Started"
        started = []
        for cs, ct in b.calls():
            cb = F.callee_body(ct)
            if cb is None or cb.key not in emit_fns or len(ct["args"]) < 2:
                continue
            tags, sl = A.event_tags(F, b, ct["args"][1])
            hts = {rv["variant"] for _, rv in sl.aggs if rv.get("adt") == "event::HookType"}
            if want in tags and (kind == "step_span" or hts == hk):
                started.append(cs)
            elif kind == "step_span" and any(callee_is(c2, r"ops::FnOnce::call_once$") and re.match(r"^[A-Z]\w*$", (op_fn(c2["func"]) or {}).get("self", "")) for _, c2 in sl.calls):
                # run_step receives the three event constructors as FnOnce parameters; that the one sent first is
                # `Step::Started` at every call site is C02.R2's rule — here: an emission precedes the user future
                started.append(cs)
        ok = any(b.dominates(cs, aws[0].poll_site) for cs in started)
        R.check(ok, f"started-before-user-code/{name}", aws[0].poll_site, f"{want.split('::', 1)[1]} is sent before the instrumented future is polled",
                f"the routine polls the instrumented {name} future without having sent its Started event first: logs emitted by that "
                f"{'hook' if kind == 'hook_span' else 'step'} are delivered BEFORE its Started event")
    R.check(n == 3, "started-before-user-code/routines", None, "step, before hook, after hook", f"{n} step/hook routines with an instrumented user future")
    R.floor(3)


RULES = [("R1", r1, None), ("R2", r2, None), ("R3", r3, None), ("R4", r4, None), ("R5", r5, None)]
