"""Role anchors: bodies are located through what they do with *public* API items (event variants they build,
traits they implement), never through private names, line numbers or text."""
import re

from .mir import const_str, Unverifiable, callee_is, op_fn


def _is_derive_clone(b):
    return bool(re.search(r" as std::clone::Clone>::clone", b.name))


def builders_of(F, adt, variant, crate="cucumber"):
    """Bodies that construct `adt::variant` with an aggregate (derived Clone impls excluded)."""
    out = []
    for b in F.crate_bodies(crate):
        if _is_derive_clone(b):
            continue
        for site, st in b.assigns(lambda st: st["rv"]["k"] == "agg" and st["rv"].get("agg") == "adt"
                                  and st["rv"]["adt"] == adt and st["rv"]["variant"] == variant):
            out.append((b, site, st))
    return out


def unique_builder(F, adt, variant, exclude=r"^<writer::|^writer::|^tracing::"):
    bs = [(b, s, st) for b, s, st in builders_of(F, adt, variant) if not re.search(exclude, b.name)]
    bodies = {b.key for b, _, _ in bs}
    if len(bodies) != 1:
        raise Unverifiable(f"role 'builder of {adt}::{variant}' resolved to {len(bodies)} bodies: {sorted(bodies)[:4]}")
    return bs[0][0], [(s, st) for _, s, st in bs]


def lift_role(F, b):
    """A role is a routine (for the runner: the coroutine of an `async fn`).  When the anchoring construct sits in a
    closure or in a private synchronous helper with a single caller (`stats.into_event()`), the role is the routine
    that closure / helper belongs to."""
    for _ in range(5):
        if b.is_coroutine:
            return b
        if b.kind not in ("Fn", "AssocFn"):
            pb = F.parent_body(b)
            if pb is None:
                return b
            b = pb
            continue
        if b.vis == "Public" or any(c.is_coroutine for c in F.children.get(b.key, [])):
            return b
        callers = {}
        for site in F.callers_of(b):
            callers[site.body.key] = site.body
        if len(callers) != 1:
            return b
        b = next(iter(callers.values()))
    return b


def execute(F):
    """EXECUTE := the unique (coroutine) body that constructs `Cucumber::Started`."""
    b, sites = unique_builder(F, "event::Cucumber", "Started")
    return lift_role(F, b)


def run_scenario(F):
    """RUN_SCENARIO := the unique body that constructs `Scenario::Started`."""
    b, sites = unique_builder(F, "event::Scenario", "Started")
    return lift_role(F, b)


def insert_features(F):
    """INGEST := the unique body that constructs `Cucumber::ParsingFinished`."""
    b, sites = unique_builder(F, "event::Cucumber", "ParsingFinished")
    return lift_role(F, b)


def callee_body_of_unique_call(F, body, regex):
    cs = [(s, t) for s, t in body.calls(lambda t: callee_is(t, regex))]
    if len(cs) != 1:
        raise Unverifiable(f"expected exactly one call matching /{regex}/ in {body.short}, found {len(cs)}")
    cb = F.callee_body(cs[0][1])
    if cb is None:
        raise Unverifiable(f"callee of /{regex}/ in {body.short} is not crate-local")
    return cs[0][0], cs[0][1], cb


def coroutine_of(F, fn_body):
    """The coroutine body of an `async fn` item (its only direct coroutine child)."""
    kids = [c for c in F.children.get(fn_body.key, []) if c.is_coroutine]
    if len(kids) != 1:
        raise Unverifiable(f"{fn_body.short}: expected one coroutine child, found {len(kids)}")
    return kids[0]


def async_callee(F, body, site_term):
    """For a call to a crate-local `async fn`: its coroutine body."""
    cb = F.callee_body(site_term, body.crate)
    if cb is None:
        return None
    kids = [c for c in F.children.get(cb.key, []) if c.is_coroutine]
    if len(kids) == 1:
        return kids[0]
    return None


def trait_impl_methods(F, trait_regex, method, crate="cucumber"):
    """Bodies implementing `method` of trait matching regex: list of (self_adt, body)."""
    out = []
    for b in F.crate_bodies(crate):
        if b.impl and re.search(trait_regex, b.impl.get("trait", "")) and b.name.endswith("::" + method):
            out.append((b.impl.get("self_adt", ""), b))
    return out


def calls_in(F, bodies, *regexes):
    out = []
    for b in bodies:
        for s, t in b.calls(lambda t: callee_is(t, *regexes)):
            out.append((s, t))
    return out


def sends(F, bodies):
    """Calls to `UnboundedSender::unbounded_send` in the given bodies."""
    return calls_in(F, bodies, r"UnboundedSender::<.*>::unbounded_send$", r"UnboundedSender.*::unbounded_send$")


def reaches_send(F, cb, depth=0, _seen=None):
    """Does the crate-local fn `cb` send on the event channel — directly or through the private helpers it calls
    (`send_all_events` -> `try_send` -> `unbounded_send`)?"""
    if cb is None:
        return False
    _seen = _seen if _seen is not None else set()
    if cb.key in _seen or depth > 3:
        return False
    _seen.add(cb.key)
    for nb in F.nested(cb):
        if any(True for _ in sends(F, [nb])):
            return True
        for _, t in nb.calls():
            sub = F.callee_body(t, nb.crate)
            if sub is not None and sub.name.split("::")[0] == cb.name.lstrip("<").split("::")[0] and reaches_send(F, sub, depth + 1, _seen):
                return True
    return False


def routines_of(F, b, depth=0):
    """The event-emitting routine(s) a body belongs to: its root fn if that sends events, else — a private helper that only
    computes (`try_new_world()`, `catch_panic(..)`) — the routines of its callers.  [(routine root fn, call site in it | None)]"""
    root = F.root_fn(b)
    if depth >= 3 or reaches_send(F, root) or (root.impl or {}).get("trait"):
        return [(root, None)]
    out = []
    for site in F.callers_of(root):
        for r, cs in routines_of(F, site.body, depth + 1):
            out.append((r, cs or site))
    return out or [(root, None)]


def attempt_tree(F):
    """All bodies of the attempt routine: RUN_SCENARIO's fn, everything nested in it, and (transitively) every crate-local
    callee that is a method of the same impl type (the `Executor`), with their nested bodies."""
    rs = run_scenario(F)
    root = F.root_fn(rs)
    owner = (root.impl or {}).get("self_adt")
    seen = {}
    work = [root]
    while work:
        x = work.pop()
        if x.key in seen:
            continue
        for nb in F.nested(x):
            if nb.key in seen:
                continue
            seen[nb.key] = nb
            for s, t in nb.calls():
                cb = F.callee_body(t, nb.crate)
                if cb is not None and cb.impl and cb.impl.get("self_adt") == owner and not cb.impl.get("trait") and cb.key not in seen:
                    work.append(cb)
    return rs, root, list(seen.values())


def emitters(F, bodies):
    """Crate-local fns among `bodies` that (directly) send on an UnboundedSender carrying events."""
    out = {}
    for b in bodies:
        if b.kind in ("Fn", "AssocFn"):
            for s, t in sends(F, [b]):
                f = op_fn(t["func"])
                if f and "event::Event" in f.get("full", ""):
                    out[b.key] = b
    # ... and the wrappers around them: a fn that takes an event (`event::Cucumber<..>` / `Event<..>` / an iterator of them) and hands
    # it to an emitter (`send_event` -> `try_send` -> `unbounded_send`) emits what it is given
    for _ in range(3):
        grew = False
        for b in bodies:
            if b.kind not in ("Fn", "AssocFn") or b.key in out:
                continue
            if not any(re.search(r"event::(Cucumber|Event)\b", ty) for ty in b.locals[1:b.arg_count + 1]):
                continue
            if any(F.callee_body(t, nb.crate) is not None and F.callee_body(t, nb.crate).key in out for nb in F.nested(b) for _, t in nb.calls()):
                out[b.key] = b
                grew = True
        if not grew:
            break
    return out



def check_field_faithful_clone(F, R, adt, inst_prefix):
    """A hand-written `impl Clone for <adt>` must build the clone field by field from the like-named field of `self`."""
    from . import analysis as A
    from .mir import place_fields
    cl = [b for b in F.crate_bodies() if (b.impl or {}).get("self_adt") == adt and (b.impl or {}).get("trait") == "std::clone::Clone" and b.name.endswith("::clone")]
    if len(cl) != 1:
        R.unverifiable(f"{inst_prefix}/clone-impl", f"{len(cl)} Clone impls for {adt}")
        return
    b = cl[0]
    aggs = [(s, st) for s, st in b.assigns(lambda st: st["rv"]["k"] == "agg" and st["rv"].get("adt") == adt)]
    if len(aggs) != 1:
        R.unverifiable(f"{inst_prefix}/clone-aggregate", f"{len(aggs)} aggregates in {b.short}")
        return
    s, st = aggs[0]
    for name, op in zip(st["rv"]["fields"], st["rv"]["ops"]):
        sl = A.slice_back(b, [op])
        src = sorted({n for o, n in sl.fields if o == adt})
        R.check(src == [name], f"{inst_prefix}/clone-field/{name}", s, f"{name}: self.{name}", f"`{adt}::clone` fills field `{name}` from {src}: a cloned value behaves differently from the original")


def family(F, body, depth=3, stop=()):
    """`body`, the closures / coroutines nested in it, and — transitively, up to `depth` calls — the crate-local
    *private helper* fns it calls (inherent or free fns of the same top-level module, not trait methods), with their
    nested bodies.  Lets "find X in role R" queries survive the extraction of a helper function."""
    mod = body.name.lstrip("<").split("::")[0]
    seen = {}
    work = [(b, 0) for b in F.nested(body)]
    stop_keys = {s.key for s in stop}
    while work:
        b, d = work.pop()
        if b.key in seen or b.key in stop_keys:
            continue
        seen[b.key] = b
        if d >= depth:
            continue
        for s, t in b.calls():
            cb = F.callee_body(t, b.crate)
            if cb is None or cb.key in seen or cb.key in stop_keys:
                continue
            if cb.impl and cb.impl.get("trait"):
                continue
            if cb.name.lstrip("<").split("::")[0] != mod:
                continue
            if cb.vis == "Public":
                continue
            for nb in F.nested(cb):
                work.append((nb, d + 1))
    return list(seen.values())


def run_merge_table(F):
    """Deep path table of `<Basic as Runner>::run` with the ingestion / execution routines opaque: per path what is handed
    to them.  Returns (run body, paths, helpers) with helpers: cli_field(name) / builder_field(name) terms, the call
    effects of insert_features / execute."""
    from . import deep as D
    runs = [b for adt, b in trait_impl_methods(F, r"runner::Runner$", "run") if adt == "runner::basic::Basic"]
    if len(runs) != 1:
        raise Unverifiable("Runner::run impl")
    run = runs[0]
    ex_fn = F.parent_body(execute(F))
    ing_fn = F.parent_body(insert_features(F))
    opq = "^(" + re.escape(ex_fn.name) + "|" + re.escape(ing_fn.name) + ")$"
    paths = D.Deep(F, run, max_paths=4000, opaque=opq).run()
    if not paths or any(p.cut for p in paths):
        raise Unverifiable("Runner::run: empty path table or a loop")
    cli_idx = [i for i in range(1, run.arg_count + 1) if run.locals[i] == "runner::basic::Cli"]
    if len(cli_idx) != 1:
        raise Unverifiable("Cli parameter of Runner::run")

    def fidx(adt, name):
        a = F.adts.get(("cucumber", adt))
        for i, f in enumerate(a["variants"][0]["fields"]):
            if f["name"] == name:
                return i
        raise Unverifiable(f"field {adt}.{name}")
    cli_field = lambda name: ("field", ("arg", cli_idx[0]), fidx("runner::basic::Cli", name))
    builder_field = lambda name: ("field", ("arg", 1), fidx("runner::basic::Basic", name))

    def call_of(p, fn):
        es = [e for e in p.effects if e[0] == "call" and e[1] == fn.name]
        return es[0] if len(es) == 1 else None
    return run, paths, {"cli": cli_field, "builder": builder_field, "execute": lambda p: call_of(p, ex_fn), "ingest": lambda p: call_of(p, ing_fn),
                        "ex_fn": ex_fn, "ing_fn": ing_fn, "cli_arg": ("arg", cli_idx[0]), "D": D}


def check_option_merge(R, inst, run, paths, cli_t, builder_t, value_of, what):
    """On every path the value handed on is the CLI option when that is Some, the builder value otherwise."""
    ok, why, seen = True, "", set()
    for p in paths:
        v = value_of(p)
        if v is None:
            ok, why = False, "the value is not handed on on some path"
            continue
        out = None
        for a, o in p.conds:
            if a == ("discr", cli_t):
                out = o
        payload = ("field", ("as", cli_t, "Some"), 0)
        is_cli = v == cli_t or (isinstance(v, tuple) and len(v) == 4 and v[0] == "variant" and v[2] == "Some" and v[3] == (payload,))
        if out == "Some":
            seen.add("cli")
            if not is_cli:
                ok, why = False, "with the CLI option given, something else is used"
        elif out == "None":
            seen.add("builder")
            if v != builder_t and not is_cli is True:
                ok, why = False, "without the CLI option, the builder value is not used"
            if v != builder_t:
                ok, why = False, "without the CLI option, the builder value is not used"
        else:
            ok, why = False, "the CLI option is not examined"
    R.check(ok and seen == {"cli", "builder"}, inst, run, what, f"{what} does not hold: {why or 'cases seen ' + str(sorted(seen))}")


def check_clone_faithful_table(F, R, prefix, inst):
    """Every `Clone::clone` of an ADT under `prefix` (hand-written because of the unbounded `World` parameter, or derived)
    returns, per variant of `self`, the same variant with every field cloned from the same field — on the impl's path
    table.  A clone that maps a variant to another one changes what Tee's / Repeat's second consumer sees."""
    from . import deep as D

    def norm(t):
        if isinstance(t, tuple) and t:
            if t[0] in ("conv", "refto", "ref", "deref") and len(t) == 2:
                if t[0] == "ref":
                    from .termtypes import place_term
                    pt = place_term(t[1])
                    return norm(pt if pt is not None else t[1])
                return norm(t[1])
            if t[0] == "call" and len(t[2]) == 1 and re.search(r"(Clone>?::clone|ToOwned>?::to_owned)$", t[1]):
                return norm(t[2][0])      # `Arc::clone(&x)` written as a path call
            return tuple(norm(x) for x in t)
        return t
    def same_as(t, src, p, depth=0):
        """Is term `t` (already normalised) a clone of the value at `src`?  Either the very datum, or — `opt.as_ref().map(Clone::clone)`
        written out — the same variant rebuilt from the clones of its payload on a row that learned this variant of `src`."""
        if t == src:
            return True
        if depth < 3 and isinstance(t, tuple) and t and t[0] == "variant":
            learned = [o for a, o in p.conds if a[0] == "discr" and norm(a[1]) == src]
            if learned and all(o == t[2] for o in learned):
                return all(same_as(x, ("field", ("as", src, t[2]), i), p, depth + 1) for i, x in enumerate(t[3]))
        return False
    sel = (lambda a: re.search(prefix, a) is not None) if prefix.startswith("^") else (lambda a: a.startswith(prefix))
    bs = [b for b in F.crate_bodies() if (b.impl or {}).get("trait") == "std::clone::Clone" and b.name.endswith("::clone")
          and sel((b.impl or {}).get("self_adt", ""))]
    n = 0
    for b in bs:
        adt = b.impl["self_adt"]
        rows = D.Deep(F, b, max_paths=300).run()
        info = F.adts.get((b.crate, adt)) or F.adts.get(("cucumber", adt))
        nvar = len(info["variants"]) if info else None
        short = adt.rsplit("::", 1)[-1]
        bad = None
        seen = set()
        if not rows or any(p.cut for p in rows):
            bad = "empty path table or a loop"
        for p in rows if bad is None else []:
            ret = norm(p.ret)
            if ret == ("arg", 1):
                seen.add("*")
                continue
            vs = [out for a, out in p.conds if a[0] == "discr" and norm(a[1]) == ("arg", 1)]
            if not (isinstance(ret, tuple) and ret and ret[0] == "variant" and ret[1] == adt):
                bad = f"a path returns {D.fmt(b, p.ret)[:60]}"
                break
            v = vs[0] if vs else ret[2]
            if vs and len(vs) != 1:
                bad = "self's variant is examined twice"
                break
            if ret[2] != v:
                bad = f"a `{v}` is cloned as `{ret[2]}`"
                break
            src = ("as", ("arg", 1), v) if vs else ("arg", 1)
            vinfo = [x for x in (info or {}).get("variants", []) if x["name"] == v] or (info or {}).get("variants", [])[:1]
            ftys = [f_.get("ty", "") for f_ in (vinfo[0]["fields"] if vinfo else [])]
            for j, f in enumerate(ret[3]):
                if j < len(ftys) and ftys[j].startswith("std::marker::PhantomData"):
                    continue
                if not same_as(f, ("field", src, j), p):
                    bad = f"field {j} of the cloned `{v}` is not the clone of field {j} of self"
                    break
            if bad:
                break
            seen.add(v)
        if bad is None and "*" not in seen and nvar is not None and len(seen) != nvar:
            bad = f"{len(seen)} of {nvar} variants are cloned"
        n += 1
        R.check(bad is None, f"{inst}/{short}", b, f"{short}::clone keeps variant and fields ({len(rows)} rows)", f"`{short}::clone` is not faithful: {bad}")
    return n


def check_event_metadata_kept(F, R, inst="event-metadata-kept"):
    """`event::Event<T>`'s own transformers (`map`, `insert`, `replace`, `split` ..: inherent methods taking `self` by value and
    returning an `Event<_>`, alone or in a tuple) hand the *stored* metadata on — with the `timestamps` feature the `at` of every
    `Event` they build is `self.at`, never a fresh `SystemTime::now()`.  Writers that re-wrap events (FailOnSkipped through
    `Event::map`, Normalize through `split` / `insert`) rely on it to forward "exactly the same event"."""
    from . import deep as D
    EV = "event::Event"
    info = F.adt(EV)
    if info is None:
        raise Unverifiable("event::Event ADT")
    names = [f["name"] for f in info["variants"][0]["fields"]]
    if "at" not in names:
        return 0      # no metadata in this configuration
    at = names.index("at")
    n = 0
    for b in F.crate_bodies():
        if (b.impl or {}).get("self_adt") != EV or (b.impl or {}).get("trait") or b.kind not in ("Fn", "AssocFn"):
            continue
        if b.arg_count < 1 or not b.locals[1].startswith(EV + "<") or EV + "<" not in b.locals[0]:
            continue
        rows = D.Deep(F, b, max_paths=100).run()
        bad = None
        if not rows or any(p.cut for p in rows):
            bad = "empty path table or a loop"
        for p in rows if bad is None else []:
            evs = [x for x in D.subterms(p.ret) if D.is_variant(x, EV)]
            if not evs and not D.mentions(p.ret, lambda x: x == ("arg", 1)):
                bad = f"a path returns {D.fmt(b, p.ret)[:80]}"
            for x in evs:
                if len(x[3]) != len(names) or x[3][at] != ("field", ("arg", 1), at):
                    bad = f"the returned event's `at` is {D.fmt(b, x[3][at] if len(x[3]) > at else x)[:80]}, not the received event's"
        n += 1
        R.check(bad is None, f"{inst}/{b.short.rsplit('::', 1)[-1]}", b, "the built Event carries self's metadata", f"`Event::{b.short.rsplit('::', 1)[-1]}` does not keep the event's metadata: {bad}")
    return n


def check_builder_setters(F, R, adt, inst="builder-setter", skip=r"^(new|default|custom|with_\w+|clone)$", forward_to=None, only=None):
    """Builder methods of `adt` (inherent, `self` by value -> the same ADT) do what their public name says, decided on their deep path
    tables (callees opaque):
      * a setter changes exactly ONE field — the field named like the method (`retries` -> `retries`, `before` -> `before_hook`,
        `given` -> `steps` through the like-named method of the old value) — to a value built from ALL its parameters (a flag setter
        without parameters stores `true`), and keeps every other field;
      * with `forward_to` = {component field: ...}: a method that replaces a component by calling a method ON the old component calls
        the method of its own name with all its own parameters (`Cucumber::retries(n)` -> `runner.retries(n)`).
    A setter wired to another field / another method compiles whenever the types agree (`retries` / `max_concurrent_scenarios` are both
    `Option<usize>`) and no test fails unless it uses exactly that builder."""
    from . import deep as D
    info = F.adt(adt)
    if info is None:
        raise Unverifiable(f"ADT {adt}")
    fields = [f["name"] for f in info["variants"][0]["fields"]]
    n = 0
    for b in sorted(F.crate_bodies(), key=lambda x: x.name):
        if (b.impl or {}).get("self_adt") != adt or (b.impl or {}).get("trait") or b.kind not in ("Fn", "AssocFn") or b.arg_count < 1:
            continue
        name = re.sub(r"<.*>$", "", b.name).rsplit("::", 1)[-1]
        if re.search(skip, name) or getattr(b, "vis", "Public") != "Public" or (only and not re.search(only, name)):
            continue
        if re.sub(r"<.*", "", b.locals[1].strip()) != adt or re.sub(r"<.*", "", b.locals[0].strip()) != adt:
            continue
        # (callees stay opaque, except the ADT's own private helpers — `self.map_runner(|r| r.before(f))` — which are part of the spelling)
        own_private = lambda cb: (cb.impl or {}).get("self_adt") == adt and not (cb.impl or {}).get("trait") and getattr(cb, "vis", "Public") != "Public"
        rows = D.Deep(F, b, max_paths=50, inline_only=own_private).run()
        if not rows or any(p.cut for p in rows):
            continue
        changed = {}
        bad = None
        for p in rows:
            ret = p.ret
            if ret[0] == "with" and ret[1] == ("arg", 1):
                for idx, val in ret[2]:
                    changed.setdefault(idx, []).append(val)
            elif D.is_variant(ret, adt) and len(ret[3]) == len(fields):
                for j, val in enumerate(ret[3]):
                    if val != ("field", ("arg", 1), j):
                        changed.setdefault(j, []).append(val)
            elif ret == ("arg", 1):
                pass
            else:
                bad = f"a path returns {D.fmt(b, ret)[:80]}"
        if bad:
            continue       # not a plain setter (e.g. consumes self into something computed): out of this rule's scope
        ftys = [f.get("ty", "") for f in info["variants"][0]["fields"]]
        changed = {i: v for i, v in changed.items() if not ftys[i].startswith("std::marker::PhantomData")}
        n += 1
        params = [("arg", i) for i in range(2, b.arg_count + 1)]
        ch_names = sorted(fields[i] for i in changed)
        if not changed:
            R.violation(f"{inst}/{adt.rsplit('::', 1)[-1]}::{name}", b, f"`{adt.rsplit('::', 1)[-1]}::{name}` returns `self` unchanged: the option it is named after is never stored / forwarded")
            continue
        want = [f for f in fields if f == name or f.startswith(name + "_")]
        key = f"{inst}/{adt.rsplit('::', 1)[-1]}::{name}"
        if forward_to and len(changed) == 1 and ch_names[0] in forward_to:
            comp_idx = next(iter(changed))
            vals = changed[comp_idx]
            ok, why = True, ""
            for v in vals:
                calls = [x for x in D.subterms(v) if x[0] == "call" and any(a == ("field", ("arg", 1), comp_idx) or D.mentions(a, lambda y: y == ("field", ("arg", 1), comp_idx)) for a in x[2])]
                outer = v if v[0] == "call" else (calls[0] if calls else None)
                if outer is None:
                    ok, why = False, f"`{ch_names[0]}` is replaced by {D.fmt(b, v)[:60]}, not by a method call on the old {ch_names[0]}"
                    break
                callee = re.sub(r"<[^<>]*(<[^<>]*(<[^<>]*>[^<>]*)*>[^<>]*)*>", "", outer[1]).replace("::::", "::").rsplit("::", 1)[-1]
                if callee != name:
                    ok, why = False, f"it calls `{callee}` on the old {ch_names[0]}"
                    break
                missing = [D.fmt(b, q) for q in params if not D.mentions(outer, lambda y, q=q: y == q)]
                if missing:
                    ok, why = False, f"parameter(s) {missing} are not handed on"
                    break
            R.check(ok, key, b, f"forwards to {ch_names[0]}.{name}(..) with all parameters", f"`{adt.rsplit('::', 1)[-1]}::{name}` does not forward to the like-named method of its {ch_names[0]}: {why}")
            continue
        if forward_to and set(ch_names) & set(forward_to):
            continue       # replaces a component wholesale (with_parser ..): covered by the keep-cli rule
        if not want:
            # no like-named field (`given` -> `steps.given(..)`): one field is replaced by the like-named method of its old value
            if len(changed) == 1:
                ci = next(iter(changed))
                ok, why = True, ""
                for v in changed[ci]:
                    callee = re.sub(r"<[^<>]*(<[^<>]*(<[^<>]*>[^<>]*)*>[^<>]*)*>", "", v[1]).replace("::::", "::").rsplit("::", 1)[-1] if v[0] == "call" else None
                    # (the old value: `self.<field>` — of this method or of an own private helper the method was inlined into, whose first
                    # parameter is that `self`)
                    is_old = lambda y: isinstance(y, tuple) and len(y) == 3 and y[0] == "field" and y[2] == ci and (y[1] == ("arg", 1) or (isinstance(y[1], tuple) and y[1][0] == "L" and y[1][2] == 1))
                    old_used = v[0] == "call" and any(D.mentions(a, is_old) for a in v[2])
                    missing = [D.fmt(b, q) for q in params if not D.mentions(v, lambda y, q=q: y == q)]
                    if callee != name or not old_used or missing:
                        ok, why = False, f"`{fields[ci]}` becomes {D.fmt(b, v)[:70]}"
                R.check(ok, key, b, f"`{fields[ci]}` := old {fields[ci]}.{name}(all parameters)", f"`{adt.rsplit('::', 1)[-1]}::{name}` does not delegate to the like-named method of its `{fields[ci]}`: {why}")
            continue
        ok = ch_names == want[:1] or (len(want) >= 1 and ch_names == [want[0]])
        why = f"it changes {ch_names or 'nothing'} (expected exactly `{want[0]}`)"
        if ok:
            for v in changed[fields.index(want[0])]:
                if params:
                    missing = [D.fmt(b, q) for q in params if not D.mentions(v, lambda y, q=q: y == q)]
                    if missing:
                        ok, why = False, f"the stored value {D.fmt(b, v)[:60]} is not built from parameter(s) {missing}"
                elif v != ("const", True):
                    ok, why = False, f"a flag setter stores {D.fmt(b, v)[:40]} instead of `true`"
        R.check(ok, key, b, f"sets `{want[0]}` from its parameters, keeps the rest", f"`{adt.rsplit('::', 1)[-1]}::{name}` does not do what its name says: {why}")
    return n


def check_all_builder_setters(F, R, only=None, floor=1):
    """check_builder_setters for runner::Basic's setters and Cucumber's forwarding builders (`only`: regex on method names)."""
    n = check_builder_setters(F, R, "runner::basic::Basic", only=only)
    n += check_builder_setters(F, R, "cucumber::Cucumber", forward_to={"parser", "runner", "writer"}, only=only)
    R.floor(floor)
    return n


CLI_SURFACE = {
    # ADT: {field: long flag}  — the flags the properties name (C06 `--concurrency`, C08 `--fail-fast`, C15 `--name` / `--tags`,
    # C18 `--retry` / `--retry-after` / `--retry-tag-filter`)
    "runner::basic::Cli": {"concurrency": "concurrency", "fail_fast": "fail-fast", "retry": "retry", "retry_after": "retry-after", "retry_tag_filter": "retry-tag-filter"},
    "cli::Opts": {"re_filter": "name", "tags_filter": "tags"},
}


def check_cli_surface(F, R, adt, only=None, inst="cli-flag"):
    """The clap derive expansion of `adt` (read from MIR, like any other code): every field listed for it is declared as an argument
    with the documented long flag, and `FromArgMatches` fills the field from the argument of that very id — two derive-generated
    sites (`augment_args`, `from_arg_matches_mut`) that a wrong `#[arg(id = .., long = ..)]` attribute breaks silently."""
    from . import analysis as A
    want = {f: l for f, l in CLI_SURFACE[adt].items() if not only or re.search(only, f)}
    aug = [b for b in F.crate_bodies() if (b.impl or {}).get("trait") == "clap::Args" and (b.impl or {}).get("self_adt") == adt and b.name.endswith("::augment_args")]
    frm = [b for b in F.crate_bodies() if (b.impl or {}).get("trait") == "clap::FromArgMatches" and (b.impl or {}).get("self_adt") == adt and b.name.endswith("::from_arg_matches_mut")]
    if len(aug) != 1 or len(frm) != 1:
        raise Unverifiable(f"clap derive of {adt}: augment_args x{len(aug)}, from_arg_matches_mut x{len(frm)}")
    a, fb = aug[0], frm[0]
    # declared arguments: id -> long
    longs = {}
    for s_, t in a.calls(lambda t: callee_is(t, r"clap::Arg::long$", r"Arg::long$")):
        nm = const_str(t["args"][1]) if len(t["args"]) > 1 else None
        sl = A.slice_back(a, [t["args"][0]])
        ids = [const_str(x) for _, ct in sl.calls if callee_is(ct, r"Arg::new$") for x in ct["args"] if const_str(x)]
        if nm and len(ids) == 1:
            longs[ids[0]] = nm
    # field <- id read back
    reads = {}
    for s_, st in fb.assigns(lambda st: st["rv"]["k"] == "agg" and st["rv"].get("adt") == adt):
        for fname, op in zip(st["rv"]["fields"], st["rv"]["ops"]):
            sl = A.slice_back(fb, [op])
            reads_matches = any(callee_is(ct, r"ArgMatches::(remove_one|remove_many|get_one|get_many|get_flag|remove_occurrences|try_remove_one|try_remove_many)$") for _, ct in sl.calls)
            ids = sorted({A.const_str(c) for c in sl.consts if A.const_str(c) is not None and A.const_str(c) in longs}) if reads_matches else []
            reads[fname] = ids
    for f, l in sorted(want.items()):
        ids = reads.get(f)
        ok = ids is not None and len(ids) == 1 and longs.get(ids[0]) == l
        R.check(ok, f"{inst}/{adt.rsplit('::', 2)[-2]}::{f}", a, f"--{l} -> `{f}`",
                f"`{adt}.{f}` is filled from argument id(s) {ids} whose long flag is {[longs.get(i) for i in (ids or [])]} (expected one argument with `--{l}`)")
    return len(want)


def check_initial_state(F, R, ctor, adt, expect, inst):
    """The value a constructor (`Default::default`, `From::from`, `new`) returns starts in the documented state: on its path table every
    listed field holds the listed constant (an int, a bool, `None`, an enum variant name, or — for a nested counter struct — all zeros).
    `expect`: {field name: 0 | False | "None" | "Variant" | "zeros"}."""
    from . import deep as D
    info = F.adt(adt)
    names = [f["name"] for f in info["variants"][0]["fields"]]
    # (a constructor may delegate to another constructor of the same type: `From::from` -> `Self::new`)
    own_ctor = lambda cb: bool(cb.impl and cb.impl.get("self_adt") == adt and re.sub(r"<.*", "", cb.locals[0].strip()) in (adt, "Self"))
    rows = D.Deep(F, ctor, max_paths=50, inline_only=own_ctor).run()
    bad = None
    if not rows or any(p.cut for p in rows):
        bad = "empty path table or a loop"

    def holds(v, want, depth=0):
        if v[0] == "const" and isinstance(v[1], str) and depth < 2:
            cb = F.body(v[1], ctor.crate)     # a named constant (`Stats::EMPTY`): what its initialiser evaluates to
            if cb is not None:
                crow = D.Deep(F, cb, max_paths=20).run()
                return bool(crow) and all(holds(cp.ret, want, depth + 1) for cp in crow)
        if want == "zeros":
            return isinstance(v, tuple) and v and v[0] == "variant" and all(x == ("const", 0) for x in v[3]) and len(v[3]) > 0
        if want == "None":
            return D.is_variant(v, "std::option::Option", "None")
        if isinstance(want, str):
            return isinstance(v, tuple) and v and v[0] == "variant" and v[2] == want
        return v == ("const", want)
    for p in rows if bad is None else []:
        agg = [x for x in D.subterms(p.ret) if D.is_variant(x, adt)]
        if not agg or len(agg[0][3]) != len(names):
            bad = f"a path returns {D.fmt(ctor, p.ret)[:60]}"
            break
        for f, want in expect.items():
            v = agg[0][3][names.index(f)]
            if not holds(v, want):
                bad = f"`{f}` starts as {D.fmt(ctor, v)[:40]} (expected {want})"
    R.check(bad is None, inst, ctor, f"{len(expect)} fields start in their documented state", f"`{ctor.short}` does not start in the documented state: {bad}")


def check_builders_keep_cli(F, R, inst="builder-keeps-cli"):
    """Every `Cucumber` builder method (self -> Cucumber) hands the CLI options given by `with_cli()` on to the value it returns:
    the `cli` field of the result is `self.cli`, or is set explicitly from a parameter (`with_cli`, `with_default_cli`); it may be
    reset to None only by the methods that replace the parser / runner / writer wholesale by a parameter (the options' type
    changes with them).  Decided on the methods' path tables.  Returns the number of methods examined."""
    from . import deep as D
    adt = F.adts.get(("cucumber", "cucumber::Cucumber"))
    if not adt:
        raise Unverifiable("ADT cucumber::Cucumber")
    names = [f["name"] for f in adt["variants"][0]["fields"]]
    if "cli" not in names:
        raise Unverifiable("Cucumber has no `cli` field")
    ci = names.index("cli")
    comp = [names.index(n) for n in ("parser", "runner", "writer") if n in names]
    bs = [b for b in F.crate_bodies() if (b.impl or {}).get("self_adt") == "cucumber::Cucumber" and not (b.impl or {}).get("trait") and b.kind == "AssocFn"
          and b.arg_count >= 1 and b.locals[1].startswith("cucumber::Cucumber<") and b.locals[0].startswith("cucumber::Cucumber<")]
    SELF = ("arg", 1)

    def strip(t):
        while isinstance(t, tuple) and t and t[0] in ("ref", "deref", "refto", "conv"):
            t = t[1]
        return t
    n = 0
    for b in bs:
        nm = b.name.rsplit("::", 1)[-1]
        rows = D.Deep(F, b, max_paths=60, inline_only=lambda cb: (cb.impl or {}).get("self_adt") == "cucumber::Cucumber").run()
        bad = None
        if not rows or any(p.cut for p in rows):
            bad = "empty path table or a loop"
        for p in rows if bad is None else []:
            r = strip(p.ret)
            if r == SELF:
                continue
            if r[0] == "with" and strip(r[1]) == SELF:
                ov = dict(r[2])
                if ci in ov and not D.is_variant(strip(ov[ci]), "std::option::Option", "Some"):
                    bad = "the cli field is overwritten with something else than Some(..)"
                continue
            if not D.is_variant(r, "cucumber::Cucumber"):
                bad = f"returns {D.fmt(b, p.ret)[:60]}"
                break
            cli = strip(r[3][ci])
            if cli == ("field", SELF, ci):
                continue
            if D.is_variant(cli, "std::option::Option", "Some") and D.mentions(cli, lambda y: y[0] == "arg" and y[1] >= 2):
                continue
            replaced = [i for i in comp if not D.mentions(r[3][i], lambda y: y == SELF)]
            if D.is_variant(cli, "std::option::Option", "None") and replaced:
                continue
            bad = f"returns a Cucumber whose cli is {D.fmt(b, r[3][ci])[:40]} although parser, runner and writer all derive from self: options given by with_cli() before `{nm}()` are dropped"
            break
        n += 1
        R.check(bad is None, f"{inst}/{nm}", b, "cli carried over", f"Cucumber::{nm}: {bad}")
        if nm in ("with_cli", "with_default_cli") and bad is None:
            # the two methods that SET the options: whatever was stored before, afterwards it is Some(the parameter) / Some(the defaults)
            why = None
            for p in rows:
                r = strip(p.ret)
                if r == SELF:
                    v = ("field", SELF, ci)
                elif r[0] == "with":
                    v = dict(r[2]).get(ci, ("field", SELF, ci))
                else:
                    v = r[3][ci]
                v = strip(v)
                conds = " ∧ ".join(f"{D.fmt(b, a)[:40]}={o}" for a, o in p.conds) or "always"
                # in-place updates through `&mut self.cli` that the table does not model
                muts = [e for e in p.effects if e[0] == "call" and e[2] and strip(e[2][0]) == ("field", SELF, ci) and e[2][0] != strip(e[2][0])]
                if muts and v == ("field", SELF, ci):
                    e = muts[-1]
                    if re.search(r"Option::<.*>::(insert|replace)$", e[1]) and len(e[2]) == 2:
                        v = ("variant", "std::option::Option", "Some", (e[2][1],))
                    elif not re.search(r"Option::<.*>::(get_or_insert|get_or_insert_with|as_ref|as_mut|is_some|is_none)$", e[1]):
                        raise Unverifiable(f"Cucumber::{nm}: the options are updated in place through {e[1][-40:]}")
                if not D.is_variant(v, "std::option::Option", "Some") or D.mentions(v, lambda y: y == SELF):
                    why = f"[{conds}] the options stored are {D.fmt(b, v)[:50]}: what an earlier with_cli() stored survives"
                elif nm == "with_cli" and strip(v[3][0]) != ("arg", 2):
                    why = f"[{conds}] the options stored are {D.fmt(b, v)[:50]}, not the parameter"
                elif nm == "with_default_cli" and not (strip(v[3][0])[0] == "call" and re.search(r"Default>?::default$", strip(v[3][0])[1]) and not strip(v[3][0])[2]):
                    why = f"[{conds}] the options stored are {D.fmt(b, v)[:50]}, not `Default::default()`"
            R.check(why is None, f"{inst}/{nm}/sets", b, "the options are replaced unconditionally", f"Cucumber::{nm}: {why}")
    return n
