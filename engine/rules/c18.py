"""C18 — retry options resolve by nearest tag, then CLI, then builder, then defaults (DESIGN §4 C18)."""
import re

from . import analysis as A
from . import roles
from . import tags
from .c04 import role_insert
from .mir import Site, Unverifiable, callee_is, callee_path, const_int, const_str, op_fn, op_local, op_place, place_fields, place_str

CFGS = {"quick": ["default", "all"], "thorough": ["default", "all", "nodefault"]}

EXPLANATION = """
Precedence chains are extracted as operand orders of Option::or / or_else / unwrap_or (values never matter):
(R1) tag source order: scenario tags, else rule tags, else feature tags; (R2) count = tag value, else cli.retry, else
the constant 1; delay = tag value, else cli.retry_after; (R3) in Runner::run the CLI value is the first operand of
`or` for retry, retry_after and retry_tag_filter (concurrency and fail_fast are C06.R1 / C08.R2); (R4) decision: the
result is Some iff a retry tag was found or `matched`, where matched = filter.eval(scenario ∪ rule ∪ feature tags)
when a filter exists, else `cli.retry.is_some() || cli.retry_after.is_some()`; (R5) the enqueue path calls the
resolver once per scenario with that scenario's own rule.
Not decided: parsing of malformed tag payloads (string processing on inputs).
"""
DECLINED = ["parsing of the tag text (`@retry(3).after(5s)` syntax) on arbitrary strings"]
ASSUMPTIONS = ["Option::or / or_else prefer the receiver"]

RO = "runner::basic::RetryOptions"


def resolver(F):
    bs = [b for b in F.crate_bodies() if (b.impl or {}).get("self_adt") == RO and not (b.impl or {}).get("trait") and b.kind == "AssocFn" and b.arg_count == 4
          and b.locals[0] == f"std::option::Option<{RO}>"]
    if len(bs) != 1:
        raise Unverifiable(f"RetryOptions::parse_from_tags role: {len(bs)}")
    return bs[0]


def tag_owner_of(F, body, op):
    """Which gherkin owner's `tags` does this operand (or the closure it is) read?"""
    owners = set()
    kb = A.closure_of_operand(F, body, op)
    if kb is not None:
        for nb in F.nested(kb):
            for _, st in nb.assigns():
                for pl in A.rvalue_places(st["rv"]):
                    for o, n in place_fields(pl):
                        if n == "tags" and o.startswith("gherkin::"):
                            owners.add(o)
        return owners
    sl = A.slice_back(body, [op], stop_calls=[r"Option::<.*>::or_else$", r"Option::<.*>::or$"])
    return tags.fields_read_deep(F, body, sl)


def or_chain(F, body, op):
    """Operands, in priority order, of a chain `a.or_else(b).or_else(c)` / `.or(..)` whose value is `op`."""
    l = op_local(op)
    if l is None:
        return [op]
    cp = A.canon_place(body, {"l": l, "p": []})
    sd = body.single_def(cp["l"]) if not cp["p"] else None
    if sd and sd[1] == "call" and callee_is(sd[2], r"Option::<.*>::(or_else|or)$"):
        return or_chain(F, body, sd[2]["args"][0]) + [sd[2]["args"][1]]
    return [op]


def r1(F, R):
    b = resolver(F)
    # the argument of the final apply_cli call
    calls = [(s, t) for s, t in b.calls(lambda t: callee_is(t, r"ops::Fn::call$"))]
    last = [x for x in calls if b.locals[x[1]["dest"]["l"]] == f"std::option::Option<{RO}>"]
    if len(last) != 1:
        raise Unverifiable("apply_cli call")
    s, t = last[0]
    tup = b.single_def(op_local(t["args"][1]))
    arg = tup[2]["rv"]["ops"][0]
    ops = or_chain(F, b, arg)
    owners = [sorted(o.split("::")[1] for o in tag_owner_of(F, b, o)) for o in ops]
    R.check(owners == [["Scenario"], ["Rule"], ["Feature"]], "nearest-tag-wins", s, "scenario tags, else rule tags, else feature tags",
            f"retry tags are looked up in the order {owners}; expected scenario, rule, feature")
    # every operand is produced by the same tag parser
    R.floor(1)


def apply_cli(F):
    b = resolver(F)
    ks = [nb for nb in F.nested(b) if nb is not b and nb.kind == "Closure" and nb.locals[0] == f"std::option::Option<{RO}>"]
    if len(ks) != 1:
        raise Unverifiable("apply_cli closure")
    return ks[0]


def r2(F, R):
    k = apply_cli(F)
    builds = [(nb, s, st) for nb in F.nested(k) for s, st in nb.assigns(lambda st: st["rv"]["k"] == "agg" and st["rv"].get("adt") == RO)]
    if len(builds) != 1:
        raise Unverifiable("RetryOptions aggregate in apply_cli")
    nb, s, st = builds[0]
    f = dict(zip(st["rv"]["fields"], st["rv"]["ops"]))
    # retries: Retries::initial(<count>)
    ch = A.receiver_chain(nb, f["retries"])
    ok_c = False
    if ch and callee_is(ch[0][1], r"Retries::initial$"):
        cnt = A.receiver_chain(nb, ch[0][1]["args"][0])
        names = [callee_path(c).rsplit("::", 1)[-1] for _, c in cnt]
        if names[:3] == ["unwrap_or", "or", "and_then"]:
            dflt = const_int(cnt[0][1]["args"][1])
            cli_f = A.deep_slice(F, nb, [cnt[1][1]["args"][1]]).fields
            tag_k = A.closure_of_operand(F, nb, cnt[2][1]["args"][1])
            first = tag_k is not None and _tuple_index_returned(tag_k) == 0
            ok_c = dflt == 1 and ("runner::basic::Cli", "retry") in cli_f and ("runner::basic::Cli", "retry_after") not in cli_f and first
    R.check(ok_c, "count-tag-cli-one", s, "tag count .or(cli.retry) .unwrap_or(1)", "the retry count is not `tag value, else --retry, else 1`")
    ch = A.receiver_chain(nb, f["after"])
    names = [callee_path(c).rsplit("::", 1)[-1] for _, c in ch]
    ok_a = False
    if names[:2] == ["or", "and_then"]:
        cli_f = A.deep_slice(F, nb, [ch[0][1]["args"][1]]).fields
        tag_k = A.closure_of_operand(F, nb, ch[1][1]["args"][1])
        ok_a = ("runner::basic::Cli", "retry_after") in cli_f and ("runner::basic::Cli", "retry") not in cli_f and tag_k is not None and _tuple_index_returned(tag_k) == 1
    R.check(ok_a, "delay-tag-cli", s, "tag delay .or(cli.retry_after)", "the retry delay is not `tag value, else --retry-after`")
    R.floor(2)


def _tuple_index_returned(kb):
    """For a closure `|(a, b)| a` / `|(_, b)| b`: index of the tuple component it returns."""
    sl = A.slice_back(kb, start_locals=[0])
    idx = set()
    for pl in sl.places:
        for e in pl["p"]:
            if isinstance(e, dict) and "f" in e and e["o"] == "{tuple}":
                idx.add(e["f"])
    return idx.pop() if len(idx) == 1 else None


def r3(F, R):
    """CLI retry options override the builder's, decided on the deep path table of Runner::run (roles.run_merge_table): the
    Cli handed to the ingestion carries, per option, the CLI value when given and the builder value otherwise."""
    run, paths, H = roles.run_merge_table(F)
    D = H["D"]
    want = {"retry": "retries", "retry_after": "retry_after", "retry_tag_filter": "retry_filter"}
    cli_fidx = {n: H["cli"](n)[2] for n in want}

    def cli_passed(p):
        e = H["ingest"](p)
        if e is None:
            return None
        for a in e[2]:
            if a == H["cli_arg"] or (isinstance(a, tuple) and a and a[0] == "with" and a[1] == H["cli_arg"]):
                return a
        return None
    n = 0
    for fld, bname in want.items():
        def value_of(p, fld=fld):
            c = cli_passed(p)
            if c is None:
                return None
            return D.Deep.project(c, cli_fidx[fld]) if c[0] == "with" else ("field", c, cli_fidx[fld])
        roles.check_option_merge(R, f"cli-over-builder/{fld}", run, paths, H["cli"](fld), H["builder"](bname), value_of,
                                 f"cli.{fld} = cli.{fld}.or(builder.{bname})")
        n += 1
    R.check(n == 3, "cli-over-builder/all-three", run, "", f"only {n} options are merged with the builder values")
    R.floor(4)


def r4(F, R):
    k = apply_cli(F)
    thens = [(s, t) for s, t in k.calls(lambda t: callee_is(t, r"bool>::then$", r"::then$") and k.locals[op_local(t["args"][0])] == "bool")]
    if len(thens) != 1:
        raise Unverifiable("`(..).then(..)` in apply_cli")
    s, t = thens[0]
    cond = op_local(t["args"][0])
    cond = A.canon_place(k, {"l": cond, "p": []})["l"]
    ds = k.defs.get(cond, [])
    consts = [(s2, p) for s2, kk, p in ds if kk == "assign" and p["rv"]["k"] == "use" and const_int(p["rv"]["op"]) == 1]
    copies = [(s2, p) for s2, kk, p in ds if kk == "assign" and p["rv"]["k"] == "use" and op_local(p["rv"]["op"]) is not None]
    ok = len(ds) == 2 and len(consts) == 1 and len(copies) == 1
    matched = None
    if ok:
        g = [g for g in A.guards_of(k, consts[0][0]) if g.cond_def() and g.cond_def()[0] == "call" and callee_is(g.cond_def()[2], r"Option::<.*>::is_some$") and g.polarity() is True]
        ok = len(g) == 1 and 2 in A.slice_back(k, [g[0].cond_def()[2]["args"][0]]).params
        matched = op_local(copies[0][1]["rv"]["op"])
    R.check(ok, "some-iff-tag-or-matched", s, "(options.is_some() || matched).then(..)", "the resolver's result is not Some exactly when a retry tag was found or the CLI/filter matched")
    if matched is None:
        return
    sd = k.single_def(A.canon_place(k, {"l": matched, "p": []})["l"])
    okm = bool(sd and sd[1] == "call" and callee_is(sd[2], r"Option::<.*>::map_or_else$"))
    R.check(okm, "matched-shape", s, "retry_tag_filter.map_or_else(no-filter, filter)", "`matched` is not computed from retry_tag_filter with a no-filter fallback")
    if okm:
        tm = sd[2]
        recv = A.deep_slice(F, k, [tm["args"][0]]).fields
        R.check(("runner::basic::Cli", "retry_tag_filter") in recv, "matched-on-filter", sd[0], "", "the decision does not consult retry_tag_filter")
        kn = A.closure_of_operand(F, k, tm["args"][1])
        ks = A.closure_of_operand(F, k, tm["args"][2])
        # no filter: retry.is_some() || retry_after.is_some()
        okn = False
        if kn is not None:
            fl = set()
            for _, c in kn.calls(lambda c: callee_is(c, r"Option::<.*>::is_some$")):
                fl |= {n for o, n in A.deep_slice(F, kn, [c["args"][0]]).fields if o == "runner::basic::Cli"}
            okn = fl == {"retry", "retry_after"}
        R.check(okn, "no-filter-needs-retry-config", kn or sd[0], "cli.retry.is_some() || cli.retry_after.is_some()", "without a filter, an untagged scenario is (not) retried regardless of --retry / --retry-after")
        if ks is not None:
            evs = [(s2, c) for s2, c in ks.calls(lambda c: callee_is(c, r"tag::Ext::eval$"))]
            R.check(len(evs) == 1, "filter-evaluated", ks, "", f"{len(evs)} eval calls")
            if len(evs) == 1:
                tags.check_tag_union(F, R, ks, evs[0][1]["args"][1], "filter-tags", evs[0][0], "retry filter tag")
    R.floor(6)


def r5(F, R):
    _, _, ins = role_insert(F)
    calls = [(nb, s, t) for nb in F.nested(ins) for s, t in nb.calls(lambda t: re.search(r"ops::Fn", (op_fn(t["func"]) or {}).get("trait", "")) and "runner::basic::RetryOptions" in (op_fn(t["func"]) or {}).get("full", ""))]
    R.check(len(calls) == 1, "resolver-called-once-per-scenario", ins, "", f"{len(calls)} resolver call sites on the enqueue path")
    if len(calls) == 1:
        nb, s, t = calls[0]
        tup = nb.single_def(op_local(t["args"][1]))
        ops = tup[2]["rv"]["ops"] if tup and tup[1] == "assign" else []
        # rule argument derives from this closure's own (rule, scenario) parameter
        rule_ops = [o for o in ops if op_local(o) is not None and "gherkin::Rule" in nb.locals[op_local(o)]]
        ok = False
        if len(rule_ops) == 1:
            sl = A.slice_back(nb, [rule_ops[0]])
            ok = 2 in sl.params and not sl.upvars - {0, 1, 2, 3} and sl.has_call(r"Option::<.*>::as_deref$", r"Option::<.*>::as_ref$", r"Deref::deref$")
        R.check(ok, "resolver-gets-own-rule", s, "retry(&feature, rule.as_deref(), scenario, cli)", "the resolver is not called with the scenario's own rule")
        # and the mapping closure is applied to every element (Iterator::map on the chain) — see C04.R1
        R.check(nb.kind == "Closure", "resolver-in-map-closure", s, "", "")
    R.floor(2)


def r6(F, R):
    """`--concurrency` overrides and `--fail-fast` adds to the builder settings (same rules as C06.R1 and C08.R2/R5)."""
    from . import c06, c08
    c06.r1(F, R)
    c08.r2(F, R)
    c08.r5(F, R)
    # a cloned runner keeps every setting (Cucumber builders / runners are Clone)
    roles.check_field_faithful_clone(F, R, "runner::basic::Basic", "runner")


RULES = [("R6", r6, None), ("R1", r1, None), ("R2", r2, None), ("R3", r3, None), ("R4", r4, None), ("R5", r5, None)]
