"""C18 — retry options resolve by nearest tag, then CLI, then builder, then defaults (DESIGN §4 C18)."""
import re

from . import analysis as A
from . import roles
from . import tags
from .c04 import role_insert
from .mir import Site, Unverifiable, callee_is, callee_path, const_int, const_str, op_fn, op_local, op_place, place_fields, place_str

CFGS = {"quick": ["default", "all"], "thorough": ["default", "all", "nodefault"]}

EXPLANATION = """
Precedence chains are extracted as operand orders of Option::or / or_else / unwrap_or (values never matter):
(R1) tag source order: scenario tags, else rule tags, else feature tags; (R2) count = tag value, else cli.retry, else
the constant 1; delay = tag value, else cli.retry_after; (R3) in Runner::run the CLI value is the first operand of
`or` for retry, retry_after and retry_tag_filter (concurrency and fail_fast are C06.R1 / C08.R2); (R4) decision: the
result is Some iff a retry tag was found or `matched`, where matched = filter.eval(scenario ∪ rule ∪ feature tags)
when a filter exists, else `cli.retry.is_some() || cli.retry_after.is_some()`; (R5) the enqueue path calls the
resolver once per scenario with that scenario's own rule.
Not decided: parsing of malformed tag payloads (string processing on inputs).
Added after the second seeded round: (R7) CLI options given through with_cli() survive later builder calls and clone() (= C15.R5's tables); (R8) the retry tag filter is an ordinary boolean formula (= C15.R2).
"""
DECLINED = ["parsing of the tag text (`@retry(3).after(5s)` syntax) on arbitrary strings"]
ASSUMPTIONS = ["Option::or / or_else prefer the receiver"]

RO = "runner::basic::RetryOptions"


def resolver(F):
    bs = [b for b in F.crate_bodies() if (b.impl or {}).get("self_adt") == RO and not (b.impl or {}).get("trait") and b.kind == "AssocFn" and b.arg_count == 4
          and b.locals[0] == f"std::option::Option<{RO}>"]
    if len(bs) != 1:
        raise Unverifiable(f"RetryOptions::parse_from_tags role: {len(bs)}")
    return bs[0]


LOOKUP_TY = "std::option::Option<(std::option::Option<usize>, std::option::Option<std::time::Duration>)>"
_RT = {}


class ResolverTable:
    """Deep path table of RetryOptions::parse_from_tags with the tag-parsing routine (whatever closure / helper fn returns
    Option<(Option<usize>, Option<Duration>)>) and TagOperation::eval kept opaque."""

    def __init__(self, F):
        from . import deep as D
        self.D = D
        self.F = F
        self.b = b = resolver(F)
        fam = roles.family(F, b)
        # (it takes the tags: closures like `|| rule.and_then(..)` that merely pass a lookup's result on do not)
        cands = [x for x in fam if x is not b and x.locals[0] == LOOKUP_TY and
                 any("String" in ty or "str" in ty for ty in x.locals[(2 if x.kind == "Closure" else 1):x.arg_count + 1])]
        if not cands:
            raise Unverifiable("tag lookup routine of the retry resolver (returns Option<(Option<usize>, Option<Duration>)>)")
        self.lookup_names = {x.name for x in cands}
        opq = "^(" + "|".join(re.escape(n) for n in sorted(self.lookup_names)) + r")$|tag::Ext::eval$"
        self.dp = D.Deep(F, b, max_paths=6000, opaque=opq)
        self.paths = self.dp.run()
        if not self.paths or any(p.cut for p in self.paths):
            raise Unverifiable("retry resolver: empty path table or a loop outside the tag lookup routine")
        # parameters by type
        self.param = {}
        for i in range(1, b.arg_count + 1):
            ty = b.locals[i]
            if "gherkin::Scenario" in ty:
                self.param["Scenario"] = i
            elif "gherkin::Rule" in ty:
                self.param["Rule"] = i
            elif "gherkin::Feature" in ty:
                self.param["Feature"] = i
            elif "runner::basic::Cli" in ty:
                self.param["Cli"] = i
        if set(self.param) != {"Scenario", "Rule", "Feature", "Cli"}:
            raise Unverifiable(f"parameters of the retry resolver: {sorted(self.param)}")
        a = F.adts.get(("cucumber", "runner::basic::Cli"))
        self.cli_idx = {f["name"]: i for i, f in enumerate(a["variants"][0]["fields"])}

    def cli(self, name):
        return ("field", ("deref", ("arg", self.param["Cli"])), self.cli_idx[name])

    def lookups(self, p):
        """[(index, owner, call term)] of the tag lookups performed on path p, in order."""
        D = self.D
        out = []
        for i, e in enumerate(p.effects):
            if e[0] == "call" and (e[1] in self.lookup_names or (e[1].startswith("closure:") and e[1][8:] in self.lookup_names)):
                owners = set()
                for x in D.subterms(e[2]):
                    if x[0] == "arg":
                        for k, pi in self.param.items():
                            if pi == x[1] and k != "Cli":
                                owners.add(k)
                out.append((i, "+".join(sorted(owners)), ("call", e[1], e[2], e[4])))
        return out

    def outcome(self, p, term):
        for a, o in p.conds:
            if a == ("discr", term):
                return o
        return None

    def found(self, p):
        ls = self.lookups(p)
        for i, owner, t in ls:
            if self.outcome(p, t) == "Some":
                return owner, t
        return None, None


def rtable(F):
    if id(F) not in _RT:
        _RT.clear()
        _RT[id(F)] = ResolverTable(F)
    return _RT[id(F)]


def r1(F, R):
    """Nearest tag wins: on every path the lookups happen in the order scenario, rule (if any), feature; a later one only
    after the earlier ones found nothing; and the options of the first hit are the ones used."""
    T = rtable(F)
    D = T.D
    ok, why, seen = True, "", set()
    for p in T.paths:
        ls = T.lookups(p)
        owners = [o for _, o, _ in ls]
        want = ["Scenario", "Rule", "Feature"]
        rule_some = T.outcome(p, ("arg", T.param["Rule"]))
        exp = [w for w in want if not (w == "Rule" and rule_some == "None")]
        if owners != exp[:len(owners)]:
            ok, why = False, f"retry tags are looked up in the order {owners}; expected scenario, rule, feature"
        for k, (i, o, t) in enumerate(ls[:-1]):
            if T.outcome(p, t) != "None":
                ok, why = False, f"the {ls[k + 1][1]} tags are consulted although the {o} tags already had a retry tag"
        owner, t = T.found(p)
        if owner:
            seen.add(owner)
            if D.is_variant(p.ret, "std::option::Option", "Some"):
                pay = ("field", ("as", t, "Some"), 0)
                others = [t2 for _, o2, t2 in ls if t2 != t]
                if any(D.mentions(p.ret, lambda x, t2=t2: x == t2) for t2 in others):
                    ok, why = False, "options of a farther tag are used although a nearer one was found"
        elif len(owners) < len(exp):
            ok, why = False, f"only {owners} tags are consulted before falling back to the CLI options"
    R.check(ok and seen == {"Scenario", "Rule", "Feature"}, "nearest-tag-wins", T.b, "scenario tags, else rule tags, else feature tags", why or f"hits seen only at {sorted(seen)}")
    R.floor(1)


def r2(F, R):
    """count = tag value, else --retry, else 1; delay = tag value, else --retry-after — on the resolver's path table."""
    T = rtable(F)
    D = T.D
    okc, oka, whyc, whya, n = True, True, "", "", 0
    for p in T.paths:
        if not D.is_variant(p.ret, "std::option::Option", "Some"):
            continue
        ro = p.ret[3][0]
        if not (D.is_variant(ro, RO) and len(ro[3]) == 2 and D.is_variant(ro[3][0], "event::Retries")):
            okc, whyc = False, "the result is not RetryOptions { retries: Retries { .. }, after }"
            continue
        n += 1
        rt = ro[3][0]
        flds = {f["name"]: i for i, f in enumerate(F.adts[("cucumber", "event::Retries")]["variants"][0]["fields"])}
        left, cur = rt[3][flds["left"]], rt[3][flds["current"]]
        after = ro[3][1]
        owner, t = T.found(p)
        tagc = tagd = None
        if t is not None:
            pay = ("field", ("as", t, "Some"), 0)
            tagc, tagd = ("field", pay, 0), ("field", pay, 1)
        tc_out = T.outcome(p, tagc) if tagc else None
        cli_r, cli_a = T.cli("retry"), T.cli("retry_after")
        if tagc is not None and tc_out is None:
            okc, whyc = False, "a retry tag was found but its count is not looked at before the CLI value / default is used"
        if tc_out == "Some":
            want_left = ("field", ("as", tagc, "Some"), 0)
        elif T.outcome(p, cli_r) == "Some":
            want_left = ("field", ("as", cli_r, "Some"), 0)
        elif T.outcome(p, cli_r) == "None":
            want_left = ("const", 1)
        else:
            want_left = None
        if left != want_left or cur != ("const", 0):
            okc, whyc = False, f"count is {D.fmt(T.b, left)[:60]} (current {D.fmt(T.b, cur)[:10]}) where `tag value, else --retry, else 1` gives {D.fmt(T.b, want_left)[:60] if want_left else '?'}"
        td_out = T.outcome(p, tagd) if tagd else None
        if tagd is not None and td_out is None:
            oka, whya = False, "a retry tag was found but its delay is not looked at before the CLI value is used"
        if td_out == "Some":
            want_after = (tagd, D.Deep.some(("field", ("as", tagd, "Some"), 0)))
        else:
            want_after = (cli_a,)
        if after not in want_after:
            oka, whya = False, f"delay is {D.fmt(T.b, after)[:60]} where `tag value, else --retry-after` is expected"
    R.check(okc and n >= 4, "count-tag-cli-one", T.b, "tag count .or(cli.retry) .unwrap_or(1)", "the retry count is not `tag value, else --retry, else 1`" + (": " + whyc if whyc else ""))
    R.check(oka and n >= 4, "delay-tag-cli", T.b, "tag delay .or(cli.retry_after)", "the retry delay is not `tag value, else --retry-after`" + (": " + whya if whya else ""))
    R.floor(2)


def r3(F, R):
    """CLI retry options override the builder's, decided on the deep path table of Runner::run (roles.run_merge_table): the
    Cli handed to the ingestion carries, per option, the CLI value when given and the builder value otherwise."""
    run, paths, H = roles.run_merge_table(F)
    D = H["D"]
    want = {"retry": "retries", "retry_after": "retry_after", "retry_tag_filter": "retry_filter"}
    cli_fidx = {n: H["cli"](n)[2] for n in want}

    def cli_passed(p):
        e = H["ingest"](p)
        if e is None:
            return None
        for a in e[2]:
            if a == H["cli_arg"] or (isinstance(a, tuple) and a and a[0] == "with" and a[1] == H["cli_arg"]) or D.is_variant(a, "runner::basic::Cli"):
                return a
        return None
    n = 0
    for fld, bname in want.items():
        def value_of(p, fld=fld):
            c = cli_passed(p)
            if c is None:
                return None
            if c[0] == "variant":
                return c[3][cli_fidx[fld]]      # a Cli put together anew (`Cli { retry, .. }` out of a private merge helper)
            return D.Deep.project(c, cli_fidx[fld]) if c[0] == "with" else ("field", c, cli_fidx[fld])
        roles.check_option_merge(R, f"cli-over-builder/{fld}", run, paths, H["cli"](fld), H["builder"](bname), value_of,
                                 f"cli.{fld} = cli.{fld}.or(builder.{bname})")
        n += 1
    R.check(n == 3, "cli-over-builder/all-three", run, "", f"only {n} options are merged with the builder values")
    R.floor(4)


def r4(F, R):
    """The resolver answers Some exactly when a retry tag was found, or — without one — the filter matched (filter given) /
    `--retry` or `--retry-after` is set (no filter); the filter is evaluated on scenario ∪ rule ∪ feature tags."""
    T = rtable(F)
    D = T.D
    ok, why = True, ""
    n_f = n_nf = 0
    ev_terms = set()
    for p in T.paths:
        is_some = D.is_variant(p.ret, "std::option::Option", "Some")
        owner, t = T.found(p)
        filt = T.outcome(p, T.cli("retry_tag_filter"))
        evs = [("call", e[1], e[2], e[4]) for e in p.effects if e[0] == "call" and re.search(r"tag::Ext>?::eval$", e[1])]
        matched = None
        if filt == "Some":
            if len(evs) == 1:
                ev_terms.add(evs[0])
                mv = [o for a, o in p.conds if a == evs[0]]
                matched = mv[0] if mv else None
                n_f += 1
        elif filt == "None":
            r_, a_ = T.outcome(p, T.cli("retry")), T.outcome(p, T.cli("retry_after"))
            if r_ == "Some" or a_ == "Some":
                matched = True
            elif r_ == "None" and a_ == "None":
                matched = False
            n_nf += 1
        if owner:
            if not is_some:
                ok, why = False, "a scenario with a retry tag gets no retry options"
        else:
            if matched is None:
                if filt is None:
                    ok, why = False, "without a retry tag the decision does not consult retry_tag_filter"
                else:
                    ok, why = False, "without a retry tag the decision is not `filter matched` / `--retry or --retry-after set`"
            elif is_some != matched:
                ok, why = False, f"without a retry tag the resolver answers {'Some' if is_some else 'None'} although matched = {matched}"
    R.check(ok, "some-iff-tag-or-matched", T.b, "(options.is_some() || matched).then(..)", "the resolver's result is not Some exactly when a retry tag was found or the CLI/filter matched" + (": " + why if why else ""))
    R.check(n_f >= 1, "matched-on-filter", T.b, "", "the decision never evaluates retry_tag_filter")
    R.check(n_nf >= 1, "no-filter-needs-retry-config", T.b, "cli.retry.is_some() || cli.retry_after.is_some()", "no path handles the absence of a filter")
    # the tags the filter is evaluated on: the eval call site in the resolver's family
    sites = [(nb, s2, c) for nb in roles.family(F, T.b) for s2, c in nb.calls(lambda c: callee_is(c, r"tag::Ext::eval$"))]
    R.check(len(sites) == 1, "filter-evaluated", T.b, "", f"{len(sites)} eval calls")
    if len(sites) == 1:
        nb, s2, c = sites[0]
        tags.check_tag_union(F, R, nb, c["args"][1], "filter-tags", s2, "retry filter tag")
    R.floor(5)


def r5(F, R):
    _, _, ins = role_insert(F)
    calls = [(nb, s, t) for nb in F.nested(ins) for s, t in nb.calls(lambda t: re.search(r"ops::Fn", (op_fn(t["func"]) or {}).get("trait", "")) and "runner::basic::RetryOptions" in (op_fn(t["func"]) or {}).get("full", ""))]
    R.check(len(calls) == 1, "resolver-called-once-per-scenario", ins, "", f"{len(calls)} resolver call sites on the enqueue path")
    if len(calls) == 1:
        nb, s, t = calls[0]
        tup = nb.single_def(op_local(t["args"][1]))
        ops = tup[2]["rv"]["ops"] if tup and tup[1] == "assign" else []
        # rule argument derives from this closure's own (rule, scenario) parameter
        rule_ops = [o for o in ops if op_local(o) is not None and "gherkin::Rule" in nb.locals[op_local(o)]]
        ok = False
        if len(rule_ops) == 1:
            sl = A.slice_back(nb, [rule_ops[0]])
            ok = 2 in sl.params and not sl.upvars - {0, 1, 2, 3} and sl.has_call(r"Option::<.*>::as_deref$", r"Option::<.*>::as_ref$", r"Deref::deref$")
        R.check(ok, "resolver-gets-own-rule", s, "retry(&feature, rule.as_deref(), scenario, cli)", "the resolver is not called with the scenario's own rule")
        # and the mapping closure is applied to every element (Iterator::map on the chain) — see C04.R1
        R.check(nb.kind == "Closure", "resolver-in-map-closure", s, "", "")
    R.floor(2)


def r6(F, R):
    """`--concurrency` overrides and `--fail-fast` adds to the builder settings (same rules as C06.R1 and C08.R2/R5)."""
    from . import c06, c08
    c06.r1(F, R)
    c08.r2(F, R)
    c08.r5(F, R)
    # a cloned runner keeps every setting (Cucumber builders / runners are Clone)
    roles.check_field_faithful_clone(F, R, "runner::basic::Basic", "runner")


def r7(F, R):
    """`--retry`, `--retry-after`, `--retry-tag-filter`, `--concurrency`, `--fail-fast` given through `with_cli()` reach the runner:
    every later Cucumber builder call and `clone()` carries the options over (path tables of the builder methods / Clone impl)."""
    roles.check_builders_keep_cli(F, R)
    roles.check_clone_faithful_table(F, R, "cucumber::Cucumber", "clone-faithful")
    R.floor(20)


def r8(F, R):
    """The retry tag filter is evaluated as an ordinary boolean formula over the inherited tags (C15.R2's operator table of
    `TagOperation::eval`): a `not` over a scenario without tags is true."""
    from . import c15
    c15.r2(F, R)


def r9_clone(F, R):
    """CLI and retry option values are cloned between `Runner::run`, the resolver and the queue: a clone keeps every field."""
    n = roles.check_clone_faithful_table(F, R, r"^cli::|^runner::basic::(Cli|RetryOptions)", "clone-faithful")
    R.floor(3)


def r10_setters(F, R):
    """The builder half of the precedence chain: each retry / concurrency / fail-fast builder method stores its argument in the like-named field (runner) or forwards to the like-named runner method with all its arguments (Cucumber)."""
    roles.check_all_builder_setters(F, R, only=r"^(retries|retry_after|retry_filter|retry_options|max_concurrent_scenarios|fail_fast)$", floor=10)


def r11_cli(F, R):
    """The CLI half of the precedence chain: `--retry`, `--retry-after`, `--retry-tag-filter`, `--concurrency`, `--fail-fast` are declared under these long names and read back into the like-named fields of `runner::basic::Cli` (clap derive expansion)."""
    n = roles.check_cli_surface(F, R, "runner::basic::Cli")
    R.floor(5)

def r12_init(F, R):
    """"... and finally to one retry and no delay" / "`--fail-fast` adds to the builder settings": a runner nobody configured retries nothing, has no delay, no filter, no fail-fast and no hooks (`Basic::default()` on its path table)."""
    ds = [b for b in F.crate_bodies() if (b.impl or {}).get("trait") == "std::default::Default" and (b.impl or {}).get("self_adt") == "runner::basic::Basic" and b.name.endswith("::default")]
    if len(ds) != 1:
        raise Unverifiable(f"Default for runner::Basic: {len(ds)}")
    roles.check_initial_state(F, R, ds[0], "runner::basic::Basic", {"retries": "None", "retry_after": "None", "retry_filter": "None", "fail_fast": False,
                                                                   "before_hook": "None", "after_hook": "None"}, "runner-defaults")
    R.floor(1)

RULES = [("R6", r6, None), ("R1", r1, None), ("R2", r2, None), ("R3", r3, None), ("R4", r4, None), ("R5", r5, None), ("R7", r7, None), ("R8", r8, None), ("R9", r9_clone, None), ("R10", r10_setters, None), ("R11", r11_cli, None), ("R12", r12_init, None)]
