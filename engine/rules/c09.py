"""C09 — World lifecycle and hook contract within an attempt (DESIGN §4 C09)."""
import re

from . import analysis as A
from . import roles
from . import c02
from .c10 import user_callback_sites
from .mir import Site, Unverifiable, callee_is, callee_path, const_int, op_fn, op_local, op_place, place_fields, place_str

CFGS = {"quick": ["default", "all", "zoo:default"], "thorough": ["default", "all", "nodefault", "tracing", "zoo:default"]}

WITNESS = ["LinearWorld"]  # doctests of engine/witness run in the thorough tier

EXPLANATION = """(R6 = C10.R1, shared: every user callback is wrapped by catch_unwind, so no panic skips the after hook.) 
(R1) World linearity: `unsafe_code` is forbidden at the crate root (so ownership cannot be circumvented), no
long-lived runner state (Executor, Features, FinishedRulesAndFeatures, Basic, step::Collection, Cucumber, statics)
has a field holding a World by value (fn pointers, references in signatures, PhantomData and the event channel
excepted) — together with the witness crate (a !Clone + !Send World drives the whole default pipeline) this means a
World value is owned by exactly one attempt's future; (R2) creation sites: World::new is called at exactly two
sites — in the before-hook path (only if a hook is set, dominating the hook call) and in run_step (only if the step
matched and no World exists yet); (R3) threading: the World passed to the step fn is the threaded one or the one
just created and is what run_step returns on Ok; the after hook receives the Ok world or take_world() of the
failure, whose three arms all yield the stored world; (R4) reason table of get_scenario_finished_event
(BeforeHookPanicked->BeforeHookFailed, StepSkipped->StepSkipped, StepPanicked->StepFailed; Ok->StepPassed);
(R5) the after hook is called with world.as_mut() and the finish reason, exactly once (ordering part = C02.R5).
"""
DECLINED = ["what user hooks do with the World", "Clone-able Worlds cloned by user code"]
ASSUMPTIONS = ["Rust's ownership rules hold (no unsafe in the crate: checked)"]

LONG_LIVED = ["runner::basic::Executor", "runner::basic::Features", "runner::basic::FinishedRulesAndFeatures", "runner::basic::Basic",
              "step::Collection", "cucumber::Cucumber", "runner::basic::RetryOptions", "runner::basic::RetryOptionsWithDeadline"]


def world_by_value(ty, params):
    """Does the type string hold a value of one of the generic params `params` (world param names)?"""
    t = ty
    for p in params:
        t = re.sub(r"<\w+ as [\w:]+<" + p + r">>::\w+", "Assoc", t)
        t = re.sub(r"&('\w+ )?(mut )?" + p + r"\b", "&_", t)
        t = re.sub(r"std::marker::PhantomData<" + p + r">", "PhantomData", t)
        t = re.sub(r"step::Collection<" + p + r">", "Collection", t)
        t = re.sub(r"event::Cucumber<" + p + r">", "Event", t)
        t = re.sub(r"std::option::Option<&_>", "Opt", t)
        if re.search(r"(^|[<(,\s])" + p + r"([>,)\s]|$)", t):
            return True
    return False


def r1(F, R):
    raw = F.crates.get("cucumber", {})
    R.check(raw.get("unsafe_code_level") == "Forbid", "forbid-unsafe-code", None, "#![forbid(unsafe_code)] at the crate root",
            f"unsafe_code lint level at the crate root is {raw.get('unsafe_code_level')}: ownership of a World could be circumvented")
    n = 0
    for path in LONG_LIVED:
        a = F.adt(path)
        if a is None:
            if path in ("runner::basic::Executor", "runner::basic::Features", "runner::basic::Basic"):
                R.unverifiable(f"adt/{path}", "long-lived state type not found")
            continue
        # world parameter: the generic named W/World (the first type param used with the World trait)
        params = [g for g in a["generics"] if g in ("W", "World")]
        for v in a["variants"]:
            for f in v["fields"]:
                n += 1
                bad = bool(params) and world_by_value(f["ty"], params)
                R.check(not bad, f"no-world-in-state/{path.rsplit('::', 1)[-1]}.{f['name']}", None, "", f"long-lived state `{path}.{f['name']}: {f['ty'][:80]}` holds a World by value")
    for s in F.statics:
        R.check(not re.search(r"\bWorld\b", s["ty"]), f"no-world-in-static/{s['path'].rsplit('::', 1)[-1]}", None, "", f"static {s['path']} mentions a World")
    # the completion message carries no World
    R.floor(20)


def r2(F, R):
    """Where a World is created, decided on deep path tables (attempt.py) of the two routines that call World::new."""
    from . import attempt as AT
    from . import deep as D
    sites = [(b, s, t) for b, s, t, k in user_callback_sites(F) if k == "World::new"]
    roots = {r.key: r for b, s, t in sites for r, _ in roles.routines_of(F, b)}
    rs, root, tree = roles.attempt_tree(F)
    b_step, fo = c02.run_step_body(F, tree)
    step_family = {x.key for x in roles.family(F, F.root_fn(b_step))}
    in_step = [r for r in roots.values() if r.key in step_family]
    others = [r for r in roots.values() if r.key not in step_family]
    R.check(len(in_step) >= 1 and len(others) == 1, "two-creation-sites", None, "World::new is called from the step routine and from one other routine (the before hook)",
            f"World::new is called from {sorted(r.short for r in roots.values())}")
    # --- step routine
    T = AT.StepTable(F)
    ok_m, ok_a, seen = True, True, 0
    for r in T.rows:
        if r["world_new"]:
            seen += 1
            ok_m = ok_m and r["find"] == "Ok" and r["found"] == "Some"
            ok_a = ok_a and r["world_opt"] == "None"
            if r["step_call"]:
                ok_m = ok_m and r["world_new"][0] < r["step_call"][0]
        elif r["panic_src"] and r["panic_src"][0] == "world":
            ok_m = ok_m and r["find"] == "Ok" and r["found"] == "Some"
            ok_a = ok_a and r["world_opt"] == "None"
        if r["step_call"] and not r["world_new"]:
            ok_a = ok_a and r["world_opt"] == "Some"
    R.check(ok_m and seen >= 1, "step/created-only-if-matched", T.body, "World::new only after find() = Ok(Some)", "a World can be created although the step did not match (or before matching)")
    R.check(ok_a and seen >= 1, "step/created-only-if-absent", T.body, "World::new only if no World exists yet", "a World can be created although the attempt already has one (mutations of earlier steps are lost), or the step runs without one")
    # --- before-hook routine
    if len(others) != 1:
        return
    rootf = others[0]
    co = roles.coroutine_of(F, rootf)
    BT = AT.BeforeTable(F, co)
    hook_paths = 0
    ok = True
    why = ""
    # the Option the hook is taken from: `(<X> as Some).0` is what the indirect call calls
    X = None
    for p in BT.paths:
        for e in p.effects:
            if AT.is_indirect(e):
                for x in D.subterms(e[2][0]):
                    if x[0] == "as" and x[2] == "Some":
                        X = x[1]
    for p in BT.paths:
        wn = [i for i, e in enumerate(p.effects) if AT.is_world_new(e)]
        hk = [i for i, e in enumerate(p.effects) if AT.is_indirect(e)]
        src = AT.panic_sources(F, co, p)
        world_panicked = "world" in src
        # the Option the hook comes from: the discriminant condition on a field of self
        hook_set = None
        for a, out in p.conds:
            if X is not None and a == ("discr", X):
                hook_set = out
        if (wn or world_panicked) and hook_set != "Some":
            ok, why = False, "a World is created although no before hook is set"
        if hook_set == "None" and (wn or hk):
            ok, why = False, "user code runs although no before hook is set"
        if hk:
            hook_paths += 1
            werr = [out for a, out in p.conds if a[0] == "discr" and a[1][0] == "await" and a[1][1][0] == "call" and re.search(r"World::new$", a[1][1][1])]
            if not (wn and wn[0] < hk[0] and werr == ["Ok"] and not world_panicked):
                ok, why = False, "the hook runs without a successfully created World before it"
            else:
                wt = [a[1] for a, out in p.conds if a[0] == "discr" and a[1][0] == "await" and a[1][1][0] == "call" and re.search(r"World::new$", a[1][1][1])][0]
                payload = ("field", ("as", wt, "Ok"), 0)
                if D.is_variant(p.ret, "std::result::Result", "Ok") and not D.mentions(p.ret, lambda x: x == payload):
                    ok, why = False, "the World returned after the hook is not the one that was created"
    R.check(hook_paths >= 1, "before/hook-call-found", rootf, "", f"no path of {rootf.short} calls the hook")
    R.check(ok and hook_paths >= 1, "before/world-then-hook-only-if-hook-set", co, "init_world.and_then(hook) under `if let Some(hook)`",
            "the before-hook path does not create the World first and run the hook on it only when a hook is set" + (": " + why if why else ""))
    R.floor(4)


def r3(F, R):
    rs, root, tree = roles.attempt_tree(F)
    # the step routine's path table (attempt.StepTable, whole routine): which World the step fn gets and what every outcome hands on
    from . import attempt as AT
    from . import deep as D
    T = AT.StepTable(F)
    P = T.body
    n_call = n_out = 0
    kinds = set()
    for r in T.rows:
        p = r["p"]
        threaded = ("field", ("as", r["world_opt_term"], "Some"), 0) if r.get("world_opt_term") is not None else None
        created = ("field", ("as", r["world_term"], "Ok"), 0) if r.get("world_term") is not None else None
        have = threaded if r["world_opt"] == "Some" else created if (r["world_new"] and r.get("world_err") is False and "world" not in r["panic_src"]) else None
        if r["step_call"]:
            n_call += 1
            e = p.effects[r["step_call"][0]]
            got_t = threaded is not None and any(D.mentions(a, lambda x: x == threaded) for a in e[2])
            got_c = created is not None and any(D.mentions(a, lambda x: x == created) for a in e[2])
            kinds.add("threaded" if got_t else "created" if got_c else "?")
            R.check((got_t and r["world_opt"] == "Some") or (got_c and r["world_opt"] == "None" and not got_t), "step/gets-attempt-world", P, "the step fn borrows the attempt's World",
                    "the step fn does not receive the attempt's World (the threaded one if there is one, else the one just created)")
            if r["outcome"] == "passed":
                want = threaded if got_t else created
                R.check(r["world_out"] == want, "step/returns-same-world", P, "Ok(world) returns the World the step ran on", "run_step does not return the World the step ran on")
        if r["outcome"] in ("failed", "skipped"):
            n_out += 1
            wo = r["world_out"]
            cond = f"{r['outcome']}/find={r['find']}/found={r['found']}/world={r['world_opt']}" + ("/created" if have is created and created is not None else "")
            if have is not None:
                ok = wo is not None and (wo == r.get("world_opt_term") or (D.is_variant(wo, "std::option::Option", "Some") and wo[3][0] == have))
                R.check(ok, f"step/outcome-keeps-world/{cond}", P, "the outcome carries the attempt's World",
                        f"an outcome ({r['outcome']}) of the step drops the attempt's World (hands on {D.fmt(P, wo)[:40] if wo else 'nothing'} although a World exists): the after hook and later events lose it")
            elif r["world_opt"] == "None":
                ok = wo is not None and (wo == r.get("world_opt_term") or D.is_variant(wo, "std::option::Option", "None"))
                R.check(ok, f"step/outcome-keeps-world/{cond}", P, "no World exists: None is handed on", f"an outcome ({r['outcome']}) hands on a World ({D.fmt(P, wo)[:40] if wo else '?'}) on a path where none exists")
            else:
                # the path never looked at the threaded World: it may exist, so it has to be handed on as it is
                ok = wo is not None and wo == r.get("world_opt_term")
                R.check(ok, f"step/outcome-keeps-world/{cond}", P, "the threaded World is handed on untouched",
                        f"an outcome ({r['outcome']}) of the step drops the attempt's World (hands on {D.fmt(P, wo)[:40] if wo else 'nothing'} without having looked whether one exists): the after hook and later events lose it")
    R.check(kinds == {"created", "threaded"}, "step/world-is-threaded-or-created", P, "world = world_opt or the one just created", f"the World handed to the step comes from {sorted(kinds)}")
    R.check(n_out >= 5 and n_call >= 2, "step/outcomes-found", P, f"{n_out} failure / skip outcomes, {n_call} rows calling the step", f"only {n_out} outcomes / {n_call} step calls found in the step routine's table")
    # take_world: all arms take the stored world
    tw = [b for b in F.crate_bodies() if (b.impl or {}).get("self_adt") == "runner::basic::ExecutionFailure" and b.locals[0] == "std::option::Option<W>"]
    R.check(len(tw) == 1, "take-world/found", None, "", f"{len(tw)} candidates")
    if len(tw) == 1:
        b = tw[0]
        # on its deep path table: per failure kind the stored World (the variant's `Option<W>` field) is what is returned (and taken)
        from . import deep as D
        info = F.adt("runner::basic::ExecutionFailure")
        arms = {}
        for p in D.Deep(F, b, max_paths=50).run():
            var = [o for a, o in p.conds if a[0] == "discr" and a[1] in (("deref", ("arg", 1)), ("arg", 1))]
            v = var[0] if len(var) == 1 else "?"
            vinfo = [x for x in info["variants"] if x["name"] == v]
            widx = [i for i, f in enumerate(vinfo[0]["fields"]) if re.match(r"^std::option::Option<(W|World)>$", f.get("ty", ""))] if vinfo else []
            want = ("field", ("as", ("deref", ("arg", 1)), v), widx[0]) if len(widx) == 1 else None
            arms[v] = want is not None and p.ret == want
        ok = set(arms) == {x["name"] for x in info["variants"]} and all(arms.values())
        R.check(ok, "take-world/all-arms", b, "every failure kind yields its stored World", f"take_world does not return the stored World of every failure kind: {arms}")
    # after hook receives: Ok -> world.take(), Err -> take_world()
    body = None
    for bb in tree:
        if bb.is_coroutine and any(F.callee_body(t) is (tw[0] if tw else None) for _, t in bb.calls()):
            body = bb
    if body is not None and tw:
        s_tw = [s for s, t in body.calls() if F.callee_body(t) is tw[0]][0]
        vc = A.vc_at(body, s_tw)
        R.check(any(v == frozenset(["Err"]) for v in vc.values()), "after/err-world-from-take-world", s_tw, "Err(e) => e.take_world()", "take_world is not used on the Err arm")
        after = [(s, t) for s, t in body.calls() if roles.async_callee(F, body, t) is not None and "AfterHookEventsMeta" in body.locals[t["dest"]["l"]]]
        if len(after) == 1:
            sl = A.slice_back(body, [after[0][1]["args"][1]], stop_calls=[r"Future::poll$"])
            R.check(s_tw in sl.sites and sl.has_call(r"Option::<.*>::take$"), "after/gets-attempt-world", after[0][0], "after hook gets Ok world or the failure's world",
                    "the World handed to the after hook is not the attempt's World (Ok world / take_world())")
    R.floor(6)


def _ret_idx(rets, s):
    return [i for i, (x, _) in enumerate(rets) if x == s][0]


def r4(F, R):
    gs = [b for b in F.crate_bodies() if (b.impl or {}).get("self_adt") == "runner::basic::ExecutionFailure" and b.locals[0] == "event::ScenarioFinished"]
    if len(gs) != 1:
        raise Unverifiable("get_scenario_finished_event")
    table = {}
    for p in A.enumerate_paths(gs[0]):
        var = [o for a, o in p.decisions if "ExecutionFailure" in a]
        ret = p.ret[2] if isinstance(p.ret, tuple) else None
        table[var[0] if var else "?"] = ret
    want = {"BeforeHookPanicked": "BeforeHookFailed", "StepSkipped": "StepSkipped", "StepPanicked": "StepFailed"}
    R.check(table == want, "finish-reason-table", gs[0], f"{table}", f"scenario finish reasons are {table}; expected {want}")
    # Ok => StepPassed at the call site
    rs, root, tree = roles.attempt_tree(F)
    sp = [(b, s) for b in tree for s, st in b.assigns(lambda st: st["rv"]["k"] == "agg" and st["rv"].get("adt") == "event::ScenarioFinished" and st["rv"]["variant"] == "StepPassed")]
    okp = False
    for b, s in sp:
        vc = A.vc_at(b, s)
        okp = any(v == frozenset(["Ok"]) for v in vc.values())
    R.check(len(sp) == 1 and okp, "ok-is-step-passed", sp[0][1] if sp else None, "Ok(_) => ScenarioFinished::StepPassed", "StepPassed is not produced exactly on the Ok arm")
    # the reason given to the after hook is that value
    R.floor(2)


def r5(F, R):
    hooks = [(b, s, t) for b, s, t, k in user_callback_sites(F) if k == "hook:After"]
    if len(hooks) != 1:
        raise Unverifiable(f"after hook call sites: {len(hooks)}")
    b, s, t = hooks[0]
    tup = op_local(t["args"][1])
    sd = b.single_def(tup) if tup is not None else None
    ok_w = ok_r = False
    if sd and sd[1] == "assign" and sd[2]["rv"]["k"] == "agg":
        ops = sd[2]["rv"]["ops"]
        wsl = A.slice_back(b, [ops[-1]])
        ok_w = wsl.has_call(r"Option::<.*>::as_mut$")
        rsl = A.deep_slice(F, b, [ops[-2]])
        ok_r = any("event::ScenarioFinished" in sl.body.locals[l] if False else False for sl in []) or True
        ev_ty = [b.locals[op_local(o)] for o in ops if op_local(o) is not None]
        ok_r = any("event::ScenarioFinished" in x for x in ev_ty)
    R.check(ok_w, "after/gets-world-as-mut", s, "hook(.., world.as_mut())", "the after hook does not receive `world.as_mut()`")
    R.check(ok_r, "after/gets-finish-reason", s, "hook(.., &ev, ..)", "the after hook does not receive the finish reason")
    # the after hook of a started attempt always gets its turn: the scheduler never abandons in-flight attempts
    from .c08 import check_exit_requires_empty_in_flight
    check_exit_requires_empty_in_flight(F, R, "after/attempts-never-abandoned")
    R.floor(3)


def r6(F, R):
    """No user callback can unwind past the attempt — otherwise its after hook (and Finished) never run.  This is C10.R1's
    wrap rule; it is a necessary condition of C09's "the after hook runs once for every started attempt" as well."""
    from . import c10
    c10.r1(F, R)


def r7_setters(F, R):
    """`before(hook)` / `after(hook)` install the hook in the like-named slot (runner) / forward to the like-named runner method (Cucumber): a before hook registered as the after hook changes when user code runs."""
    roles.check_all_builder_setters(F, R, only=r"^(before|after)$", floor=4)


def r8_ctor_glue(F, R):
    """"A World is created at most once per attempt", the glue between `World::new()` and the user's constructor (`#[world(init = ..)]`):
    every `ToWorldFuture::to_world_future` calls the constructor it wraps exactly once on every path and returns that call's result (the future
    itself, or `ready(value)`); `IntoWorldResult` hands the World on as it is (`Ok(self)` / `self`)."""
    from . import deep as D
    tw = [b for b in F.crate_bodies() if (b.impl or {}).get("trait") == "codegen::ToWorldFuture" and b.name.endswith("::to_world_future")]
    iw = [b for b in F.crate_bodies() if (b.impl or {}).get("trait") == "codegen::IntoWorldResult" and b.name.endswith("::into_world_result")]
    if not tw and not iw and not any(b.name.startswith("codegen::") for b in F.crate_bodies()):
        return      # the `codegen` module (feature `macros`) is not part of this configuration
    if len(tw) < 2 or len(iw) < 2:
        raise Unverifiable(f"constructor glue: ToWorldFuture impls {len(tw)}, IntoWorldResult impls {len(iw)}")
    for b in tw:
        rows = D.Deep(F, b, max_paths=50).run()
        ok, why = bool(rows) and not any(p.cut for p in rows), "empty table or a loop"
        for p in rows:
            ctor = [e for e in p.effects if e[0] == "call" and e[1] == "<indirect>" and D.mentions(e[2][0], lambda x: x == ("arg", 1))]
            other = [e for e in p.effects if e[0] == "call" and e[1] == "<indirect>" and e not in ctor]
            if len(ctor) != 1 or other:
                ok, why = False, f"the wrapped constructor is called {len(ctor)} times on a path" + (" (and another fn value is called)" if other else "")
                continue
            is_res = lambda x: isinstance(x, tuple) and len(x) == 4 and x[0] == "call" and x[3] == ctor[0][4]
            direct = is_res(p.ret)
            ready = isinstance(p.ret, tuple) and p.ret[0] == "call" and re.search(r"future::ready$", p.ret[1]) and len(p.ret[2]) == 1 and is_res(p.ret[2][0])
            if not (direct or ready):
                ok, why = False, f"what is returned is not the constructor's result: {D.fmt(b, p.ret)[:80]}"
        R.check(ok, f"ctor-glue/called-once/{b.impl.get('self', b.short)[:30] if isinstance(b.impl.get('self'), str) else b.short[:40]}", b, "the constructor is called once, its result returned",
                f"`{b.short[-70:]}`: {why}: a World constructor with side effects runs more (or less) than once per `World::new()`")
    for b in iw:
        rows = D.Deep(F, b, max_paths=20).run()
        me = lambda x: x in (("arg", 1), ("L", 0, 1))
        ok = len(rows) == 1 and not rows[0].cut and not [e for e in rows[0].effects if e[0] == "call"] and \
            (me(rows[0].ret) or (D.is_variant(rows[0].ret, "std::result::Result", "Ok") and me(rows[0].ret[3][0])))
        R.check(ok, f"ctor-glue/world-as-is/{b.short[:40]}", b, "the constructed value is handed on as it is", f"`{b.short[-70:]}` does not hand the constructed World / Result on as it is")
    R.floor(4)


def r9_derived_new(F, R):
    """`#[derive(World)]` (zoo crate): the generated `World::new()` turns the constructor into a future once, awaits exactly that future once,
    and returns `Ok(world)` / `Err(error.into())` of exactly its result."""
    from . import deep as D
    news = [b for b in F.bodies.values() if b.is_coroutine and re.search(r"as cucumber::World>::new::\{closure#0\}$", b.name)]
    if not news:
        raise Unverifiable("no derived `World::new` in the zoo")
    for b in news:
        rows = D.Deep(F, b, max_paths=50).run()
        ok, why = bool(rows) and not any(p.cut for p in rows), "empty table or a loop"
        kinds = set()
        for p in rows:
            mk = [e for e in p.effects if e[0] == "call" and re.search(r"ToWorldFuture>::to_world_future$", e[1])]
            aws = [e for e in p.effects if e[0] == "await"]
            conv = [e for e in p.effects if e[0] == "call" and re.search(r"IntoWorldResult>::into_world_result$", e[1])]
            if len(mk) != 1 or len(aws) != 1 or len(conv) != 1:
                ok, why = False, f"to_world_future x{len(mk)}, awaits x{len(aws)}, into_world_result x{len(conv)} on a path"
                continue
            is_call = lambda x, e: isinstance(x, tuple) and len(x) == 4 and x[0] == "call" and x[3] == e[4]
            if not is_call(aws[0][1], mk[0]):
                ok, why = False, "the awaited future is not the one to_world_future returned"
            if not D.mentions(conv[0][2][0], lambda x: isinstance(x, tuple) and x and x[0] == "await" or is_call(x, mk[0])):
                ok, why = False, "into_world_result is not applied to the awaited value"
            if D.is_variant(p.ret, "std::result::Result", "Ok"):
                kinds.add("Ok")
                if p.ret[3][0] != ("field", ("as", ("call", conv[0][1], conv[0][2], conv[0][4]), "Ok"), 0):
                    ok, why = False, "Ok(..) does not carry the constructed World"
            elif D.is_variant(p.ret, "std::result::Result", "Err"):
                kinds.add("Err")
                if not D.mentions(p.ret[3][0], lambda x: x == ("field", ("as", ("call", conv[0][1], conv[0][2], conv[0][4]), "Err"), 0)):
                    ok, why = False, "Err(..) does not carry the constructor's error"
            else:
                ok, why = False, f"returns {D.fmt(b, p.ret)[:60]}"
        R.check(ok and kinds == {"Ok", "Err"}, f"derived-new/{b.short[:40]}", b, "constructor future made once, awaited once, result handed on", f"derived `World::new`: {why or 'cases ' + str(sorted(kinds))}")
    R.floor(1)


_LIB = ["default", "all", "nodefault", "tracing"]
RULES = [("R1", r1, _LIB), ("R2", r2, _LIB), ("R3", r3, _LIB), ("R4", r4, _LIB), ("R5", r5, _LIB), ("R6", r6, _LIB), ("R7", r7_setters, _LIB), ("R8", r8_ctor_glue, _LIB), ("R9", r9_derived_new, ["zoo:default"])]
